# sourced by setup.sh / check: offline Go environment (see DESIGN.md §2).
# GOSUMDB must stay unset: "off" breaks the cached go1.23.7 toolchain switch.
export GOFLAGS=-mod=mod
export GOPROXY=off
unset GOSUMDB GOTOOLCHAIN
