// Package lnmodel is the harness's Lightning node: a ledger of invoices and outgoing payments with
// scripted answers. It charges the whole fee limit it is given (adversarial backend of C02).
package lnmodel

import (
	"context"
	"crypto/rand"
	"crypto/sha256"
	"encoding/hex"
	"errors"
	"fmt"
	"runtime"
	"sort"
	"strconv"
	"strings"
	"sync"
	"time"

	"github.com/btcsuite/btcd/chaincfg"
	"github.com/decred/dcrd/dcrec/secp256k1/v4"
	"github.com/decred/dcrd/dcrec/secp256k1/v4/ecdsa"
	"github.com/lightningnetwork/lnd/lnwire"
	"github.com/lightningnetwork/lnd/zpay32"

	"github.com/elnosh/gonuts/mint/lightning"
	decodepay "github.com/nbd-wtf/ln-decodepay"

	"verif/harness/dbwrap"
)

// Answer codes for scripted replies.
type Answer int

const (
	Succeeded Answer = iota
	Pending
	Failed
	Error    // generic / transport error
	NotFound // OutgoingPaymentStatus only: lightning.OutgoingPaymentNotFound
)

func (a Answer) String() string {
	return [...]string{"Succeeded", "Pending", "Failed", "Error", "NotFound"}[a]
}

type Invoice struct {
	Hash, Request, Preimage string
	Amount                  uint64 // sat (floor of AmountMsat/1000)
	AmountMsat              uint64
	Settled                 bool
	Owner                   string // mint name that created it ("" = external, created by the harness)
	subs                    []*Sub
}

type Payment struct {
	Hash       string
	AmountMsat uint64 // what really leaves the node
	Amount     uint64 // sat
	FeeLimit   uint64
	Status     Answer // Succeeded | Pending | Failed (ledger truth as far as answered)
	Payer      string
	Partial    bool
	Attempts   int
	PayAnswer  Answer
}

type Call struct {
	Mint, Method string
	Hash         string
	Amount       uint64
	FeeLimit     uint64
	Answer       string
	G            int64 // goroutine that made the call (lets a harness attribute a payment attempt to a request)
}

type LN struct {
	mu       sync.Mutex
	Invoices map[string]*Invoice
	Payments map[string]*Payment
	// scripts per payment hash
	PayScript    map[string][]Answer // consumed by SendPayment / PayPartialAmount; empty => Succeeded
	StatusScript map[string][]Answer // consumed by OutgoingPaymentStatus; empty => ledger truth
	// DefaultPay is used when no pay script entry exists.
	DefaultPay Answer
	Calls      []Call
	FeeFn      func(amount uint64) uint64
	// Hook is called at the entry of every client method (schedule / crash point). May panic (crash sentinel).
	Hook func(mint, method string)
	// FailCreate / FailInvoiceStatus make those calls return an error (C20).
	FailCreate, FailInvoiceStatus bool
	// ErrText is the text of injected errors.
	ErrText string
	subCond *sync.Cond
	Blocked int // number of subscriptions currently blocked in Recv
	// Forged: BOLT11 strings made by ForgeInvoice -> msat
	Forged          map[string]uint64
	lastPartialMsat uint64
	// KeepRes: record per calling goroutine what each backend call answered (E1's state key)
	KeepRes bool
	Res     map[int64][]string
}

// rec must be called with l.mu held.
func (l *LN) rec(method, hash, answer string) {
	if !l.KeepRes {
		return
	}
	if l.Res == nil {
		l.Res = map[int64][]string{}
	}
	g := gid()
	l.Res[g] = append(l.Res[g], method+"|"+hash+"|"+answer)
}

// ResultsOf returns the recorded answers given to goroutine g.
func (l *LN) ResultsOf(g int64) []string {
	l.mu.Lock()
	defer l.mu.Unlock()
	return append([]string(nil), l.Res[g]...)
}

func New() *LN {
	l := &LN{Invoices: map[string]*Invoice{}, Payments: map[string]*Payment{},
		PayScript: map[string][]Answer{}, StatusScript: map[string][]Answer{},
		ErrText: "lnmodel: injected backend failure /var/lib/lnd/secret.macaroon rpc error"}
	l.subCond = sync.NewCond(&l.mu)
	l.FeeFn = func(a uint64) uint64 { return (a + 99) / 100 }
	return l
}

func (l *LN) hook(mint, method string) {
	if l.Hook != nil {
		l.Hook(mint, method)
	}
}

// NewExternalInvoice creates an invoice owned by nobody in the world (an external payee).
func (l *LN) NewExternalInvoice(amount uint64) *Invoice {
	req, pre, hash, err := lightning.CreateFakeInvoice(amount, false)
	if err != nil {
		panic(err)
	}
	inv := &Invoice{Hash: hash, Request: req, Preimage: pre, Amount: amount, AmountMsat: amount * 1000}
	l.mu.Lock()
	l.Invoices[hash] = inv
	l.mu.Unlock()
	return inv
}

// NewExternalInvoiceMsat creates an external invoice for an amount that is not a whole number of sats.
func (l *LN) NewExternalInvoiceMsat(msat uint64) *Invoice {
	req, pre, hash, err := makeInvoice(msat, nil)
	if err != nil {
		panic(err)
	}
	inv := &Invoice{Hash: hash, Request: req, Preimage: pre, Amount: msat / 1000, AmountMsat: msat}
	l.mu.Lock()
	l.Invoices[hash] = inv
	l.mu.Unlock()
	return inv
}

// ForgeInvoice returns a BOLT11 string (signed by a throw-away key, as any third party can produce) that carries the
// payment hash of an existing invoice but another amount. It is not registered as an invoice of its own: paying it
// pays whoever knows the preimage of that hash.
func (l *LN) ForgeInvoice(hash string, msat uint64) string {
	hb, _ := hex.DecodeString(hash)
	var h [32]byte
	copy(h[:], hb)
	req, _, _, err := makeInvoice(msat, &h)
	if err != nil {
		panic(err)
	}
	l.mu.Lock()
	if l.Forged == nil {
		l.Forged = map[string]uint64{}
	}
	l.Forged[req] = msat
	l.mu.Unlock()
	return req
}

func makeInvoice(msat uint64, fixedHash *[32]byte) (string, string, string, error) {
	var random [32]byte
	if _, err := rand.Read(random[:]); err != nil {
		return "", "", "", err
	}
	preimage := hex.EncodeToString(random[:])
	paymentHash := sha256.Sum256(random[:])
	if fixedHash != nil {
		paymentHash = *fixedHash
		preimage = ""
	}
	invoice, err := zpay32.NewInvoice(&chaincfg.SigNetParams, paymentHash, time.Now(), zpay32.Amount(lnwire.MilliSatoshi(msat)), zpay32.Description("verif"))
	if err != nil {
		return "", "", "", err
	}
	str, err := invoice.Encode(zpay32.MessageSigner{SignCompact: func(msg []byte) ([]byte, error) {
		key, err := secp256k1.GeneratePrivateKey()
		if err != nil {
			return nil, err
		}
		return ecdsa.SignCompact(key, msg, true), nil
	}})
	return str, preimage, hex.EncodeToString(paymentHash[:]), err
}

// Settle marks an invoice paid from outside (a user paying a mint quote). Subscribers are NOT woken:
// delivery of the notification is a separate event (Deliver) so that explorers can schedule it.
func (l *LN) Settle(hash string) {
	l.mu.Lock()
	if inv := l.Invoices[hash]; inv != nil {
		inv.Settled = true
	}
	l.mu.Unlock()
}

// Deliver wakes the subscriptions of a settled invoice (the backend's asynchronous notification).
func (l *LN) Deliver(hash string) int { return len(l.DeliverGIDs(hash)) }

// DeliverPairs is Deliver returning, per woken subscription, the goroutine ids {owner, receiver}.
func (l *LN) DeliverPairs(hash string) [][2]int64 {
	l.mu.Lock()
	defer l.mu.Unlock()
	inv := l.Invoices[hash]
	if inv == nil || !inv.Settled {
		return nil
	}
	var g [][2]int64
	for _, s := range inv.subs {
		if !s.delivered && s.ctx.Err() == nil {
			s.delivered = true
			g = append(g, [2]int64{s.OwnerGID, s.RecvGID})
		}
	}
	l.subCond.Broadcast()
	return g
}

// DeliverGIDs is Deliver returning the goroutine ids of the woken subscribers' owners.
func (l *LN) DeliverGIDs(hash string) []int64 {
	l.mu.Lock()
	defer l.mu.Unlock()
	inv := l.Invoices[hash]
	if inv == nil || !inv.Settled {
		return nil
	}
	var g []int64
	for _, s := range inv.subs {
		if !s.delivered && s.ctx.Err() == nil {
			s.delivered = true
			g = append(g, s.OwnerGID)
		}
	}
	l.subCond.Broadcast()
	return g
}

// WaitBlocked waits until at least n subscriptions of the invoice are blocked in Recv (watcher parked).
func (l *LN) WaitBlocked(hash string, n int) bool {
	deadline := time.Now().Add(20 * time.Second)
	for time.Now().Before(deadline) {
		l.mu.Lock()
		inv := l.Invoices[hash]
		c := 0
		if inv != nil {
			for _, s := range inv.subs {
				if s.blocked {
					c++
				}
			}
		}
		l.mu.Unlock()
		if c >= n {
			return true
		}
		time.Sleep(50 * time.Microsecond)
	}
	return false
}

// SumIn is the total settled on invoices owned by a mint (Lightning inflow), incl. internal settlements
// made through SendPayment by another mint of the world.
func (l *LN) SumIn(owner string) uint64 {
	l.mu.Lock()
	defer l.mu.Unlock()
	var s uint64
	for _, inv := range l.Invoices {
		if inv.Owner == owner && inv.Settled {
			s += inv.Amount
		}
	}
	return s
}

// SumOut returns (settled out incl. fee limit charged, in-flight amount+feeLimit) for a payer.
func (l *LN) SumOut(payer string) (settled, inflight uint64) {
	l.mu.Lock()
	defer l.mu.Unlock()
	for _, p := range l.Payments {
		if p.Payer != payer {
			continue
		}
		switch p.Status {
		case Succeeded:
			settled += p.Amount + p.FeeLimit
		case Pending:
			inflight += p.Amount + p.FeeLimit
		}
	}
	return
}

// SumOutMsat returns what really left (or may still leave) the payer's node in msat: amounts at msat precision plus
// the whole fee limit of every settled / in-flight payment.
func (l *LN) SumOutMsat(payer string) (settled, inflight uint64) {
	l.mu.Lock()
	defer l.mu.Unlock()
	for _, p := range l.Payments {
		if p.Payer != payer {
			continue
		}
		switch p.Status {
		case Succeeded:
			settled += p.AmountMsat + p.FeeLimit*1000
		case Pending:
			inflight += p.AmountMsat + p.FeeLimit*1000
		}
	}
	return
}

func (l *LN) Snapshot() string {
	l.mu.Lock()
	defer l.mu.Unlock()
	s := ""
	for h, p := range l.Payments {
		s += fmt.Sprintf("pay %s %d %d %v;", h, p.Amount, p.FeeLimit, p.Status)
	}
	return s
}

// StateKey renders the whole ledger (invoices, subscriptions, payments, unconsumed answer scripts) with payment hashes
// renamed by the caller: the backend's part of E1's state key.
func (l *LN) StateKey(rename func(string) string) string {
	l.mu.Lock()
	defer l.mu.Unlock()
	var parts []string
	for h, inv := range l.Invoices {
		subs := ""
		for _, s := range inv.subs {
			subs += fmt.Sprintf("[%v%v%v]", s.delivered, s.done, s.ctx.Err() != nil)
		}
		parts = append(parts, fmt.Sprintf("inv %s %d %v %s", rename(h), inv.AmountMsat, inv.Settled, subs))
	}
	for h, p := range l.Payments {
		parts = append(parts, fmt.Sprintf("pay %s %d %d %v %d %v %v", rename(h), p.AmountMsat, p.FeeLimit, p.Status, p.Attempts, p.PayAnswer, p.Partial))
	}
	for h, sc := range l.PayScript {
		if len(sc) > 0 {
			parts = append(parts, fmt.Sprintf("ps %s %v", rename(h), sc))
		}
	}
	for h, sc := range l.StatusScript {
		if len(sc) > 0 {
			parts = append(parts, fmt.Sprintf("ss %s %v", rename(h), sc))
		}
	}
	sort.Strings(parts)
	return strings.Join(parts, ";")
}

// Client returns the lightning.Client facade used by the mint called name.
func (l *LN) Client(name string) *Client { return &Client{l: l, name: name} }

type Client struct {
	l    *LN
	name string
}

var _ lightning.Client = (*Client)(nil)

func (c *Client) ConnectionStatus() error { return nil }

func (c *Client) CreateInvoice(amount uint64) (lightning.Invoice, error) {
	c.l.hook(c.name, "CreateInvoice")
	if c.l.FailCreate {
		return lightning.Invoice{}, errors.New(c.l.ErrText)
	}
	req, pre, hash, err := lightning.CreateFakeInvoice(amount, false)
	if err != nil {
		return lightning.Invoice{}, err
	}
	c.l.mu.Lock()
	c.l.Invoices[hash] = &Invoice{Hash: hash, Request: req, Preimage: pre, Amount: amount, AmountMsat: amount * 1000, Owner: c.name}
	c.l.Calls = append(c.l.Calls, Call{Mint: c.name, Method: "CreateInvoice", Hash: hash, Amount: amount})
	c.l.mu.Unlock()
	return lightning.Invoice{PaymentRequest: req, PaymentHash: hash, Amount: amount, Expiry: lightning.InvoiceExpiryTime}, nil
}

func (c *Client) InvoiceStatus(hash string) (lightning.Invoice, error) {
	c.l.hook(c.name, "InvoiceStatus")
	c.l.mu.Lock()
	defer c.l.mu.Unlock()
	if c.l.FailInvoiceStatus {
		return lightning.Invoice{}, errors.New(c.l.ErrText)
	}
	inv := c.l.Invoices[hash]
	if inv == nil {
		c.l.rec("InvoiceStatus", hash, "unknown")
		return lightning.Invoice{}, errors.New("invoice not found")
	}
	c.l.rec("InvoiceStatus", hash, fmt.Sprint(inv.Settled))
	out := lightning.Invoice{PaymentRequest: inv.Request, PaymentHash: inv.Hash, Settled: inv.Settled, Amount: inv.Amount, Expiry: lightning.InvoiceExpiryTime}
	// a backend reveals the preimage of its own invoices
	out.Preimage = inv.Preimage
	return out, nil
}

func (c *Client) pay(method, request string, amountSat, maxFee uint64, partial bool) (lightning.PaymentStatus, error) {
	c.l.hook(c.name, method)
	bolt, err := decodepay.Decodepay(request)
	if err != nil {
		return lightning.PaymentStatus{}, fmt.Errorf("bad invoice: %v", err)
	}
	hash := bolt.PaymentHash
	amountMsat := uint64(bolt.MSatoshi)
	if partial {
		amountMsat = amountSat * 1000
		if c.l.lastPartialMsat > 0 {
			amountMsat = c.l.lastPartialMsat
		}
	} else {
		amountSat = uint64(bolt.MSatoshi) / 1000
	}
	c.l.mu.Lock()
	defer c.l.mu.Unlock()
	ans := c.l.DefaultPay
	if s := c.l.PayScript[hash]; len(s) > 0 {
		ans = s[0]
		c.l.PayScript[hash] = s[1:]
	}
	if _, forged := c.l.Forged[request]; forged {
		// the payee of a forged invoice is a throw-away key nobody routes to: the payment can only fail
		c.l.Calls = append(c.l.Calls, Call{G: gid(), Mint: c.name, Method: method, Hash: hash, Amount: amountSat, FeeLimit: maxFee, Answer: "Failed"})
		c.l.rec(method, hash, "Failed(forged)")
		if q := c.l.Payments[hash]; q == nil {
			c.l.Payments[hash] = &Payment{Hash: hash, Payer: c.name, Status: Failed, Attempts: 1, PayAnswer: Failed}
		}
		return lightning.PaymentStatus{PaymentStatus: lightning.Failed, PaymentFailureReason: "no route"}, nil
	}
	p := c.l.Payments[hash]
	if p == nil {
		p = &Payment{Hash: hash, Payer: c.name, Partial: partial}
		c.l.Payments[hash] = p
	}
	if p.Status == Succeeded && p.Attempts > 0 {
		// paying an already paid invoice again: a real node refuses; keep the ledger, answer Failed.
		c.l.Calls = append(c.l.Calls, Call{G: gid(), Mint: c.name, Method: method, Hash: hash, Amount: amountSat, FeeLimit: maxFee, Answer: "AlreadyPaid"})
		c.l.rec(method, hash, "AlreadyPaid")
		return lightning.PaymentStatus{PaymentStatus: lightning.Failed, PaymentFailureReason: "already paid"}, nil
	}
	p.Attempts++
	p.Amount, p.AmountMsat, p.FeeLimit, p.PayAnswer = amountSat, amountMsat, maxFee, ans
	c.l.Calls = append(c.l.Calls, Call{G: gid(), Mint: c.name, Method: method, Hash: hash, Amount: amountSat, FeeLimit: maxFee, Answer: ans.String()})
	c.l.rec(method, hash, ans.String())
	inv := c.l.Invoices[hash]
	pre := "00"
	if inv != nil {
		pre = inv.Preimage
	}
	switch ans {
	case Succeeded:
		p.Status = Succeeded
		if inv != nil {
			inv.Settled = true
		}
		return lightning.PaymentStatus{Preimage: pre, PaymentStatus: lightning.Succeeded}, nil
	case Pending:
		p.Status = Pending
		return lightning.PaymentStatus{PaymentStatus: lightning.Pending}, nil
	case Failed:
		p.Status = Failed
		return lightning.PaymentStatus{PaymentStatus: lightning.Failed, PaymentFailureReason: "no route"}, nil
	default: // Error: outcome unknown to the caller; the ledger keeps it in flight until a status answer decides
		p.Status = Pending
		return lightning.PaymentStatus{}, errors.New(c.l.ErrText)
	}
}

func (c *Client) SendPayment(ctx context.Context, request string, maxFee uint64) (lightning.PaymentStatus, error) {
	return c.pay("SendPayment", request, 0, maxFee, false)
}

func (c *Client) PayPartialAmount(ctx context.Context, request string, amountMsat uint64, maxFee uint64) (lightning.PaymentStatus, error) {
	c.l.mu.Lock()
	c.l.lastPartialMsat = amountMsat
	c.l.mu.Unlock()
	defer func() { c.l.mu.Lock(); c.l.lastPartialMsat = 0; c.l.mu.Unlock() }()
	return c.pay("PayPartialAmount", request, amountMsat/1000, maxFee, true)
}

func (c *Client) OutgoingPaymentStatus(ctx context.Context, hash string) (lightning.PaymentStatus, error) {
	c.l.hook(c.name, "OutgoingPaymentStatus")
	c.l.mu.Lock()
	defer c.l.mu.Unlock()
	p := c.l.Payments[hash]
	var ans Answer
	if s := c.l.StatusScript[hash]; len(s) > 0 {
		ans = s[0]
		c.l.StatusScript[hash] = s[1:]
	} else if p == nil {
		ans = NotFound
	} else {
		ans = p.Status
	}
	c.l.Calls = append(c.l.Calls, Call{Mint: c.name, Method: "OutgoingPaymentStatus", Hash: hash, Answer: ans.String()})
	c.l.rec("OutgoingPaymentStatus", hash, ans.String())
	inv := c.l.Invoices[hash]
	pre := "00"
	if inv != nil {
		pre = inv.Preimage
	}
	switch ans {
	case Succeeded:
		if p != nil {
			p.Status = Succeeded
		}
		if inv != nil {
			inv.Settled = true
		}
		return lightning.PaymentStatus{Preimage: pre, PaymentStatus: lightning.Succeeded}, nil
	case Failed:
		if p != nil {
			p.Status = Failed
		}
		return lightning.PaymentStatus{PaymentStatus: lightning.Failed, PaymentFailureReason: "no route"}, nil
	case Pending:
		return lightning.PaymentStatus{PaymentStatus: lightning.Pending}, nil
	case NotFound:
		if p != nil {
			p.Status = Failed // the node has no such payment: it will never succeed
		}
		return lightning.PaymentStatus{}, lightning.OutgoingPaymentNotFound
	default:
		return lightning.PaymentStatus{}, errors.New(c.l.ErrText)
	}
}

func (c *Client) FeeReserve(amount uint64) uint64 { return c.l.FeeFn(amount) }

type Sub struct {
	l         *LN
	hash      string
	ctx       context.Context
	delivered bool
	blocked   bool
	done      bool
	// OwnerGID is the goroutine that subscribed (the mint's checkInvoicePaid goroutine)
	OwnerGID int64
	// RecvGID is the goroutine blocked in Recv (the watcher's inner goroutine)
	RecvGID int64
}

func (c *Client) SubscribeInvoice(ctx context.Context, paymentHash string) (lightning.InvoiceSubscriptionClient, error) {
	c.l.hook(c.name, "SubscribeInvoice")
	c.l.mu.Lock()
	defer c.l.mu.Unlock()
	inv := c.l.Invoices[paymentHash]
	if inv == nil {
		return nil, errors.New("invoice not found")
	}
	s := &Sub{l: c.l, hash: paymentHash, ctx: ctx, OwnerGID: dbwrap.GID()}
	inv.subs = append(inv.subs, s)
	// wake Recv when the context is cancelled (mint shutdown)
	go func() {
		<-ctx.Done()
		c.l.mu.Lock()
		c.l.subCond.Broadcast()
		c.l.mu.Unlock()
	}()
	return s, nil
}

// Recv blocks until the settled notification is delivered (Deliver) or the context is cancelled.
func (s *Sub) Recv() (lightning.Invoice, error) {
	g := dbwrap.GID()
	s.l.mu.Lock()
	defer s.l.mu.Unlock()
	s.RecvGID = g
	for {
		if s.ctx.Err() != nil {
			return lightning.Invoice{}, s.ctx.Err()
		}
		if s.delivered && !s.done {
			s.done = true
			inv := s.l.Invoices[s.hash]
			return lightning.Invoice{PaymentRequest: inv.Request, PaymentHash: inv.Hash, Preimage: inv.Preimage, Settled: true, Amount: inv.Amount, Expiry: lightning.InvoiceExpiryTime}, nil
		}
		s.blocked = true
		s.l.subCond.Wait()
		s.blocked = false
	}
}

// Saved is a deep copy of the ledger (without live subscriptions).
type Saved struct {
	inv   map[string]Invoice
	pay   map[string]Payment
	calls int
}

func (l *LN) Save() *Saved {
	l.mu.Lock()
	defer l.mu.Unlock()
	s := &Saved{inv: map[string]Invoice{}, pay: map[string]Payment{}, calls: len(l.Calls)}
	for k, v := range l.Invoices {
		c := *v
		s.inv[k] = c
	}
	for k, v := range l.Payments {
		s.pay[k] = *v
	}
	return s
}

// Restore puts the ledger back (subscriptions of restored invoices are kept as they are).
func (l *LN) Restore(s *Saved) {
	l.mu.Lock()
	defer l.mu.Unlock()
	for k := range l.Invoices {
		if _, ok := s.inv[k]; !ok {
			delete(l.Invoices, k)
		}
	}
	for k, v := range s.inv {
		if cur := l.Invoices[k]; cur != nil {
			subs := cur.subs
			*cur = v
			cur.subs = subs
		} else {
			c := v
			l.Invoices[k] = &c
		}
	}
	l.Payments = map[string]*Payment{}
	for k, v := range s.pay {
		c := v
		l.Payments[k] = &c
	}
	l.PayScript = map[string][]Answer{}
	l.StatusScript = map[string][]Answer{}
}

// PayCalls counts payment attempts recorded so far.
func (l *LN) PayCalls() int {
	l.mu.Lock()
	defer l.mu.Unlock()
	n := 0
	for _, c := range l.Calls {
		if c.Method == "SendPayment" || c.Method == "PayPartialAmount" {
			n++
		}
	}
	return n
}

// gid returns the current goroutine's id.
func gid() int64 {
	var buf [64]byte
	n := runtime.Stack(buf[:], false)
	f := strings.Fields(string(buf[:n]))
	if len(f) < 2 {
		return 0
	}
	id, _ := strconv.ParseInt(f[1], 10, 64)
	return id
}
