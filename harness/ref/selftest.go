package ref

import (
	"bytes"
	"encoding/hex"
	"fmt"
	"math/big"
	"sync"
)

// Pinned vectors (values copied from /repo's tests; see the comment on each group).

// SpecMnemonic / SpecKeysetID / NUT13Spec*: /repo/cashu/nuts/nut13/nut13_test.go (the NUT-13 test vector).
const (
	SpecMnemonic = "half depart obvious quality work element tank gorilla view sugar picture humble"
	SpecKeysetID = "009a1f293253e41e"
)

var NUT13SpecSecrets = []string{
	"485875df74771877439ac06339e284c3acfcd9be7abf3bc20b516faeadfe77ae",
	"8f2b39e8e594a4056eb1e6dbb4b0c38ef13b1b2c751f64f810ec04ee35b77270",
	"bc628c79accd2364fd31511216a0fab62afd4a18ff77a20deded7b858c9860c8",
	"59284fd1650ea9fa17db2b3acf59ecd0f2d52ec3261dd4152785813ff27a33bf",
	"576c23393a8b31cc8da6688d9c9a96394ec74b40fdaf1f693a6bb84284334ea0",
}

var NUT13SpecRs = []string{
	"ad00d431add9c673e843d4c2bf9a778a5f402b985b8da2d5550bf39cda41d679",
	"967d5232515e10b81ff226ecf5a9e2e2aff92d66ebc3edf0987eb56357fd6248",
	"b20f47bb6ae083659f3aa986bfa0435c55c6d93f687d51a01f26862d9b9a4899",
	"fb5fca398eb0b1deb955a2988b5ac77d32956155f1c002a373535211a2dfdc29",
	"5f09bfbfe27c439a597719321e061e2e40aad4a36768bb2bcc3de547c9644bf9",
}

// H2CVectors: /repo/crypto/bdhke_test.go TestHashToCurve (message given as hex); the third one is the
// remaining vector of NUT-00's own test-vector list (the one that needs several counter iterations).
var H2CVectors = []struct{ MsgHex, Point string }{
	{"0000000000000000000000000000000000000000000000000000000000000000", "024cce997d3b518f739663b757deaec95bcd9473c30a14ac2fd04023a739d1a725"},
	{"0000000000000000000000000000000000000000000000000000000000000001", "022e7158e11c9506f1aa4248bf531298daa7febd6194f003edcd9b93ade6253acf"},
	{"0000000000000000000000000000000000000000000000000000000000000002", "026cdbe15362df59cd1dd3c9c11de8aedac2106eca69236ecd9fbe117af897be4f"},
}

func mustHex(s string) []byte {
	b, err := hex.DecodeString(s)
	if err != nil {
		panic(err)
	}
	return b
}

func mustPoint(s string) (Point, error) {
	p, err := ParseCompressed(mustHex(s))
	if err != nil {
		return p, fmt.Errorf("parse %s: %v", s, err)
	}
	if got := hex.EncodeToString(p.SerializeCompressed()); got != s {
		return p, fmt.Errorf("compressed round trip of %s gave %s", s, got)
	}
	return p, nil
}

var (
	selfTestOnce sync.Once
	selfTestErr  error
)

// SelfTest validates this package against the vectors pinned in /repo's tests (hash-to-curve, BDHKE,
// hash_e, DLEQ, keyset ids, NUT-13) and against the first BIP32 test vector, plus internal consistency
// of the two scalar-multiplication routines. A failure is a harness bug, never a finding.
// The result is computed once per process.
func SelfTest() error {
	selfTestOnce.Do(func() { selfTestErr = selfTest() })
	return selfTestErr
}

func selfTest() error {
	// --- curve sanity
	if !G.IsOnCurve() {
		return fmt.Errorf("G not on curve")
	}
	if !ScalarBaseMult(N).Inf || !ScalarBaseMult(big.NewInt(0)).Inf {
		return fmt.Errorf("n*G or 0*G is not infinity")
	}
	if !ScalarBaseMult(new(big.Int).Sub(N, big.NewInt(1))).Equal(G.Neg()) {
		return fmt.Errorf("(n-1)*G != -G")
	}
	if !G.Add(G).Equal(G.Double()) || !G.Add(G.Neg()).Inf {
		return fmt.Errorf("affine add/double/neg inconsistent")
	}
	// 2G, well known
	if got := hex.EncodeToString(G.Double().SerializeCompressed()); got != "02c6047f9441ed7d6d3045406e95c07cd85c778e4b8cef3ca7abac09b95c709ee5" {
		return fmt.Errorf("2G = %s", got)
	}
	for _, ks := range []string{"1", "2", "3", "f", "10", "ff", "deadbeefdeadbeefdeadbeefdeadbeefdeadbeefdeadbeefdeadbeefdeadbeef",
		"0123456789abcdef0123456789abcdef0123456789abcdef0123456789abcdef", "fedcba9876543210fedcba9876543210fedcba9876543210fedcba9876543210",
		"8000000000000000000000000000000000000000000000000000000000000000",
		"fffffffffffffffffffffffffffffffebaaedce6af48a03bbfd25e8cd036413f"} {
		k := hexInt(ks)
		a, b := G.ScalarMult(k), G.scalarMultAffine(k)
		if !a.Equal(b) || !a.IsOnCurve() {
			return fmt.Errorf("jacobian and affine scalar multiplication disagree for k=%s", ks)
		}
		if !ScalarBaseMult(k).Equal(b) {
			return fmt.Errorf("fixed-base table and affine scalar multiplication disagree for k=%s", ks)
		}
		q := a.ScalarMult(hexInt("0123456789abcdef0123456789abcdef0123456789abcdef0123456789abcdef"))
		if !q.Equal(a.scalarMultAffine(hexInt("0123456789abcdef0123456789abcdef0123456789abcdef0123456789abcdef"))) {
			return fmt.Errorf("jacobian and affine scalar multiplication disagree on a non-generator base, k=%s", ks)
		}
		// (k*G) uncompressed round trip
		u, err := ParseUncompressed(a.SerializeUncompressed())
		if err != nil || !u.Equal(a) {
			return fmt.Errorf("uncompressed round trip failed for k=%s", ks)
		}
	}
	// x >= p and non-residue rejection
	if _, err := LiftX(new(big.Int).Set(P), false); err == nil {
		return fmt.Errorf("LiftX accepted x = p")
	}
	if _, err := LiftX(big.NewInt(5), false); err == nil { // 5^3+7 = 132 is a non-residue mod p (no point with x = 5)
		return fmt.Errorf("LiftX accepted x = 5")
	}
	if p1, err := LiftX(big.NewInt(1), true); err != nil || !p1.IsOnCurve() || p1.Y.Bit(0) != 1 {
		return fmt.Errorf("LiftX(1, odd) failed")
	}

	// --- hash_to_curve (/repo/crypto/bdhke_test.go TestHashToCurve)
	for _, v := range H2CVectors {
		p, _, err := HashToCurve(mustHex(v.MsgHex))
		if err != nil {
			return fmt.Errorf("hash_to_curve(%s): %v", v.MsgHex, err)
		}
		if got := hex.EncodeToString(p.SerializeCompressed()); got != v.Point {
			return fmt.Errorf("hash_to_curve(%s) = %s, pinned %s", v.MsgHex, got, v.Point)
		}
	}

	// --- BDHKE (/repo/crypto/bdhke_test.go TestBlindMessage, TestSignBlindedMessage, TestUnblindSignature, TestVerify)
	one := big.NewInt(1)
	B_, err := Blind([]byte("test_message"), one)
	if err != nil {
		return err
	}
	if got := hex.EncodeToString(B_.SerializeCompressed()); got != "025cc16fe33b953e2ace39653efb3e7a7049711ae1d8a2f7a9108753f1cdea742b" {
		return fmt.Errorf("Blind(test_message, 1) = %s", got)
	}
	if got := hex.EncodeToString(Sign(B_, one).SerializeCompressed()); got != "025cc16fe33b953e2ace39653efb3e7a7049711ae1d8a2f7a9108753f1cdea742b" {
		return fmt.Errorf("Sign(B_, 1) = %s", got)
	}
	for _, v := range []struct{ c_, k, r, want string }{
		{"02a9acc1e48c25eeeb9289b5031cc57da9fe72f3fe2861d264bdc074209b107ba2", "020000000000000000000000000000000000000000000000000000000000000001",
			"0000000000000000000000000000000000000000000000000000000000000001", "03c724d7e6a5443b39ac8acf11f40420adc4f99a02e7cc1b57703d9391f6d129cd"},
		{"025cc16fe33b953e2ace39653efb3e7a7049711ae1d8a2f7a9108753f1cdea742b", "020000000000000000000000000000000000000000000000000000000000000001",
			"0000000000000000000000000000000000000000000000000000000000000001", "0271bf0d702dbad86cbe0af3ab2bfba70a0338f22728e412d88a830ed0580b9de4"},
	} {
		c_, err := mustPoint(v.c_)
		if err != nil {
			return err
		}
		K, err := mustPoint(v.k)
		if err != nil {
			return err
		}
		if got := hex.EncodeToString(Unblind(c_, hexInt(v.r), K).SerializeCompressed()); got != v.want {
			return fmt.Errorf("Unblind(%s) = %s, pinned %s", v.c_, got, v.want)
		}
	}
	{
		r := big.NewInt(2)
		b, _ := Blind([]byte("test_message"), r)
		c := Unblind(Sign(b, one), r, ScalarBaseMult(one))
		if !Verify([]byte("test_message"), one, c) || Verify([]byte("test_messagf"), one, c) || Verify([]byte("test_message"), r, c) {
			return fmt.Errorf("Verify vector (TestVerify) failed")
		}
	}

	// --- hash_e (/repo/crypto/bdhke_test.go TestHashE)
	{
		p1, err := mustPoint("020000000000000000000000000000000000000000000000000000000000000001")
		if err != nil {
			return err
		}
		c_, err := mustPoint("02a9acc1e48c25eeeb9289b5031cc57da9fe72f3fe2861d264bdc074209b107ba2")
		if err != nil {
			return err
		}
		h, err := HashE(p1, p1, p1, c_)
		if err != nil {
			return err
		}
		if got := hex.EncodeToString(h[:]); got != "a4dc034b74338c28c6bc3ea49731f2a24440fc7c4affc08b31a93fc9fbe6401e" {
			return fmt.Errorf("hash_e = %s", got)
		}
	}

	// --- DLEQ (/repo/crypto/bdhke_test.go TestVerifyDLEQ, /repo/cashu/nuts/nut12/nut12_test.go)
	{
		e := hexInt("9818e061ee51d5c8edc3342369a554998ff7b4381c8652d724cdf46429be73d9")
		s := hexInt("9818e061ee51d5c8edc3342369a554998ff7b4381c8652d724cdf46429be73da")
		A, err := mustPoint("0279be667ef9dcbbac55a06295ce870b07029bfcdb2dce28d959f2815b16f81798")
		if err != nil {
			return err
		}
		bc, err := mustPoint("02a9acc1e48c25eeeb9289b5031cc57da9fe72f3fe2861d264bdc074209b107ba2")
		if err != nil {
			return err
		}
		if !VerifyDLEQ(e, s, A, bc, bc) {
			return fmt.Errorf("pinned blind-signature DLEQ vector rejected")
		}
		if VerifyDLEQ(new(big.Int).Add(e, one), s, A, bc, bc) || VerifyDLEQ(e, new(big.Int).Add(s, one), A, bc, bc) || VerifyDLEQ(e, s, A.Double(), bc, bc) {
			return fmt.Errorf("tampered DLEQ vector accepted")
		}
		if !VerifyDLEQ(e, new(big.Int).Add(s, N), A, bc, bc) {
			return fmt.Errorf("s and s+n must be the same scalar")
		}
		C, err := mustPoint("024369d2d22a80ecf78f3937da9d5f30c1b9f74f0c32684d583cca0fa6a61cdcfc")
		if err != nil {
			return err
		}
		pe := hexInt("b31e58ac6527f34975ffab13e70a48b6d2b0d35abc4b03f0151f09ee1a9763d4")
		ps := hexInt("8fbae004c59e754d71df67e392b6ae4e29293113ddc2ec86592a0431d16306d8")
		pr := hexInt("a6d13fcd7a18442e6076f5e1e7c887ad5de40a019824bdfa9fe740d302e8d861")
		sec := []byte("daf4dd00a2b68a0858a80450f52c8a7d2ccf87d375e43e216e0c571f089f63e9")
		if !VerifyProofDLEQ(sec, pr, pe, ps, A, C) {
			return fmt.Errorf("pinned proof DLEQ vector rejected")
		}
		if VerifyProofDLEQ(sec, new(big.Int).Add(pr, one), pe, ps, A, C) || VerifyProofDLEQ(sec[1:], pr, pe, ps, A, C) {
			return fmt.Errorf("tampered proof DLEQ vector accepted")
		}
	}

	// --- DLEQ generation and verification are consistent with each other
	{
		k, nonce, r := hexInt("0123456789abcdef0123456789abcdef0123456789abcdef0123456789abcdef"), hexInt("77"), hexInt("1d")
		b_, err := Blind([]byte("selftest"), r)
		if err != nil {
			return err
		}
		c_ := Sign(b_, k)
		e, s, err := GenerateDLEQ(k, nonce, b_, c_)
		if err != nil {
			return err
		}
		K := ScalarBaseMult(k)
		if !VerifyDLEQ(e, s, K, b_, c_) || !VerifyProofDLEQ([]byte("selftest"), r, e, s, K, Unblind(c_, r, K)) {
			return fmt.Errorf("GenerateDLEQ output rejected by VerifyDLEQ / VerifyProofDLEQ")
		}
		if VerifyDLEQ(e, s, K, b_, c_.Add(G)) || VerifyDLEQ(e, s, K.Add(G), b_, c_) || VerifyDLEQ(e, s, K, b_.Neg(), c_) {
			return fmt.Errorf("VerifyDLEQ accepted a proof for other points")
		}
	}

	// --- keyset ids (/repo/crypto/keyset_test.go TestDeriveKeysetId)
	for i, v := range KeysetIDVectors {
		keys := map[uint64][]byte{}
		for a, k := range v.Keys {
			if _, err := mustPoint(k); err != nil {
				return fmt.Errorf("keyset vector %d: %v", i, err)
			}
			keys[a] = mustHex(k)
		}
		if got := KeysetID(keys); got != v.ID {
			return fmt.Errorf("keyset id vector %d: got %s, pinned %s", i, got, v.ID)
		}
	}

	// --- BIP32 test vector 1 (BIP-0032): seed 000102030405060708090a0b0c0d0e0f
	{
		seed := mustHex("000102030405060708090a0b0c0d0e0f")
		k, c, err := MasterKey(seed)
		if err != nil {
			return err
		}
		if hex.EncodeToString(Bytes32(k)) != "e8f32e723decf4051aefac8e2c93c9c5b214313817cdb01a1494b917c8436b35" ||
			hex.EncodeToString(c) != "873dff81c02f525623fd1fe5167eac3a55a049de3d314bb42ee227ffed37d508" {
			return fmt.Errorf("BIP32 TV1 master key mismatch: %x %x", Bytes32(k), c)
		}
		k1, _, err := DerivePath(seed, []uint32{Hardened + 0})
		if err != nil {
			return err
		}
		if hex.EncodeToString(Bytes32(k1)) != "edb2e14f9ee77d26dd93b4ecede8d16ed408ce149b6cd80b0715a2d911a0afea" {
			return fmt.Errorf("BIP32 TV1 m/0' mismatch: %x", Bytes32(k1))
		}
		k2, _, err := DerivePath(seed, []uint32{Hardened + 0, 1})
		if err != nil {
			return err
		}
		if hex.EncodeToString(Bytes32(k2)) != "3c6cb8d0f6a264c91ea8b5030fadaa8e538b020f0a387421a12de9319dc93368" {
			return fmt.Errorf("BIP32 TV1 m/0'/1 mismatch: %x", Bytes32(k2))
		}
	}

	// --- NUT-13 (/repo/cashu/nuts/nut13/nut13_test.go): exercises PBKDF2, master key, hardened and normal children
	{
		seed := MnemonicToSeed(SpecMnemonic, "")
		if len(seed) != 64 {
			return fmt.Errorf("BIP39 seed length %d", len(seed))
		}
		kid, err := KeysetIDInt(SpecKeysetID)
		if err != nil {
			return err
		}
		if kid != 864559728 { // stated in NUT-13: keyset id 009a1f293253e41e -> 864559728
			return fmt.Errorf("keyset_id_int(%s) = %d", SpecKeysetID, kid)
		}
		for i := range NUT13SpecSecrets {
			s, err := NUT13Secret(seed, SpecKeysetID, uint32(i))
			if err != nil {
				return err
			}
			r, err := NUT13R(seed, SpecKeysetID, uint32(i))
			if err != nil {
				return err
			}
			if s != NUT13SpecSecrets[i] || hex.EncodeToString(Bytes32(r)) != NUT13SpecRs[i] {
				return fmt.Errorf("NUT-13 vector %d: secret %s r %x", i, s, Bytes32(r))
			}
			s2, r2, err := NUT13Pair(seed, SpecKeysetID, uint32(i))
			if err != nil || s2 != s || r2.Cmp(r) != 0 {
				return fmt.Errorf("NUT13Pair disagrees with NUT13Secret/NUT13R at counter %d", i)
			}
		}
	}

	// --- mint keyset helpers agree with the generic path derivation
	{
		seed := bytes.Repeat([]byte{0x42}, 32)
		pubs := MintKeysetPubs(seed, 3)
		if len(pubs) != MintMaxOrder {
			return fmt.Errorf("MintKeysetPubs returned %d keys", len(pubs))
		}
		for _, i := range []uint32{0, 1, 59} {
			k, _, err := DerivePath(seed, []uint32{Hardened, Hardened, Hardened + 3, Hardened + i})
			if err != nil {
				return err
			}
			if k.Cmp(MintKeysetPriv(seed, 3, i)) != 0 || !bytes.Equal(ScalarBaseMult(k).SerializeCompressed(), pubs[uint64(1)<<i]) {
				return fmt.Errorf("mint keyset helper mismatch at i=%d", i)
			}
		}
	}
	return nil
}
