package ref

import (
	"crypto/hmac"
	"crypto/sha512"
	"encoding/binary"
	"errors"
	"math/big"
)

// Hardened is the offset of hardened child indices (bit 31).
const Hardened uint32 = 1 << 31

func hmacSHA512(key, data []byte) []byte {
	m := hmac.New(sha512.New, key)
	m.Write(data)
	return m.Sum(nil)
}

// MasterKey is BIP32 "master key generation": I = HMAC-SHA512(key = "Bitcoin seed", data = seed),
// master secret key = parse256(I_L), master chain code = I_R. Invalid if I_L = 0 or I_L >= n.
func MasterKey(seed []byte) (*big.Int, []byte, error) {
	i := hmacSHA512([]byte("Bitcoin seed"), seed)
	k := new(big.Int).SetBytes(i[:32])
	if k.Sign() == 0 || k.Cmp(N) >= 0 {
		return nil, nil, errors.New("ref: seed yields an invalid master key")
	}
	return k, append([]byte(nil), i[32:]...), nil
}

// CKDpriv is BIP32's private parent key -> private child key function.
//
//	hardened (i >= 2^31): I = HMAC-SHA512(c_par, 0x00 || ser256(k_par) || ser32(i))
//	normal:               I = HMAC-SHA512(c_par, serP(point(k_par)) || ser32(i))
//	k_i = parse256(I_L) + k_par (mod n), c_i = I_R; invalid if parse256(I_L) >= n or k_i = 0.
func CKDpriv(kpar *big.Int, cpar []byte, i uint32) (*big.Int, []byte, error) {
	var data []byte
	if i >= Hardened {
		data = append(data, 0x00)
		data = append(data, Bytes32(kpar)...)
	} else {
		data = append(data, ScalarBaseMult(kpar).SerializeCompressed()...)
	}
	var idx [4]byte
	binary.BigEndian.PutUint32(idx[:], i)
	data = append(data, idx[:]...)
	return ckdFinish(kpar, cpar, data)
}

// ckdFinish is the common tail of CKDpriv once the HMAC input has been assembled.
func ckdFinish(kpar *big.Int, cpar []byte, data []byte) (*big.Int, []byte, error) {
	I := hmacSHA512(cpar, data)
	il := new(big.Int).SetBytes(I[:32])
	if il.Cmp(N) >= 0 {
		return nil, nil, errors.New("ref: invalid child (I_L >= n)")
	}
	k := il.Add(il, kpar)
	k.Mod(k, N)
	if k.Sign() == 0 {
		return nil, nil, errors.New("ref: invalid child (key is zero)")
	}
	return k, append([]byte(nil), I[32:]...), nil
}

// DerivePath derives the private key and chain code at the given path below the master key of seed.
// Hardened indices have bit 31 set.
func DerivePath(seed []byte, path []uint32) (*big.Int, []byte, error) {
	k, c, err := MasterKey(seed)
	if err != nil {
		return nil, nil, err
	}
	for _, i := range path {
		k, c, err = CKDpriv(k, c, i)
		if err != nil {
			return nil, nil, err
		}
	}
	return k, c, nil
}

// PBKDF2SHA512 is PBKDF2 (RFC 8018, section 5.2) with HMAC-SHA512 as the PRF, written out by hand.
func PBKDF2SHA512(password, salt []byte, iter, keyLen int) []byte {
	const hLen = 64
	var out []byte
	for block := uint32(1); len(out) < keyLen; block++ {
		var be [4]byte
		binary.BigEndian.PutUint32(be[:], block)
		u := hmacSHA512(password, append(append([]byte(nil), salt...), be[:]...))
		t := append([]byte(nil), u...)
		for n := 2; n <= iter; n++ {
			u = hmacSHA512(password, u)
			for j := 0; j < hLen; j++ {
				t[j] ^= u[j]
			}
		}
		out = append(out, t...)
	}
	return out[:keyLen]
}

// MnemonicToSeed is BIP39 "from mnemonic to seed": PBKDF2-HMAC-SHA512(password = mnemonic sentence,
// salt = "mnemonic" || passphrase, 2048 iterations, 64 bytes). The NFKD normalisation BIP39 asks for is
// the identity on ASCII; this function must only be given ASCII input (the English word list is ASCII).
func MnemonicToSeed(mnemonic, passphrase string) []byte {
	return PBKDF2SHA512([]byte(mnemonic), []byte("mnemonic"+passphrase), 2048, 64)
}
