package ref

import (
	"crypto/sha256"
	"encoding/binary"
	"encoding/hex"
	"errors"
	"math/big"
)

// DomainSeparator of NUT-00 hash_to_curve.
const DomainSeparator = "Secp256k1_HashToCurve_Cashu_"

// HashToCurve implements NUT-00:
//
//	msg_hash = SHA256(DOMAIN_SEPARATOR || msg)
//	for counter = 0 .. 2^16-1:  Y = PublicKey('02' || SHA256(msg_hash || counter as uint32 little endian))
//
// returning the first Y that is a valid point, together with the counter value that succeeded.
func HashToCurve(msg []byte) (Point, uint32, error) {
	h := sha256.New()
	h.Write([]byte(DomainSeparator))
	h.Write(msg)
	msgHash := h.Sum(nil)
	for counter := uint32(0); counter < 1<<16; counter++ {
		var le [4]byte
		binary.LittleEndian.PutUint32(le[:], counter)
		hh := sha256.New()
		hh.Write(msgHash)
		hh.Write(le[:])
		x := new(big.Int).SetBytes(hh.Sum(nil))
		pt, err := LiftX(x, false) // prefix 02: even y
		if err == nil {
			return pt, counter, nil
		}
	}
	return Point{}, 0, errors.New("ref: no valid point found after 2^16 iterations")
}

// Blind returns B_ = hash_to_curve(secret) + r*G.
func Blind(secret []byte, r *big.Int) (Point, error) {
	y, _, err := HashToCurve(secret)
	if err != nil {
		return Point{}, err
	}
	return y.Add(ScalarBaseMult(r)), nil
}

// Sign returns C_ = k*B_.
func Sign(B_ Point, k *big.Int) Point { return B_.ScalarMult(k) }

// Unblind returns C = C_ - r*K.
func Unblind(C_ Point, r *big.Int, K Point) Point { return C_.Sub(K.ScalarMult(r)) }

// Verify reports whether k*hash_to_curve(secret) == C.
func Verify(secret []byte, k *big.Int, C Point) bool {
	y, _, err := HashToCurve(secret)
	if err != nil {
		return false
	}
	return y.ScalarMult(k).Equal(C)
}

// HashE is NUT-12's hash_e: SHA256 over the concatenated lower-case ASCII hex texts of the
// 65-byte uncompressed serialisations of the given points.
func HashE(pts ...Point) ([32]byte, error) {
	var txt []byte
	for _, p := range pts {
		u := p.SerializeUncompressed()
		if u == nil {
			return [32]byte{}, errors.New("ref: hash_e of the point at infinity is undefined")
		}
		txt = append(txt, hex.EncodeToString(u)...)
	}
	return sha256.Sum256(txt), nil
}

// VerifyDLEQ is NUT-12's verification (Alice / Carol, after reblinding):
//
//	R1 = s*G - e*A ; R2 = s*B_ - e*C_ ; accept iff e == hash_e(R1, R2, A, C_)
//
// e and s are scalars (taken modulo N). A proof whose R1 or R2 is the point at infinity is rejected
// (hash_e is undefined there).
func VerifyDLEQ(e, s *big.Int, A, B_, C_ Point) bool {
	if A.Inf || B_.Inf || C_.Inf {
		return false
	}
	em := new(big.Int).Mod(e, N)
	sm := new(big.Int).Mod(s, N)
	r1 := ScalarBaseMult(sm).Sub(A.ScalarMult(em))
	r2 := B_.ScalarMult(sm).Sub(C_.ScalarMult(em))
	h, err := HashE(r1, r2, A, C_)
	if err != nil {
		return false
	}
	return new(big.Int).SetBytes(h[:]).Cmp(em) == 0
}

// VerifyProofDLEQ is Carol's check of NUT-12: reblind with r, then VerifyDLEQ:
//
//	Y = hash_to_curve(secret) ; C_ = C + r*A ; B_ = Y + r*G
func VerifyProofDLEQ(secret []byte, r, e, s *big.Int, A, C Point) bool {
	if A.Inf || C.Inf {
		return false
	}
	B_, err := Blind(secret, r)
	if err != nil {
		return false
	}
	C_ := C.Add(A.ScalarMult(r))
	return VerifyDLEQ(e, s, A, B_, C_)
}

// GenerateDLEQ is NUT-12's proof generation by the mint (Bob) with an explicit nonce:
//
//	R1 = nonce*G ; R2 = nonce*B_ ; e = hash_e(R1, R2, A = k*G, C_) ; s = nonce + e*k (mod n)
//
// It lets the harness make proofs deterministically (the repository's GenerateDLEQ draws its nonce from crypto/rand).
func GenerateDLEQ(k, nonce *big.Int, B_, C_ Point) (e, s *big.Int, err error) {
	r1 := ScalarBaseMult(nonce)
	r2 := B_.ScalarMult(nonce)
	h, err := HashE(r1, r2, ScalarBaseMult(k), C_)
	if err != nil {
		return nil, nil, err
	}
	e = new(big.Int).SetBytes(h[:])
	s = new(big.Int).Mul(e, k)
	s.Add(s, nonce)
	s.Mod(s, N)
	return e, s, nil
}
