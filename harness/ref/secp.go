// Package ref is the harness's INDEPENDENT reference implementation of the
// cryptographic functions the Cashu NUTs define (NUT-00 hash_to_curve and BDHKE,
// NUT-02 keyset ids, NUT-12 DLEQ, NUT-13 deterministic secrets) and of BIP32/BIP39.
//
// It is written from the specifications only, with math/big and the standard
// library's SHA-256 / SHA-512 / HMAC. It shares no code with /repo's crypto/,
// cashu/nuts/nut13, btcec, dcrd secp256k1, hdkeychain or go-bip39, so that a
// disagreement between it and the repository is evidence about the repository
// (after SelfTest has validated this package against the pinned vectors).
//
// Nothing here is constant time or otherwise fit for production use.
package ref

import (
	"errors"
	"math/big"
	"sync"
)

// secp256k1 domain parameters (SEC 2, section 2.4.1): y^2 = x^3 + 7 over F_p.
var (
	// P is the field prime 2^256 - 2^32 - 977.
	P = hexInt("FFFFFFFFFFFFFFFFFFFFFFFFFFFFFFFFFFFFFFFFFFFFFFFFFFFFFFFEFFFFFC2F")
	// N is the order of the generator.
	N = hexInt("FFFFFFFFFFFFFFFFFFFFFFFFFFFFFFFEBAAEDCE6AF48A03BBFD25E8CD0364141")
	// G is the generator.
	G = Point{
		X: hexInt("79BE667EF9DCBBAC55A06295CE870B07029BFCDB2DCE28D959F2815B16F81798"),
		Y: hexInt("483ADA7726A3C4655DA4FBFC0E1108A8FD17B448A68554199C47D08FFB10D4B8"),
	}

	curveB  = big.NewInt(7)
	sqrtExp = new(big.Int).Rsh(new(big.Int).Add(P, big.NewInt(1)), 2) // (p+1)/4, valid because p = 3 mod 4
	two     = big.NewInt(2)
	three   = big.NewInt(3)
)

func hexInt(s string) *big.Int {
	v, ok := new(big.Int).SetString(s, 16)
	if !ok {
		panic("ref: bad hex constant " + s)
	}
	return v
}

// Point is an affine point of secp256k1 or the point at infinity (Inf).
// Points are immutable values: no method modifies X or Y of its receiver or arguments.
type Point struct {
	X, Y *big.Int
	Inf  bool
}

// Infinity is the neutral element.
func Infinity() Point { return Point{Inf: true} }

func modP(v *big.Int) *big.Int { return v.Mod(v, P) }

// IsOnCurve reports whether p is the point at infinity or satisfies the curve equation with reduced coordinates.
func (p Point) IsOnCurve() bool {
	if p.Inf {
		return true
	}
	if p.X == nil || p.Y == nil || p.X.Sign() < 0 || p.Y.Sign() < 0 || p.X.Cmp(P) >= 0 || p.Y.Cmp(P) >= 0 {
		return false
	}
	l := new(big.Int).Mul(p.Y, p.Y)
	modP(l)
	r := new(big.Int).Mul(p.X, p.X)
	r.Mul(r, p.X)
	r.Add(r, curveB)
	modP(r)
	return l.Cmp(r) == 0
}

// Equal compares two points as group elements.
func (p Point) Equal(q Point) bool {
	if p.Inf || q.Inf {
		return p.Inf && q.Inf
	}
	return p.X.Cmp(q.X) == 0 && p.Y.Cmp(q.Y) == 0
}

// Neg returns -p.
func (p Point) Neg() Point {
	if p.Inf {
		return p
	}
	if p.Y.Sign() == 0 {
		return p
	}
	return Point{X: new(big.Int).Set(p.X), Y: new(big.Int).Sub(P, p.Y)}
}

// Double returns 2p (affine chord-and-tangent formulas).
func (p Point) Double() Point {
	if p.Inf || p.Y.Sign() == 0 {
		return Infinity()
	}
	// lambda = 3x^2 / 2y
	num := new(big.Int).Mul(p.X, p.X)
	num.Mul(num, three)
	den := new(big.Int).Mul(p.Y, two)
	den.ModInverse(modP(den), P)
	lam := num.Mul(num, den)
	modP(lam)
	x3 := new(big.Int).Mul(lam, lam)
	x3.Sub(x3, p.X)
	x3.Sub(x3, p.X)
	modP(x3)
	y3 := new(big.Int).Sub(p.X, x3)
	y3.Mul(y3, lam)
	y3.Sub(y3, p.Y)
	modP(y3)
	return Point{X: x3, Y: y3}
}

// Add returns p+q (affine chord-and-tangent formulas).
func (p Point) Add(q Point) Point {
	if p.Inf {
		return q
	}
	if q.Inf {
		return p
	}
	if p.X.Cmp(q.X) == 0 {
		if p.Y.Cmp(q.Y) == 0 {
			return p.Double()
		}
		return Infinity() // q = -p
	}
	// lambda = (y2-y1)/(x2-x1)
	num := new(big.Int).Sub(q.Y, p.Y)
	den := new(big.Int).Sub(q.X, p.X)
	den.ModInverse(modP(den), P)
	lam := num.Mul(num, den)
	modP(lam)
	x3 := new(big.Int).Mul(lam, lam)
	x3.Sub(x3, p.X)
	x3.Sub(x3, q.X)
	modP(x3)
	y3 := new(big.Int).Sub(p.X, x3)
	y3.Mul(y3, lam)
	y3.Sub(y3, p.Y)
	modP(y3)
	return Point{X: x3, Y: y3}
}

// Sub returns p-q.
func (p Point) Sub(q Point) Point { return p.Add(q.Neg()) }

// ---- Jacobian coordinates (x = X/Z^2, y = Y/Z^3), used only inside ScalarMult / ScalarBaseMult for speed.
// The arithmetic works in place on preallocated big.Ints (math/big allocates heavily otherwise).
// SelfTest cross-checks both routines against the plain affine double-and-add of scalarMultAffine.

type jac struct{ x, y, z big.Int } // z == 0: infinity

// jctx holds the scratch registers of one scalar multiplication (not safe for concurrent use).
type jctx struct {
	t, q, r                big.Int // product, quotient, remainder scratch of mulmod/norm
	a, b, c, d, e, f, g, h big.Int
}

// mulmod sets dst = x*y mod p (dst may alias x or y).
func (c *jctx) mulmod(dst, x, y *big.Int) {
	c.t.Mul(x, y)
	c.q.QuoRem(&c.t, P, dst)
	if dst.Sign() < 0 {
		dst.Add(dst, P)
	}
}

// norm reduces v into [0, p).
func (c *jctx) norm(v *big.Int) {
	if v.Sign() < 0 || v.Cmp(P) >= 0 {
		c.q.QuoRem(v, P, &c.r)
		if c.r.Sign() < 0 {
			c.r.Add(&c.r, P)
		}
		v.Set(&c.r)
	}
}

func (p *jac) setInf() { p.x.SetInt64(1); p.y.SetInt64(1); p.z.SetInt64(0) }

func (p *jac) setAffine(q Point) {
	if q.Inf {
		p.setInf()
		return
	}
	p.x.Set(q.X)
	p.y.Set(q.Y)
	p.z.SetInt64(1)
}

func (p *jac) set(q *jac) { p.x.Set(&q.x); p.y.Set(&q.y); p.z.Set(&q.z) }

func (p *jac) toAffine() Point {
	if p.z.Sign() == 0 {
		return Infinity()
	}
	zi := new(big.Int).ModInverse(&p.z, P)
	zi2 := new(big.Int).Mul(zi, zi)
	modP(zi2)
	x := new(big.Int).Mul(&p.x, zi2)
	modP(x)
	zi3 := zi2.Mul(zi2, zi)
	modP(zi3)
	y := new(big.Int).Mul(&p.y, zi3)
	modP(y)
	return Point{X: x, Y: y}
}

// double sets p = 2p (formulas "dbl-2009-l" for a = 0):
//
//	A = X^2, B = Y^2, C = B^2, D = 2((X+B)^2 - A - C), E = 3A, F = E^2,
//	X3 = F - 2D, Y3 = E(D - X3) - 8C, Z3 = 2YZ
func (c *jctx) double(p *jac) {
	if p.z.Sign() == 0 {
		return
	}
	if p.y.Sign() == 0 {
		p.setInf()
		return
	}
	c.mulmod(&c.a, &p.x, &p.x)
	c.mulmod(&c.b, &p.y, &p.y)
	c.mulmod(&c.c, &c.b, &c.b)
	c.d.Add(&p.x, &c.b)
	c.mulmod(&c.d, &c.d, &c.d)
	c.d.Sub(&c.d, &c.a)
	c.d.Sub(&c.d, &c.c)
	c.d.Lsh(&c.d, 1)
	c.norm(&c.d)
	c.e.Lsh(&c.a, 1)
	c.e.Add(&c.e, &c.a)
	c.norm(&c.e)
	c.mulmod(&c.f, &c.e, &c.e)
	// Z3 needs the old Y and Z
	c.mulmod(&p.z, &p.y, &p.z)
	p.z.Lsh(&p.z, 1)
	c.norm(&p.z)
	p.x.Sub(&c.f, &c.d)
	p.x.Sub(&p.x, &c.d)
	c.norm(&p.x)
	c.g.Sub(&c.d, &p.x)
	c.mulmod(&p.y, &c.e, &c.g)
	c.c.Lsh(&c.c, 3)
	p.y.Sub(&p.y, &c.c)
	c.norm(&p.y)
}

// add sets p = p + q (general Jacobian addition):
//
//	U1 = X1 Z2^2, U2 = X2 Z1^2, S1 = Y1 Z2^3, S2 = Y2 Z1^3, H = U2 - U1, R = S2 - S1,
//	X3 = R^2 - H^3 - 2 U1 H^2, Y3 = R (U1 H^2 - X3) - S1 H^3, Z3 = H Z1 Z2
func (c *jctx) add(p, q *jac) {
	if q.z.Sign() == 0 {
		return
	}
	if p.z.Sign() == 0 {
		p.set(q)
		return
	}
	c.mulmod(&c.a, &p.z, &p.z) // Z1^2
	c.mulmod(&c.b, &q.z, &q.z) // Z2^2
	c.mulmod(&c.c, &p.x, &c.b) // U1
	c.mulmod(&c.d, &q.x, &c.a) // U2
	c.mulmod(&c.e, &p.y, &q.z)
	c.mulmod(&c.e, &c.e, &c.b) // S1
	c.mulmod(&c.f, &q.y, &p.z)
	c.mulmod(&c.f, &c.f, &c.a) // S2
	c.d.Sub(&c.d, &c.c)        // H
	c.norm(&c.d)
	c.f.Sub(&c.f, &c.e) // R
	c.norm(&c.f)
	if c.d.Sign() == 0 {
		if c.f.Sign() == 0 {
			c.double(p)
			return
		}
		p.setInf()
		return
	}
	c.mulmod(&c.a, &c.d, &c.d) // H^2
	c.mulmod(&c.b, &c.a, &c.d) // H^3
	c.mulmod(&c.c, &c.c, &c.a) // U1 H^2
	// Z3 = H Z1 Z2
	c.mulmod(&p.z, &p.z, &q.z)
	c.mulmod(&p.z, &p.z, &c.d)
	// X3
	c.mulmod(&p.x, &c.f, &c.f)
	p.x.Sub(&p.x, &c.b)
	p.x.Sub(&p.x, &c.c)
	p.x.Sub(&p.x, &c.c)
	c.norm(&p.x)
	// Y3
	c.g.Sub(&c.c, &p.x)
	c.mulmod(&c.g, &c.g, &c.f)
	c.mulmod(&c.h, &c.e, &c.b)
	p.y.Sub(&c.g, &c.h)
	c.norm(&p.y)
}

// ScalarMult returns k*p; k is reduced modulo N first (so k and k+N give the same result, and k = 0 gives infinity).
func (p Point) ScalarMult(k *big.Int) Point {
	kk := new(big.Int).Mod(k, N)
	if p.Inf || kk.Sign() == 0 {
		return Infinity()
	}
	var c jctx
	var base, acc jac
	base.setAffine(p)
	acc.setInf()
	for i := kk.BitLen() - 1; i >= 0; i-- {
		c.double(&acc)
		if kk.Bit(i) == 1 {
			c.add(&acc, &base)
		}
	}
	return acc.toAffine()
}

// scalarMultAffine is the plain affine double-and-add (slow); only used by SelfTest as a cross-check.
func (p Point) scalarMultAffine(k *big.Int) Point {
	kk := new(big.Int).Mod(k, N)
	acc := Infinity()
	for i := kk.BitLen() - 1; i >= 0; i-- {
		acc = acc.Double()
		if kk.Bit(i) == 1 {
			acc = acc.Add(p)
		}
	}
	return acc
}

// Fixed-base table for G: gTable[i][j-1] = j * 16^i * G (i = 0..63, j = 1..15), built once with the affine
// formulas. ScalarBaseMult(k) is then the sum of the 64 table entries selected by the nibbles of k.
var (
	gTableOnce sync.Once
	gTable     [64][15]jac
)

func buildGTable() {
	base := G
	for i := 0; i < 64; i++ {
		cur := base
		for j := 0; j < 15; j++ {
			gTable[i][j].setAffine(cur)
			cur = cur.Add(base)
		}
		base = cur // 16 * previous base
	}
}

// ScalarBaseMult returns k*G (k reduced modulo N).
func ScalarBaseMult(k *big.Int) Point {
	kk := new(big.Int).Mod(k, N)
	if kk.Sign() == 0 {
		return Infinity()
	}
	gTableOnce.Do(buildGTable)
	var c jctx
	var acc jac
	acc.setInf()
	for i := 0; i < 64; i++ {
		nib := kk.Bit(4*i) | kk.Bit(4*i+1)<<1 | kk.Bit(4*i+2)<<2 | kk.Bit(4*i+3)<<3
		if nib != 0 {
			c.add(&acc, &gTable[i][nib-1])
		}
	}
	return acc.toAffine()
}

// LiftX returns the curve point with the given x coordinate and the requested parity of y.
// It fails if x >= p or x^3+7 is not a quadratic residue.
func LiftX(x *big.Int, odd bool) (Point, error) {
	if x.Sign() < 0 || x.Cmp(P) >= 0 {
		return Point{}, errors.New("ref: x coordinate not a field element (x >= p)")
	}
	rhs := new(big.Int).Mul(x, x)
	rhs.Mul(rhs, x)
	rhs.Add(rhs, curveB)
	modP(rhs)
	y := new(big.Int).Exp(rhs, sqrtExp, P)
	chk := new(big.Int).Mul(y, y)
	modP(chk)
	if chk.Cmp(rhs) != 0 {
		return Point{}, errors.New("ref: x^3+7 is not a quadratic residue (no point with this x)")
	}
	if (y.Bit(0) == 1) != odd {
		y.Sub(P, y)
		// y == 0 cannot happen on secp256k1 (x^3 = -7 has no root giving a point of order 2), but keep it reduced.
		modP(y)
	}
	return Point{X: new(big.Int).Set(x), Y: y}, nil
}

// ParseCompressed parses a 33-byte SEC1 compressed point (prefix 02 = even y, 03 = odd y).
func ParseCompressed(b []byte) (Point, error) {
	if len(b) != 33 {
		return Point{}, errors.New("ref: compressed point must be 33 bytes")
	}
	if b[0] != 0x02 && b[0] != 0x03 {
		return Point{}, errors.New("ref: compressed point prefix must be 02 or 03")
	}
	return LiftX(new(big.Int).SetBytes(b[1:]), b[0] == 0x03)
}

// ParseUncompressed parses 04||X||Y (65 bytes) and checks the curve equation.
func ParseUncompressed(b []byte) (Point, error) {
	if len(b) != 65 || b[0] != 0x04 {
		return Point{}, errors.New("ref: uncompressed point must be 65 bytes with prefix 04")
	}
	p := Point{X: new(big.Int).SetBytes(b[1:33]), Y: new(big.Int).SetBytes(b[33:])}
	if !p.IsOnCurve() {
		return Point{}, errors.New("ref: point not on curve")
	}
	return p, nil
}

// Bytes32 is ser256: the 32-byte big-endian encoding of v (v must be in [0, 2^256)).
func Bytes32(v *big.Int) []byte {
	out := make([]byte, 32)
	v.FillBytes(out)
	return out
}

// SerializeCompressed returns the 33-byte SEC1 compressed encoding; nil for the point at infinity.
func (p Point) SerializeCompressed() []byte {
	if p.Inf {
		return nil
	}
	out := make([]byte, 33)
	out[0] = 0x02 + byte(p.Y.Bit(0))
	p.X.FillBytes(out[1:])
	return out
}

// SerializeUncompressed returns 04||X||Y (65 bytes); nil for the point at infinity.
func (p Point) SerializeUncompressed() []byte {
	if p.Inf {
		return nil
	}
	out := make([]byte, 65)
	out[0] = 0x04
	p.X.FillBytes(out[1:33])
	p.Y.FillBytes(out[33:])
	return out
}
