package ref

import (
	"crypto/sha256"
	"encoding/hex"
	"errors"
	"math/big"
	"sort"
)

// KeysetID is NUT-02 (version 00): sort the public keys by amount ascending (numerically),
// concatenate the 33-byte compressed keys, SHA-256, take the first 14 hex characters, prefix "00".
func KeysetID(keys map[uint64][]byte) string {
	amounts := make([]uint64, 0, len(keys))
	for a := range keys {
		amounts = append(amounts, a)
	}
	sort.Slice(amounts, func(i, j int) bool { return amounts[i] < amounts[j] })
	h := sha256.New()
	for _, a := range amounts {
		h.Write(keys[a])
	}
	return "00" + hex.EncodeToString(h.Sum(nil))[:14]
}

// MintMaxOrder is the number of denominations 2^0 .. 2^59 of a mint keyset in this repository.
const MintMaxOrder = 60

// mintKeysetNode derives m/0'/0'/idx'.
func mintKeysetNode(seed []byte, idx uint32) (*big.Int, []byte, error) {
	if idx >= Hardened {
		return nil, nil, errors.New("ref: keyset index must be < 2^31")
	}
	return DerivePath(seed, []uint32{Hardened + 0, Hardened + 0, Hardened + idx})
}

// MintKeysetPriv returns the private key for amount 2^i of keyset index idx: BIP32 path m/0'/0'/idx'/i'.
// nil if the derivation is invalid (probability about 2^-127) or the arguments are out of range.
func MintKeysetPriv(seed []byte, idx uint32, i uint32) *big.Int {
	if i >= Hardened {
		return nil
	}
	k, c, err := mintKeysetNode(seed, idx)
	if err != nil {
		return nil
	}
	ki, _, err := CKDpriv(k, c, Hardened+i)
	if err != nil {
		return nil
	}
	return ki
}

// MintKeysetPrivs returns the 60 private keys of keyset idx, keyed by amount 2^i.
func MintKeysetPrivs(seed []byte, idx uint32) (map[uint64]*big.Int, error) {
	k, c, err := mintKeysetNode(seed, idx)
	if err != nil {
		return nil, err
	}
	out := make(map[uint64]*big.Int, MintMaxOrder)
	for i := uint32(0); i < MintMaxOrder; i++ {
		ki, _, err := CKDpriv(k, c, Hardened+i)
		if err != nil {
			return nil, err
		}
		out[uint64(1)<<i] = ki
	}
	return out, nil
}

// MintKeysetPubs returns the 60 compressed public keys of keyset idx, keyed by amount 2^i; nil on an invalid derivation.
func MintKeysetPubs(seed []byte, idx uint32) map[uint64][]byte {
	privs, err := MintKeysetPrivs(seed, idx)
	if err != nil {
		return nil
	}
	out := make(map[uint64][]byte, len(privs))
	for a, k := range privs {
		out[a] = ScalarBaseMult(k).SerializeCompressed()
	}
	return out
}

// NUT13Purpose is the purpose' level of NUT-13 paths.
const NUT13Purpose uint32 = 129372

// KeysetIDInt is NUT-13's keyset_id_int = int.from_bytes(bytes.fromhex(keyset_id), "big") % (2^31 - 1).
// Only 8-byte (16 hex character) ids are accepted here: that is the only id format this check uses.
func KeysetIDInt(keysetIDHex string) (uint32, error) {
	b, err := hex.DecodeString(keysetIDHex)
	if err != nil {
		return 0, err
	}
	if len(b) != 8 {
		return 0, errors.New("ref: keyset id must be 8 bytes")
	}
	v := new(big.Int).SetBytes(b)
	m := big.NewInt(1<<31 - 1)
	return uint32(v.Mod(v, m).Uint64()), nil
}

// NUT13KeysetPath returns m/129372'/0'/keyset_id_int'.
func NUT13KeysetPath(keysetIDHex string) ([]uint32, error) {
	kid, err := KeysetIDInt(keysetIDHex)
	if err != nil {
		return nil, err
	}
	return []uint32{Hardened + NUT13Purpose, Hardened + 0, Hardened + kid}, nil
}

func nut13Leaf(seed []byte, keysetIDHex string, counter uint32, leaf uint32) (*big.Int, error) {
	if counter >= Hardened {
		return nil, errors.New("ref: counter must be < 2^31")
	}
	p, err := NUT13KeysetPath(keysetIDHex)
	if err != nil {
		return nil, err
	}
	k, _, err := DerivePath(seed, append(p, Hardened+counter, leaf))
	return k, err
}

// NUT13Secret is the hex encoding of the 32-byte private key at m/129372'/0'/keyset_id_int'/counter'/0.
func NUT13Secret(seed []byte, keysetIDHex string, counter uint32) (string, error) {
	k, err := nut13Leaf(seed, keysetIDHex, counter, 0)
	if err != nil {
		return "", err
	}
	return hex.EncodeToString(Bytes32(k)), nil
}

// NUT13R is the blinding factor: the private key at m/129372'/0'/keyset_id_int'/counter'/1.
func NUT13R(seed []byte, keysetIDHex string, counter uint32) (*big.Int, error) {
	return nut13Leaf(seed, keysetIDHex, counter, 1)
}

// NUT13Pair derives secret and r sharing the common path prefix (one pass; same values as NUT13Secret / NUT13R).
func NUT13Pair(seed []byte, keysetIDHex string, counter uint32) (string, *big.Int, error) {
	if counter >= Hardened {
		return "", nil, errors.New("ref: counter must be < 2^31")
	}
	p, err := NUT13KeysetPath(keysetIDHex)
	if err != nil {
		return "", nil, err
	}
	k, c, err := DerivePath(seed, append(p, Hardened+counter))
	if err != nil {
		return "", nil, err
	}
	pub := ScalarBaseMult(k).SerializeCompressed()
	leaf := func(i uint32) (*big.Int, error) {
		// non-hardened child: data = serP(point(k_par)) || ser32(i); the parent's public key is computed once
		data := append(append([]byte(nil), pub...), byte(i>>24), byte(i>>16), byte(i>>8), byte(i))
		ki, _, err := ckdFinish(k, c, data)
		return ki, err
	}
	s, err := leaf(0)
	if err != nil {
		return "", nil, err
	}
	r, err := leaf(1)
	if err != nil {
		return "", nil, err
	}
	return hex.EncodeToString(Bytes32(s)), r, nil
}

// WalletP2PKPriv is the key this repository's wallet uses to receive P2PK-locked ecash: m/129372'/0'/1'/0.
func WalletP2PKPriv(seed []byte) (*big.Int, error) {
	k, _, err := DerivePath(seed, []uint32{Hardened + NUT13Purpose, Hardened + 0, Hardened + 1, 0})
	return k, err
}
