package rt

import (
	"bufio"
	"encoding/json"
	"fmt"
	"io"
	"os"
	"os/exec"
	"path/filepath"
	"runtime"
	"strings"
	"sync"
	"time"
)

// Pool runs jobs in worker subprocesses (`vcheck --worker <ID>`): JSON line in, JSON line out.
// Workers are recycled after Recycle jobs (LoadMint leaks one SQLite handle per call, ulimit -n is 20000).
type Pool struct {
	ID       string
	N        int
	Recycle  int
	JobLimit time.Duration // per job watchdog: hang => harness error
	mu       sync.Mutex
	Jobs     int64
	Deaths   int64
}

func NewPool(id string) *Pool {
	n := runtime.NumCPU()
	if s := os.Getenv("VERIF_WORKERS"); s != "" {
		fmt.Sscan(s, &n)
	}
	if n < 1 {
		n = 1
	}
	return &Pool{ID: id, N: n, Recycle: 1500, JobLimit: 10 * time.Minute}
}

type worker struct {
	cmd    *exec.Cmd
	in     io.WriteCloser
	out    *bufio.Reader
	stderr *tailBuf
	jobs   int
}

type tailBuf struct {
	mu sync.Mutex
	b  []byte
}

func (t *tailBuf) Write(p []byte) (int, error) {
	t.mu.Lock()
	t.b = append(t.b, p...)
	if len(t.b) > 16384 {
		t.b = t.b[len(t.b)-16384:]
	}
	t.mu.Unlock()
	return len(p), nil
}
func (t *tailBuf) String() string { t.mu.Lock(); defer t.mu.Unlock(); return string(t.b) }

func (p *Pool) spawn() *worker {
	exe, _ := os.Executable()
	cmd := exec.Command(exe, "--worker", p.ID)
	cmd.Env = append(os.Environ(), "GOMAXPROCS=2", "VERIF_DIR="+VerifDir())
	// the repository unpacks its SQL migrations into os.TempDir() on every InitSQLite: keep that on tmpfs
	root := ScratchRoot()
	td := filepath.Join(root, "tmp")
	os.MkdirAll(td, 0o700)
	cmd.Env = append(cmd.Env, "TMPDIR="+td, "VERIF_SCRATCH="+root)
	in, _ := cmd.StdinPipe()
	out, _ := cmd.StdoutPipe()
	tb := &tailBuf{}
	cmd.Stderr = tb
	if err := cmd.Start(); err != nil {
		HarnessError("cannot start worker: %v", err)
	}
	return &worker{cmd: cmd, in: in, out: bufio.NewReaderSize(out, 1<<20), stderr: tb}
}

func (w *worker) stop() {
	if w == nil {
		return
	}
	w.in.Close()
	done := make(chan struct{})
	go func() { w.cmd.Wait(); close(done) }()
	select {
	case <-done:
	case <-time.After(5 * time.Second):
		w.cmd.Process.Kill()
		<-done
	}
}

// JobResult is what Map hands back per job. Died is set when the worker process exited while running the job
// (e.g. a panic in a goroutine nobody can recover); Stderr then holds the tail of its stderr.
type JobResult struct {
	Out    json.RawMessage
	Died   bool
	Stderr string
}

// Map runs all jobs and calls on(i, result) (serialised) for each.
func (p *Pool) Map(jobs []any, on func(i int, r JobResult)) {
	if len(jobs) == 0 {
		return
	}
	n := p.N
	if n > len(jobs) {
		n = len(jobs)
	}
	idx := make(chan int, len(jobs))
	for i := range jobs {
		idx <- i
	}
	close(idx)
	var wg sync.WaitGroup
	var onMu sync.Mutex
	for k := 0; k < n; k++ {
		wg.Add(1)
		go func() {
			defer wg.Done()
			var w *worker
			defer func() { w.stop() }()
			for i := range idx {
				if w == nil || w.jobs >= p.Recycle {
					w.stop()
					w = p.spawn()
				}
				b, err := json.Marshal(jobs[i])
				if err != nil {
					HarnessError("job marshal: %v", err)
				}
				res, died := p.runOne(w, b)
				w.jobs++
				p.mu.Lock()
				p.Jobs++
				p.mu.Unlock()
				r := JobResult{Out: res}
				if died {
					r.Died = true
					r.Stderr = w.stderr.String()
					p.mu.Lock()
					p.Deaths++
					p.mu.Unlock()
					w.cmd.Process.Kill()
					w.cmd.Wait()
					w = nil
				}
				onMu.Lock()
				on(i, r)
				onMu.Unlock()
			}
		}()
	}
	wg.Wait()
}

func (p *Pool) runOne(w *worker, job []byte) (json.RawMessage, bool) {
	type rd struct {
		line []byte
		err  error
	}
	ch := make(chan rd, 1)
	go func() {
		if _, err := w.in.Write(append(job, '\n')); err != nil {
			ch <- rd{nil, err}
			return
		}
		for {
			line, err := w.out.ReadBytes('\n')
			if err != nil {
				ch <- rd{nil, err}
				return
			}
			// the repository prints to stdout in places (fmt.Println); only lines with our marker are results
			if strings.HasPrefix(string(line), "\x01RES ") {
				ch <- rd{line[5:], nil}
				return
			}
		}
	}()
	select {
	case r := <-ch:
		if r.err != nil {
			return nil, true
		}
		return json.RawMessage(r.line), false
	case <-time.After(p.JobLimit):
		HarnessError("worker job exceeded the %v watchdog (hang); job=%.300s stderr=%s", p.JobLimit, job, w.stderr.String())
		return nil, true
	}
}

// WorkerLoop is the subprocess side: reads jobs from stdin, answers on stdout.
func WorkerLoop(handle func(job json.RawMessage) (any, error)) {
	in := bufio.NewReaderSize(os.Stdin, 1<<20)
	out := bufio.NewWriter(os.Stdout)
	for {
		line, err := in.ReadBytes('\n')
		if len(line) > 0 {
			res, herr := handle(json.RawMessage(line))
			if herr != nil {
				fmt.Fprintf(os.Stderr, "worker harness error: %v\n", herr)
				os.Exit(3)
			}
			b, merr := json.Marshal(res)
			if merr != nil {
				fmt.Fprintf(os.Stderr, "worker result marshal: %v\n", merr)
				os.Exit(3)
			}
			out.WriteString("\x01RES ")
			out.Write(b)
			out.WriteByte('\n')
			out.Flush()
		}
		if err != nil {
			return
		}
	}
}
