package rt

import (
	"runtime"
	"sync"
	"sync/atomic"
)

// ParallelFor runs f(0..n-1) on all cores (for pure, CPU-bound enumerations inside one process).
func ParallelFor(n int, f func(i int)) {
	w := runtime.NumCPU()
	if w > n {
		w = n
	}
	if w < 1 {
		return
	}
	var next int64 = -1
	var wg sync.WaitGroup
	for k := 0; k < w; k++ {
		wg.Add(1)
		go func() {
			defer wg.Done()
			for {
				i := int(atomic.AddInt64(&next, 1))
				if i >= n {
					return
				}
				f(i)
			}
		}()
	}
	wg.Wait()
}
