// Package rt is the shared runtime of the checks: case context, violation
// bookkeeping against known_findings.json, evidence files, worker pool.
package rt

import (
	"crypto/sha256"
	"encoding/hex"
	"encoding/json"
	"fmt"
	"os"
	"path/filepath"
	"sort"
	"strings"
	"sync"
	"time"
)

// VerifDir is /verif (directory holding MANIFEST.json); resolved from the binary location or $VERIF_DIR.
func VerifDir() string {
	if d := os.Getenv("VERIF_DIR"); d != "" {
		return d
	}
	exe, err := os.Executable()
	if err == nil {
		d := filepath.Dir(filepath.Dir(exe))
		if _, err := os.Stat(filepath.Join(d, "properties.jsonl")); err == nil {
			return d
		}
	}
	return "/verif"
}

type Violation struct {
	Property string `json:"property"`
	Key      string `json:"key"`  // stable identity of the failing case class (matched against known_findings.json)
	What     string `json:"what"` // human readable: expected vs observed
	Replay   any    `json:"replay,omitempty"`
}

type Finding struct {
	Property string `json:"property"`
	Key      string `json:"key"`
	Status   string `json:"status"` // known | fixed
	Commit   string `json:"commit,omitempty"`
	What     string `json:"what"`
}

// Ctx is handed to a property's Run function (coordinator side).
type Ctx struct {
	ID    string
	Tier  string // quick | thorough
	Seed  int64
	Level string
	Start time.Time
	// Deadline is the soft internal budget: searches stop expanding after it and report exhaustive:false.
	Deadline time.Time

	mu         sync.Mutex
	violations map[string]Violation // by key, first occurrence
	vcount     map[string]int
	Cov        map[string]any
	counters   map[string]int64
	samples    []any
	distinct   map[string]struct{}
	assume     []string
	infos      map[string]int
	Exhaustive bool
	Pool       *Pool
}

func NewCtx(id, tier, level string) *Ctx {
	c := &Ctx{ID: id, Tier: tier, Level: level, Start: time.Now(),
		violations: map[string]Violation{}, vcount: map[string]int{}, Cov: map[string]any{},
		counters: map[string]int64{}, distinct: map[string]struct{}{}, infos: map[string]int{}, Exhaustive: true}
	fmt.Sscan(os.Getenv("VERIF_SEED"), &c.Seed)
	if ri := os.Getenv("VERIF_RACE_INFO"); ri != "" {
		c.Cov["race_pass_free_running"] = ri
	}
	current = c
	return c
}

func (c *Ctx) Quick() bool { return c.Tier != "thorough" }

// Expired reports whether the soft budget is used up (never a failure; marks the run non-exhaustive).
func (c *Ctx) Expired() bool {
	if !c.Deadline.IsZero() && time.Now().After(c.Deadline) {
		c.mu.Lock()
		c.Exhaustive = false
		c.mu.Unlock()
		return true
	}
	return false
}

func (c *Ctx) Violate(key, what string, replay any) {
	c.mu.Lock()
	defer c.mu.Unlock()
	c.vcount[key]++
	if os.Getenv("VERIF_DUMP_ALL") != "" {
		fmt.Printf("DUMP %s :: %s\n", key, oneLine(what))
	}
	if _, ok := c.violations[key]; !ok {
		c.violations[key] = Violation{Property: c.ID, Key: key, What: what, Replay: replay}
	}
}

func (c *Ctx) AddViolation(v Violation) { c.Violate(v.Key, v.What, v.Replay) }

func (c *Ctx) Info(msg string) {
	c.mu.Lock()
	c.infos[msg]++
	n := c.infos[msg]
	c.mu.Unlock()
	if n == 1 {
		fmt.Println("INFO:", msg)
	}
}

func (c *Ctx) Count(name string, n int64) {
	c.mu.Lock()
	c.counters[name] += n
	c.mu.Unlock()
}

func (c *Ctx) Counter(name string) int64 {
	c.mu.Lock()
	defer c.mu.Unlock()
	return c.counters[name]
}

// Distinct records a canonical key of a non-trivial case; returns true if new.
func (c *Ctx) Distinct(key string) bool {
	h := sha256.Sum256([]byte(key))
	k := string(h[:12])
	c.mu.Lock()
	defer c.mu.Unlock()
	if _, ok := c.distinct[k]; ok {
		return false
	}
	c.distinct[k] = struct{}{}
	return true
}

func (c *Ctx) NDistinct() int {
	c.mu.Lock()
	defer c.mu.Unlock()
	return len(c.distinct)
}

func (c *Ctx) Sample(s any) {
	c.mu.Lock()
	if len(c.samples) < 12 {
		c.samples = append(c.samples, s)
	}
	c.mu.Unlock()
}

func (c *Ctx) Assume(s string) { c.assume = append(c.assume, s) }

func loadFindings() []Finding {
	b, err := os.ReadFile(filepath.Join(VerifDir(), "known_findings.json"))
	if err != nil {
		return nil
	}
	var f struct {
		Findings []Finding `json:"findings"`
	}
	if err := json.Unmarshal(b, &f); err != nil {
		fmt.Println("HARNESS-ERROR: known_findings.json unreadable:", err)
		os.Exit(2)
	}
	return f.Findings
}

// Finish prints KNOWN-FINDING / VIOLATION lines, writes evidence, returns the exit code.
func (c *Ctx) Finish() int {
	known := map[string]Finding{}
	for _, f := range loadFindings() {
		if f.Property == c.ID && f.Status == "known" {
			known[f.Key] = f
		}
	}
	keys := make([]string, 0, len(c.violations))
	for k := range c.violations {
		keys = append(keys, k)
	}
	sort.Strings(keys)
	exit := 0
	newViol := 0
	knownSeen := 0
	for _, k := range keys {
		v := c.violations[k]
		if f, ok := known[k]; ok {
			knownSeen++
			obs := oneLine(v.What)
			if len(obs) > 300 {
				obs = obs[:300] + "..."
			}
			fmt.Printf("KNOWN-FINDING: property=%s key=%s %s (seen %d×; first observed now: %s)\n", c.ID, k, oneLine(f.What), c.vcount[k], obs)
			continue
		}
		newViol++
		h := sha256.Sum256([]byte(k))
		path := filepath.Join(VerifDir(), "replays", fmt.Sprintf("%s-%s.json", c.ID, hex.EncodeToString(h[:6])))
		if d := os.Getenv("VERIF_EVIDENCE_DIR"); d != "" {
			path = filepath.Join(d, fmt.Sprintf("%s-%s.replay.json", c.ID, hex.EncodeToString(h[:6])))
		}
		b, _ := json.MarshalIndent(v, "", " ")
		os.MkdirAll(filepath.Dir(path), 0o755)
		os.WriteFile(path, b, 0o644)
		fmt.Printf("VIOLATION property=%s replay=%s\n", c.ID, path)
		fmt.Printf("  key=%s (seen %d×)\n  %s\n", k, c.vcount[k], v.What)
		exit = 1
	}
	c.writeEvidence(newViol, knownSeen)
	fmt.Printf("%s %s: exit=%d violations=%d known_findings_seen=%d exhaustive=%v wall=%.1fs\n",
		c.ID, c.Tier, exit, newViol, knownSeen, c.Exhaustive, time.Since(c.Start).Seconds())
	return exit
}

func oneLine(s string) string { return strings.Join(strings.Fields(s), " ") }

func (c *Ctx) writeEvidence(newViol, knownSeen int) {
	cov := map[string]any{}
	for k, v := range c.counters {
		cov[k] = v
	}
	for k, v := range c.Cov {
		cov[k] = v
	}
	if _, ok := cov["distinct_nontrivial"]; !ok {
		cov["distinct_nontrivial"] = len(c.distinct)
	}
	if len(c.samples) > 0 {
		cov["samples"] = c.samples
	}
	cov["exhaustive"] = c.Exhaustive
	cov["known_findings_seen"] = knownSeen
	ev := map[string]any{
		"property_id": c.ID, "tier": c.Tier, "seed": c.Seed, "level": c.Level,
		"coverage": cov, "assumptions": c.assume, "wall_s": time.Since(c.Start).Seconds(),
		"violations": newViol,
	}
	if c.assume == nil {
		ev["assumptions"] = []string{}
	}
	b, _ := json.MarshalIndent(ev, "", " ")
	p := filepath.Join(VerifDir(), "evidence", c.ID+".json")
	if d := os.Getenv("VERIF_EVIDENCE_DIR"); d != "" { // self-test runs against mutated code must not overwrite real evidence
		p = filepath.Join(d, c.ID+".json")
	}
	os.MkdirAll(filepath.Dir(p), 0o755)
	if err := os.WriteFile(p, b, 0o644); err != nil {
		fmt.Println("HARNESS-ERROR: cannot write evidence:", err)
	}
}

// HarnessError aborts the run with exit code 2 (never a VIOLATION).
// current is the context of the running check (one per process).
var current *Ctx

func HarnessError(format string, a ...any) {
	fmt.Printf("HARNESS-ERROR: "+format+"\n", a...)
	// violations found before the harness stumbled are results, not to be lost: report them (exit 1 if any is not a
	// known finding); the run is marked not exhaustive
	if c := current; c != nil {
		current = nil // no recursion
		c.mu.Lock()
		n := len(c.violations)
		c.mu.Unlock()
		if n > 0 {
			c.Exhaustive = false
			c.Cov["harness_error"] = fmt.Sprintf(format, a...)
			if code := c.Finish(); code == 1 {
				Cleanup()
				os.Exit(1)
			}
		}
	}
	Cleanup()
	os.Exit(2)
}

var scratchRoot string
var scratchOwned bool

// ScratchRoot is the per-run scratch directory on tmpfs (/dev/shm, fallback $TMPDIR). The coordinator creates and
// removes it; workers inherit it through $VERIF_SCRATCH.
func ScratchRoot() string {
	if scratchRoot != "" {
		return scratchRoot
	}
	if d := os.Getenv("VERIF_SCRATCH"); d != "" {
		scratchRoot = d
		return d
	}
	base := "/dev/shm"
	if st, err := os.Stat(base); err != nil || !st.IsDir() {
		base = os.TempDir()
	}
	d, err := os.MkdirTemp(base, fmt.Sprintf("verif-%d-", os.Getpid()))
	if err != nil {
		panic(err)
	}
	scratchRoot, scratchOwned = d, true
	td := filepath.Join(d, "tmp")
	os.MkdirAll(td, 0o700)
	os.Setenv("TMPDIR", td)
	return d
}

// Cleanup removes the scratch directory if this process created it.
func Cleanup() {
	if scratchOwned && scratchRoot != "" {
		os.RemoveAll(scratchRoot)
	}
}

// HasProp reports whether the comma separated list names the property.
func HasProp(list, id string) bool {
	for _, p := range strings.Split(list, ",") {
		if p == id {
			return true
		}
	}
	return false
}
