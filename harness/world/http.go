package world

import (
	"fmt"
	"net/http"
	"net/http/httptest"
	"strings"
)

// Do sends one request through the mint's real handler (hook H2) under recover().
func Do(h http.Handler, method, path, body string, hdr ...string) (status int, resp string, panicked any) {
	defer func() {
		if r := recover(); r != nil {
			panicked = r
		}
	}()
	var rd *strings.Reader
	// origin-form request target, as a server sees it from a real client (URL.String() is the path and query only)
	req := httptest.NewRequest(method, path, nil)
	if body != "\x00nobody" {
		rd = strings.NewReader(body)
		req = httptest.NewRequest(method, path, rd)
		req.Header.Set("Content-Type", "application/json")
	}
	for i := 0; i+1 < len(hdr); i += 2 {
		req.Header.Set(hdr[i], hdr[i+1])
	}
	rec := httptest.NewRecorder()
	h.ServeHTTP(rec, req)
	return rec.Code, rec.Body.String(), nil
}

func PanicString(p any) string { return fmt.Sprint(p) }
