// Package world builds the closed system the explorers drive: real mints (SQLite on tmpfs) with a fixed
// seed, the Lightning model, the in-process HTTP handler, and an honest harness-side client.
package world

import (
	"crypto/sha256"
	"database/sql"
	"encoding/hex"
	"fmt"
	"net/http"
	"os"
	"path/filepath"
	"sort"
	"strings"

	"github.com/decred/dcrd/dcrec/secp256k1/v4"
	"github.com/elnosh/gonuts/cashu"
	"github.com/elnosh/gonuts/cashu/nuts/nut04"
	"github.com/elnosh/gonuts/cashu/nuts/nut05"
	"github.com/elnosh/gonuts/crypto"
	"github.com/elnosh/gonuts/mint"
	"github.com/elnosh/gonuts/mint/storage"
	"github.com/elnosh/gonuts/mint/storage/sqlite"
	_ "github.com/mattn/go-sqlite3"

	"verif/harness/dbwrap"
	"verif/harness/lnmodel"
	"verif/harness/rt"
)

// Scratch returns a fresh scratch directory on tmpfs (removed by the caller / at process exit).
func Scratch(tag string) string {
	d, err := os.MkdirTemp(rt.ScratchRoot(), tag+"-")
	if err != nil {
		panic(err)
	}
	return d
}

type Cfg struct {
	Name   string
	Dir    string
	FeePpk uint
	Limits mint.MintLimits
	MPP    bool
}

type MintW struct {
	Cfg
	LN *lnmodel.LN
	M  *mint.Mint
	S  *mint.MintServer
	H  http.Handler
	DB *dbwrap.DB
	// OnLoad is applied to every new DB wrapper (after LoadMint) so hooks survive restarts.
	OnLoad func(*dbwrap.DB)
	// LoadHook, if set, wraps LoadMint itself (E2 crashes inside LoadMint are not possible: the
	// store is created inside; see DESIGN §3.4).
}

func FixedSeed(name string) []byte {
	h := sha256.Sum256([]byte("verif mint seed " + name))
	return h[:]
}

// NewMint creates the data directory with a fixed seed (through the repository's own storage API) and loads the mint.
func NewMint(cfg Cfg, ln *lnmodel.LN) (*MintW, error) {
	if cfg.Name == "" {
		cfg.Name = "a"
	}
	if err := os.MkdirAll(cfg.Dir, 0o700); err != nil {
		return nil, err
	}
	if _, err := os.Stat(filepath.Join(cfg.Dir, "mint.sqlite.db")); err != nil {
		db, err := sqlite.InitSQLite(cfg.Dir)
		if err != nil {
			return nil, err
		}
		if err := db.SaveSeed(FixedSeed(cfg.Name)); err != nil {
			return nil, err
		}
		db.Close()
	}
	m := &MintW{Cfg: cfg, LN: ln}
	if err := m.Load(false, cfg.FeePpk); err != nil {
		return nil, err
	}
	return m, nil
}

// Load runs mint.LoadMint on the directory (optionally rotating the keyset) and wires hooks H1/H2.
func (m *MintW) Load(rotate bool, fee uint) error {
	mm, err := mint.LoadMint(mint.Config{
		RotateKeyset:    rotate,
		MintPath:        m.Dir,
		InputFeePpk:     fee,
		Limits:          m.Limits,
		LightningClient: m.LN.Client(m.Name),
		EnableMPP:       m.MPP,
		LogLevel:        mint.Disable,
	})
	if err != nil {
		return err
	}
	m.M = mm
	mm.VerifWrapDB(func(in storage.MintDB) storage.MintDB {
		m.DB = dbwrap.Wrap(in)
		return m.DB
	})
	if m.OnLoad != nil {
		m.OnLoad(m.DB)
	}
	m.S = mint.SetupMintServer(mm, mint.ServerConfig{Port: 0})
	m.H = m.S.VerifHandler()
	return nil
}

func (m *MintW) Shutdown() {
	if m.M != nil {
		m.M.Shutdown()
		m.M = nil
	}
}

func (m *MintW) Restart(rotate bool, fee uint) error {
	m.Shutdown()
	return m.Load(rotate, fee)
}

func (m *MintW) ActiveID() string { return m.M.GetActiveKeyset().Id }

func (m *MintW) Keys(id string) crypto.PublicKeys {
	ks, err := m.M.GetKeysetById(id)
	if err != nil {
		return nil
	}
	return ks.Keys
}

// ---------- honest client ----------

type Out struct {
	Secret string
	R      *secp256k1.PrivateKey
	Msg    cashu.BlindedMessage
}

// User derives secrets and blinding factors deterministically from a counter so that the same history
// produces the same B_ on every replay.
type User struct {
	Tag string
	N   int
}

func (u *User) next() (string, *secp256k1.PrivateKey) {
	u.N++
	s := sha256.Sum256([]byte(fmt.Sprintf("%s secret %d", u.Tag, u.N)))
	r := sha256.Sum256([]byte(fmt.Sprintf("%s r %d", u.Tag, u.N)))
	return hex.EncodeToString(s[:]), secp256k1.PrivKeyFromBytes(r[:])
}

func MakeOut(id string, amount uint64, secret string, r *secp256k1.PrivateKey) Out {
	B_, _, err := crypto.BlindMessage(secret, r)
	if err != nil {
		panic(err)
	}
	return Out{Secret: secret, R: r, Msg: cashu.NewBlindedMessage(id, amount, B_)}
}

func (u *User) Outputs(id string, amounts ...uint64) []Out {
	outs := make([]Out, len(amounts))
	for i, a := range amounts {
		s, r := u.next()
		outs[i] = MakeOut(id, a, s, r)
	}
	return outs
}

// OutputsWithSecrets blinds caller-chosen secrets (P2PK / HTLC JSON, oversize secrets).
func (u *User) OutputsWithSecrets(id string, amounts []uint64, secrets []string) []Out {
	outs := make([]Out, len(amounts))
	for i, a := range amounts {
		_, r := u.next()
		outs[i] = MakeOut(id, a, secrets[i], r)
	}
	return outs
}

func Msgs(outs []Out) cashu.BlindedMessages {
	bm := make(cashu.BlindedMessages, len(outs))
	for i, o := range outs {
		bm[i] = o.Msg
	}
	return bm
}

// Unblind turns signatures into proofs with the mint's published keys.
func Unblind(sigs cashu.BlindedSignatures, outs []Out, keys crypto.PublicKeys) (cashu.Proofs, error) {
	if len(sigs) != len(outs) {
		return nil, fmt.Errorf("signatures %d != outputs %d", len(sigs), len(outs))
	}
	ps := make(cashu.Proofs, len(sigs))
	for i, s := range sigs {
		K := keys[s.Amount]
		if K == nil {
			return nil, fmt.Errorf("no key for amount %d", s.Amount)
		}
		cb, err := hex.DecodeString(s.C_)
		if err != nil {
			return nil, err
		}
		C_, err := secp256k1.ParsePubKey(cb)
		if err != nil {
			return nil, err
		}
		C := crypto.UnblindSignature(C_, outs[i].R, K)
		ps[i] = cashu.Proof{Amount: s.Amount, Id: s.Id, Secret: outs[i].Secret, C: hex.EncodeToString(C.SerializeCompressed())}
	}
	return ps, nil
}

func Y(secret string) string {
	p, err := crypto.HashToCurve([]byte(secret))
	if err != nil {
		panic(err)
	}
	return hex.EncodeToString(p.SerializeCompressed())
}

func Split(amount uint64) []uint64 { return cashu.AmountSplit(amount) }

// MintQuote requests a quote and waits until the mint's invoice watcher is parked in Recv, so that
// the watcher's start-up reads never interleave with later operations.
func (m *MintW) MintQuote(amount uint64, pubkey string) (storage.MintQuote, error) {
	q, err := m.M.RequestMintQuote(nut04.PostMintQuoteBolt11Request{Amount: amount, Unit: "sat", Pubkey: pubkey})
	if err != nil {
		return q, err
	}
	if !m.LN.WaitBlocked(q.PaymentHash, 1) {
		return q, fmt.Errorf("harness: invoice watcher did not subscribe")
	}
	return q, nil
}

// Fund mints proofs of the given denominations on the active keyset (quote, settle, mint, unblind).
func (m *MintW) Fund(u *User, amounts ...uint64) (cashu.Proofs, error) {
	var sum uint64
	for _, a := range amounts {
		sum += a
	}
	q, err := m.MintQuote(sum, "")
	if err != nil {
		return nil, err
	}
	m.LN.Settle(q.PaymentHash)
	id := m.ActiveID()
	outs := u.Outputs(id, amounts...)
	sigs, err := m.M.MintTokens(nut04.PostMintBolt11Request{Quote: q.Id, Outputs: Msgs(outs)})
	if err != nil {
		return nil, err
	}
	return Unblind(sigs, outs, m.Keys(id))
}

func (m *MintW) MeltQuote(request string) (storage.MeltQuote, error) {
	return m.M.RequestMeltQuote(nut05.PostMeltQuoteBolt11Request{Request: request, Unit: "sat"})
}

// ---------- canonical dump of the store (second, read-only connection) ----------

var dumpTables = []string{"keysets", "proofs", "pending_proofs", "mint_quotes", "melt_quotes", "blind_signatures"}

// Dump renders all mint tables as sorted text. Columns e and s of blind_signatures (random DLEQ nonces)
// are kept only when keepDLEQ is set.
func Dump(dir string, keepDLEQ bool) (string, error) {
	db, err := sql.Open("sqlite3", "file:"+filepath.Join(dir, "mint.sqlite.db")+"?mode=ro")
	if err != nil {
		return "", err
	}
	defer db.Close()
	var sb strings.Builder
	for _, t := range dumpTables {
		rows, err := db.Query("SELECT * FROM " + t)
		if err != nil {
			return "", err
		}
		cols, _ := rows.Columns()
		var lines []string
		for rows.Next() {
			vals := make([]any, len(cols))
			ptrs := make([]any, len(cols))
			for i := range vals {
				ptrs[i] = &vals[i]
			}
			if err := rows.Scan(ptrs...); err != nil {
				rows.Close()
				return "", err
			}
			var parts []string
			for i, c := range cols {
				if t == "blind_signatures" && !keepDLEQ && (c == "e" || c == "s") {
					continue
				}
				v := vals[i]
				if b, ok := v.([]byte); ok {
					v = string(b)
				}
				parts = append(parts, fmt.Sprintf("%s=%v", c, v))
			}
			lines = append(lines, strings.Join(parts, " "))
		}
		rows.Close()
		sort.Strings(lines)
		sb.WriteString("## " + t + "\n")
		for _, l := range lines {
			sb.WriteString(l + "\n")
		}
	}
	return sb.String(), nil
}

// NewMintWith finishes the construction of a partially filled MintW (Dir, Cfg, LN, OnLoad set by the caller).
func NewMintWith(m *MintW) (*MintW, error) {
	if m.Name == "" {
		m.Name = "a"
	}
	if err := os.MkdirAll(m.Dir, 0o700); err != nil {
		return nil, err
	}
	if _, err := os.Stat(filepath.Join(m.Dir, "mint.sqlite.db")); err != nil {
		db, err := sqlite.InitSQLite(m.Dir)
		if err != nil {
			return nil, err
		}
		if err := db.SaveSeed(FixedSeed(m.Name)); err != nil {
			return nil, err
		}
		db.Close()
	}
	if err := m.Load(false, m.FeePpk); err != nil {
		return nil, err
	}
	return m, nil
}
