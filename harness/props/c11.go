package props

// C11 — derivations match the Cashu specs (hash_to_curve, keyset id, mint keyset derivation, NUT-13, wallet P2PK key).
//
// Differential, bounded-exhaustive (engine E4): every case of an explicit finite alphabet is evaluated by the
// repository's real functions and by package ref (independent math/big + HMAC implementation written from the
// NUT / BIP texts, validated at start-up against the pinned vectors). Outputs are compared bit for bit.

import (
	"bytes"
	"crypto/sha256"
	"encoding/hex"
	"encoding/json"
	"fmt"
	"math/big"
	"os"
	"runtime/debug"
	"sort"
	"strconv"
	"strings"
	"time"

	"github.com/btcsuite/btcd/btcutil/hdkeychain"
	"github.com/btcsuite/btcd/chaincfg"
	"github.com/decred/dcrd/dcrec/secp256k1/v4"
	"github.com/elnosh/gonuts/cashu/nuts/nut13"
	"github.com/elnosh/gonuts/crypto"
	"github.com/elnosh/gonuts/wallet"
	"github.com/tyler-smith/go-bip39"

	"verif/harness/ref"
	"verif/harness/rt"
)

func init() {
	register(&Prop{ID: "C11", Level: "exploration", QuickBudget: 90 * time.Second, ThoroughBudget: 15 * time.Minute,
		Run: runC11, Replay: replayC11})
}

// c11Case fully describes one case; it is also the replay artefact.
type c11Case struct {
	Kind string `json:"kind"` // h2c | keysetid | mintkeys | nut13 | p2pk | bip39

	MsgHex string `json:"msg_hex,omitempty"` // h2c: the message

	// keysetid: the key set in map-insertion order (amount[i] -> key[i], 33-byte compressed hex)
	Amounts []uint64 `json:"amounts,omitempty"`
	KeysHex []string `json:"keys_hex,omitempty"`
	SetName string   `json:"set,omitempty"`

	SeedHex  string `json:"seed_hex,omitempty"` // mintkeys, nut13, p2pk: BIP32 seed
	SeedName string `json:"seed_name,omitempty"`
	Idx      uint32 `json:"idx,omitempty"`       // mintkeys: keyset derivation index
	KeysetID string `json:"keyset_id,omitempty"` // nut13
	Counter  uint32 `json:"counter,omitempty"`   // nut13
	Mnemonic string `json:"mnemonic,omitempty"`  // bip39
}

type c11Finding struct {
	Key  string
	What string
}

// c11Info is what a case reports besides findings (coverage only).
type c11Info struct {
	distinct    string // canonical identity of the case (insertion order of key sets removed)
	h2cCounter  int    // counter value the reference needed (-1: not an h2c case)
	comparisons int    // number of bit-for-bit comparisons made
	leadingZero int    // derived 32-byte outputs whose first byte is 00 (ser256 padding exercised)
	summary     string // rendered outputs, for samples
}

// guard runs f and converts a panic into a string.
func c11Guard(f func()) (panicked string) {
	defer func() {
		if r := recover(); r != nil {
			panicked = fmt.Sprint(r)
		}
	}()
	f()
	return ""
}

func c11Eval(cs c11Case) ([]c11Finding, c11Info) {
	switch cs.Kind {
	case "h2c":
		return c11EvalH2C(cs)
	case "keysetid":
		return c11EvalKeysetID(cs)
	case "mintkeys":
		return c11EvalMintKeys(cs)
	case "nut13":
		return c11EvalNUT13(cs)
	case "p2pk":
		return c11EvalP2PK(cs)
	case "bip39":
		return c11EvalBIP39(cs)
	}
	rt.HarnessError("C11: unknown case kind %q", cs.Kind)
	return nil, c11Info{}
}

// ---------------------------------------------------------------- hash_to_curve

func c11EvalH2C(cs c11Case) ([]c11Finding, c11Info) {
	info := c11Info{distinct: "h2c/" + cs.MsgHex, h2cCounter: -1}
	msg, err := hex.DecodeString(cs.MsgHex)
	if err != nil {
		rt.HarnessError("C11: bad msg hex %q", cs.MsgHex)
	}
	want, ctr, rerr := ref.HashToCurve(msg)
	if rerr != nil {
		// no point within 2^16 iterations: the spec raises an error; cannot be reached in practice.
		return nil, info
	}
	info.h2cCounter = int(ctr)
	var got *secp256k1.PublicKey
	var ierr error
	if p := c11Guard(func() { got, ierr = crypto.HashToCurve(msg) }); p != "" {
		return []c11Finding{{"C11/h2c/panic", fmt.Sprintf("crypto.HashToCurve(msg=%s) panicked: %s; NUT-00 defines %x (counter %d)",
			cs.MsgHex, p, want.SerializeCompressed(), ctr)}}, info
	}
	if ierr != nil || got == nil {
		return []c11Finding{{"C11/h2c/error", fmt.Sprintf("crypto.HashToCurve(msg=%s) returned error %v; NUT-00 defines %x (counter %d)",
			cs.MsgHex, ierr, want.SerializeCompressed(), ctr)}}, info
	}
	info.comparisons = 2
	info.summary = hex.EncodeToString(got.SerializeCompressed())
	var fs []c11Finding
	if !bytes.Equal(got.SerializeCompressed(), want.SerializeCompressed()) {
		fs = append(fs, c11Finding{"C11/h2c/mismatch", fmt.Sprintf("hash_to_curve(msg=%s): expected %x (NUT-00, counter %d), crypto.HashToCurve returned %x",
			cs.MsgHex, want.SerializeCompressed(), ctr, got.SerializeCompressed())})
	} else if !bytes.Equal(got.SerializeUncompressed(), want.SerializeUncompressed()) {
		fs = append(fs, c11Finding{"C11/h2c/y-mismatch", fmt.Sprintf("hash_to_curve(msg=%s): same compressed form but uncompressed differs: expected %x, got %x",
			cs.MsgHex, want.SerializeUncompressed(), got.SerializeUncompressed())})
	}
	return fs, info
}

// ---------------------------------------------------------------- keyset id

func c11EvalKeysetID(cs c11Case) ([]c11Finding, c11Info) {
	if len(cs.Amounts) != len(cs.KeysHex) || len(cs.Amounts) == 0 {
		rt.HarnessError("C11: malformed keysetid case")
	}
	refKeys := map[uint64][]byte{}
	canon := make([]string, 0, len(cs.Amounts))
	for i, a := range cs.Amounts {
		kb, err := hex.DecodeString(cs.KeysHex[i])
		if err != nil || len(kb) != 33 {
			rt.HarnessError("C11: bad key hex in keysetid case")
		}
		if _, dup := refKeys[a]; dup {
			rt.HarnessError("C11: duplicate amount in keysetid case")
		}
		refKeys[a] = kb
		canon = append(canon, fmt.Sprintf("%020d:%s", a, cs.KeysHex[i]))
	}
	sort.Strings(canon)
	h := sha256.Sum256([]byte(strings.Join(canon, ",")))
	info := c11Info{distinct: "keysetid/" + hex.EncodeToString(h[:]), h2cCounter: -1}
	want := ref.KeysetID(refKeys)
	render := func() string {
		var sb strings.Builder
		for i, a := range cs.Amounts {
			if i > 0 {
				sb.WriteString(",")
			}
			if i >= 4 && i < len(cs.Amounts)-1 {
				if i == 4 {
					sb.WriteString("…")
				}
				continue
			}
			fmt.Fprintf(&sb, "%d:%s", a, cs.KeysHex[i])
		}
		return fmt.Sprintf("set=%q (%d keys, insertion order) {%s}", cs.SetName, len(cs.Amounts), sb.String())
	}

	var fs []c11Finding
	var got, got2 string
	var n2 int
	var jerr error
	var js []byte
	p := c11Guard(func() {
		pks := crypto.PublicKeys{}
		for i, a := range cs.Amounts { // insertion order as given
			pk, err := secp256k1.ParsePubKey(refKeys[a])
			if err != nil {
				rt.HarnessError("C11: key %s of keysetid case does not parse: %v", cs.KeysHex[i], err)
			}
			pks[a] = pk
		}
		got = crypto.DeriveKeysetId(pks)
	})
	if p != "" {
		return []c11Finding{{"C11/keysetid/panic", fmt.Sprintf("crypto.DeriveKeysetId panicked: %s; %s; NUT-02 defines %s", p, render(), want)}}, info
	}
	info.comparisons++
	if got != want {
		fs = append(fs, c11Finding{"C11/keysetid/mismatch", fmt.Sprintf("keyset id: expected %s (NUT-02: keys sorted by amount numerically), crypto.DeriveKeysetId returned %s; %s", want, got, render())})
	}
	p = c11Guard(func() {
		pks := crypto.PublicKeys{}
		for _, a := range cs.Amounts {
			pk, _ := secp256k1.ParsePubKey(refKeys[a])
			pks[a] = pk
		}
		js, jerr = pks.MarshalJSON()
		if jerr != nil {
			return
		}
		back := crypto.PublicKeys{}
		jerr = back.UnmarshalJSON(js)
		if jerr != nil {
			return
		}
		n2 = len(back)
		got2 = crypto.DeriveKeysetId(back)
	})
	switch {
	case p != "":
		fs = append(fs, c11Finding{"C11/keysetid/json-panic", fmt.Sprintf("PublicKeys.MarshalJSON/UnmarshalJSON/DeriveKeysetId panicked: %s; %s", p, render())})
	case jerr != nil:
		fs = append(fs, c11Finding{"C11/keysetid/json-error", fmt.Sprintf("PublicKeys JSON round trip failed: %v; json=%.200s; %s", jerr, js, render())})
	default:
		info.comparisons++
		if got2 != want || n2 != len(cs.Amounts) {
			fs = append(fs, c11Finding{"C11/keysetid/json-roundtrip-mismatch", fmt.Sprintf("keyset id after PublicKeys.MarshalJSON->UnmarshalJSON: expected %s with %d keys, got %s with %d keys; json=%.300s; %s",
				want, len(cs.Amounts), got2, n2, js, render())})
		}
	}
	info.summary = want
	return fs, info
}

// ---------------------------------------------------------------- mint keyset derivation m/0'/0'/idx'/i'

func c11Seed(cs c11Case) []byte {
	seed, err := hex.DecodeString(cs.SeedHex)
	if err != nil || len(seed) < 16 || len(seed) > 64 {
		rt.HarnessError("C11: bad seed %q (BIP32 seeds are 16..64 bytes)", cs.SeedHex)
	}
	return seed
}

func c11EvalMintKeys(cs c11Case) ([]c11Finding, c11Info) {
	seed := c11Seed(cs)
	info := c11Info{distinct: fmt.Sprintf("mintkeys/%s/%d", cs.SeedHex, cs.Idx), h2cCounter: -1}
	wantPriv, rerr := ref.MintKeysetPrivs(seed, cs.Idx)
	if rerr != nil {
		return nil, info // BIP32 declares the derivation invalid (probability 2^-127): no value defined
	}
	wantPub := map[uint64][]byte{}
	for a, k := range wantPriv {
		wantPub[a] = ref.ScalarBaseMult(k).SerializeCompressed()
		if ref.Bytes32(k)[0] == 0 {
			info.leadingZero++
		}
	}
	wantID := ref.KeysetID(wantPub)
	in := fmt.Sprintf("seed=%s (%s) idx=%d", cs.SeedHex, cs.SeedName, cs.Idx)

	var ks *crypto.MintKeyset
	var ierr error
	p := c11Guard(func() {
		master, err := hdkeychain.NewMaster(seed, &chaincfg.MainNetParams)
		if err != nil {
			ierr = fmt.Errorf("hdkeychain.NewMaster: %v", err)
			return
		}
		ks, ierr = crypto.GenerateKeyset(master, cs.Idx, 0, true)
	})
	if p != "" {
		return []c11Finding{{"C11/mintkeys/panic", fmt.Sprintf("crypto.GenerateKeyset panicked: %s; %s; the derivation m/0'/0'/%d'/i' is defined (id %s)", p, in, cs.Idx, wantID)}}, info
	}
	if ierr != nil || ks == nil {
		return []c11Finding{{"C11/mintkeys/error", fmt.Sprintf("crypto.GenerateKeyset failed: %v; %s; the derivation m/0'/0'/%d'/i' is defined (id %s)", ierr, in, cs.Idx, wantID)}}, info
	}
	var fs []c11Finding
	if len(ks.Keys) != ref.MintMaxOrder {
		fs = append(fs, c11Finding{"C11/mintkeys/amounts-mismatch", fmt.Sprintf("%s: expected %d keys (amounts 2^0..2^59), GenerateKeyset returned %d", in, ref.MintMaxOrder, len(ks.Keys))})
	}
	for i := uint32(0); i < ref.MintMaxOrder; i++ {
		a := uint64(1) << i
		kp, ok := ks.Keys[a]
		if !ok || kp.PrivateKey == nil || kp.PublicKey == nil {
			fs = append(fs, c11Finding{"C11/mintkeys/amounts-mismatch", fmt.Sprintf("%s: no key for amount 2^%d=%d", in, i, a)})
			continue
		}
		info.comparisons += 2
		if !bytes.Equal(kp.PrivateKey.Serialize(), ref.Bytes32(wantPriv[a])) {
			fs = append(fs, c11Finding{"C11/mintkeys/priv-mismatch", fmt.Sprintf("%s amount 2^%d: private key at m/0'/0'/%d'/%d' expected %x (BIP32), GenerateKeyset has %x",
				in, i, cs.Idx, i, ref.Bytes32(wantPriv[a]), kp.PrivateKey.Serialize())})
		}
		if !bytes.Equal(kp.PublicKey.SerializeCompressed(), wantPub[a]) {
			fs = append(fs, c11Finding{"C11/mintkeys/pub-mismatch", fmt.Sprintf("%s amount 2^%d: public key expected %x, GenerateKeyset has %x",
				in, i, wantPub[a], kp.PublicKey.SerializeCompressed())})
		}
	}
	info.comparisons++
	if ks.Id != wantID {
		fs = append(fs, c11Finding{"C11/mintkeys/id-mismatch", fmt.Sprintf("%s: keyset id expected %s (NUT-02 over the reference keys), GenerateKeyset has %s", in, wantID, ks.Id)})
	}
	info.summary = wantID
	return fs, info
}

// ---------------------------------------------------------------- NUT-13

func c11EvalNUT13(cs c11Case) ([]c11Finding, c11Info) {
	seed := c11Seed(cs)
	info := c11Info{distinct: fmt.Sprintf("nut13/%s/%s/%d", cs.SeedHex, cs.KeysetID, cs.Counter), h2cCounter: -1}
	if b, err := hex.DecodeString(cs.KeysetID); err != nil || len(b) != 8 || cs.Counter >= ref.Hardened {
		rt.HarnessError("C11: nut13 case outside the domain the spec defines (8-byte hex id, counter < 2^31): %+v", cs)
	}
	wantSecret, wantR, rerr := ref.NUT13Pair(seed, cs.KeysetID, cs.Counter)
	path, _ := ref.NUT13KeysetPath(cs.KeysetID)
	wantNode, _, rerr2 := ref.DerivePath(seed, path)
	if rerr != nil || rerr2 != nil {
		return nil, info // invalid BIP32 child (2^-127)
	}
	kid, _ := ref.KeysetIDInt(cs.KeysetID)
	in := fmt.Sprintf("seed=%s (%s) keyset_id=%s (keyset_id_int=%d) counter=%d", cs.SeedHex, cs.SeedName, cs.KeysetID, kid, cs.Counter)
	if wantSecret[:2] == "00" {
		info.leadingZero++
	}
	if ref.Bytes32(wantR)[0] == 0 {
		info.leadingZero++
	}

	var fs []c11Finding
	var kp *hdkeychain.ExtendedKey
	var ierr error
	p := c11Guard(func() {
		master, err := hdkeychain.NewMaster(seed, &chaincfg.MainNetParams)
		if err != nil {
			ierr = fmt.Errorf("hdkeychain.NewMaster: %v", err)
			return
		}
		kp, ierr = nut13.DeriveKeysetPath(master, cs.KeysetID)
	})
	if p != "" {
		return []c11Finding{{"C11/nut13/keysetpath-panic", fmt.Sprintf("nut13.DeriveKeysetPath panicked: %s; %s", p, in)}}, info
	}
	if ierr != nil || kp == nil {
		return []c11Finding{{"C11/nut13/keysetpath-error", fmt.Sprintf("nut13.DeriveKeysetPath failed: %v; %s; NUT-13 defines m/129372'/0'/%d'", ierr, in, kid)}}, info
	}
	// the keyset node itself
	var nodeKey []byte
	p = c11Guard(func() {
		pk, err := kp.ECPrivKey()
		if err != nil {
			ierr = err
			return
		}
		nodeKey = pk.Serialize()
	})
	if p != "" || ierr != nil {
		fs = append(fs, c11Finding{"C11/nut13/keysetpath-error", fmt.Sprintf("private key of DeriveKeysetPath result unavailable (%v %s); %s", ierr, p, in)})
	} else {
		info.comparisons++
		if !bytes.Equal(nodeKey, ref.Bytes32(wantNode)) {
			fs = append(fs, c11Finding{"C11/nut13/keysetpath-mismatch", fmt.Sprintf("%s: key at m/129372'/0'/%d' expected %x, nut13.DeriveKeysetPath gives %x",
				in, kid, ref.Bytes32(wantNode), nodeKey)})
		}
	}
	// secret
	var gotSecret string
	ierr = nil
	p = c11Guard(func() { gotSecret, ierr = nut13.DeriveSecret(kp, cs.Counter) })
	switch {
	case p != "":
		fs = append(fs, c11Finding{"C11/nut13/secret-panic", fmt.Sprintf("nut13.DeriveSecret panicked: %s; %s; NUT-13 defines %s", p, in, wantSecret)})
	case ierr != nil:
		fs = append(fs, c11Finding{"C11/nut13/secret-error", fmt.Sprintf("nut13.DeriveSecret failed: %v; %s; NUT-13 defines %s", ierr, in, wantSecret)})
	default:
		info.comparisons++
		if gotSecret != wantSecret {
			fs = append(fs, c11Finding{"C11/nut13/secret-mismatch", fmt.Sprintf("%s: secret (path …/%d'/0) expected %s, nut13.DeriveSecret returned %s", in, cs.Counter, wantSecret, gotSecret)})
		}
	}
	// blinding factor
	var gotR []byte
	ierr = nil
	p = c11Guard(func() {
		var r *secp256k1.PrivateKey
		r, ierr = nut13.DeriveBlindingFactor(kp, cs.Counter)
		if ierr == nil {
			gotR = r.Serialize()
		}
	})
	switch {
	case p != "":
		fs = append(fs, c11Finding{"C11/nut13/r-panic", fmt.Sprintf("nut13.DeriveBlindingFactor panicked: %s; %s; NUT-13 defines %x", p, in, ref.Bytes32(wantR))})
	case ierr != nil:
		fs = append(fs, c11Finding{"C11/nut13/r-error", fmt.Sprintf("nut13.DeriveBlindingFactor failed: %v; %s; NUT-13 defines %x", ierr, in, ref.Bytes32(wantR))})
	default:
		info.comparisons++
		if !bytes.Equal(gotR, ref.Bytes32(wantR)) {
			fs = append(fs, c11Finding{"C11/nut13/r-mismatch", fmt.Sprintf("%s: blinding factor (path …/%d'/1) expected %x, nut13.DeriveBlindingFactor returned %x", in, cs.Counter, ref.Bytes32(wantR), gotR)})
		}
	}
	info.summary = fmt.Sprintf("secret=%s r=%x", wantSecret, ref.Bytes32(wantR))
	return fs, info
}

// ---------------------------------------------------------------- wallet P2PK key m/129372'/0'/1'/0

func c11EvalP2PK(cs c11Case) ([]c11Finding, c11Info) {
	seed := c11Seed(cs)
	info := c11Info{distinct: "p2pk/" + cs.SeedHex, h2cCounter: -1}
	want, rerr := ref.WalletP2PKPriv(seed)
	if rerr != nil {
		return nil, info
	}
	if ref.Bytes32(want)[0] == 0 {
		info.leadingZero++
	}
	in := fmt.Sprintf("seed=%s (%s)", cs.SeedHex, cs.SeedName)
	var got, gotPub []byte
	var ierr error
	p := c11Guard(func() {
		master, err := hdkeychain.NewMaster(seed, &chaincfg.MainNetParams)
		if err != nil {
			ierr = fmt.Errorf("hdkeychain.NewMaster: %v", err)
			return
		}
		k, err := wallet.DeriveP2PK(master)
		if err != nil {
			ierr = err
			return
		}
		got = k.Serialize()
		gotPub = k.PubKey().SerializeCompressed()
	})
	if p != "" {
		return []c11Finding{{"C11/p2pk/panic", fmt.Sprintf("wallet.DeriveP2PK panicked: %s; %s", p, in)}}, info
	}
	if ierr != nil {
		return []c11Finding{{"C11/p2pk/error", fmt.Sprintf("wallet.DeriveP2PK failed: %v; %s; m/129372'/0'/1'/0 is %x", ierr, in, ref.Bytes32(want))}}, info
	}
	info.comparisons = 2
	info.summary = hex.EncodeToString(gotPub)
	var fs []c11Finding
	if !bytes.Equal(got, ref.Bytes32(want)) {
		fs = append(fs, c11Finding{"C11/p2pk/mismatch", fmt.Sprintf("%s: key at m/129372'/0'/1'/0 expected %x, wallet.DeriveP2PK returned %x", in, ref.Bytes32(want), got)})
	}
	if wp := ref.ScalarBaseMult(want).SerializeCompressed(); !bytes.Equal(gotPub, wp) {
		fs = append(fs, c11Finding{"C11/p2pk/pub-mismatch", fmt.Sprintf("%s: public key expected %x, got %x", in, wp, gotPub)})
	}
	return fs, info
}

// ---------------------------------------------------------------- BIP39 mnemonic -> seed (the wallet's NUT-13 root)

func c11EvalBIP39(cs c11Case) ([]c11Finding, c11Info) {
	info := c11Info{distinct: "bip39/" + cs.Mnemonic, h2cCounter: -1}
	want := ref.MnemonicToSeed(cs.Mnemonic, "")
	var got []byte
	if p := c11Guard(func() { got = bip39.NewSeed(cs.Mnemonic, "") }); p != "" {
		return []c11Finding{{"C11/bip39/panic", fmt.Sprintf("bip39.NewSeed(%q) panicked: %s", cs.Mnemonic, p)}}, info
	}
	info.comparisons = 1
	info.summary = hex.EncodeToString(want)
	if !bytes.Equal(got, want) {
		return []c11Finding{{"C11/bip39/seed-mismatch", fmt.Sprintf("mnemonic %q: BIP39 seed expected %x (PBKDF2-HMAC-SHA512, 2048 rounds), the wallet's bip39.NewSeed gives %x", cs.Mnemonic, want, got)}}, info
	}
	return nil, info
}

// ---------------------------------------------------------------- alphabets

var c11Mnemonics = []string{
	ref.SpecMnemonic, // NUT-13 test vector
	"abandon abandon abandon abandon abandon abandon abandon abandon abandon abandon abandon about",
	"legal winner thank year wave sausage worth useful legal winner thank yellow",
}

var c11KeysetIDs = []string{
	ref.SpecKeysetID,   // NUT-13 test vector
	"0000000000000000", // 0
	"000000007fffffff", // 2^31-1, = 0 mod 2^31-1
	"0000000080000000", // 2^31, = 1
	"00000000fffffffe", // 2*(2^31-1), = 0
	"00ffffffffffffff",
	"8000000000000000", // sign bit of an int64
	"ffffffffffffffff",
	"0000000100000005", // 2^32+5: residue 7, low 31 bits 5
	"ff9a1f293253e41e", // top bit set (a signed 64-bit reduction gives a different residue)
}

var c11Counters = []uint32{0, 1, 2, 3, 4, 255, 256, 65535, 65536, 1 << 24, 1<<31 - 2, 1<<31 - 1}

var c11MintIdx = []uint32{0, 1, 2, 255, 1<<31 - 1}

type c11NamedSeed struct {
	name string
	seed []byte
}

// c11EdgeSeed returns the first seed of the deterministic sequence SHA256("verif/C11/edge-seed/"+i), i = 0,1,2,…
// for which the private key at `path` has a leading zero byte (so that ser256 must left-pad it when it is the
// parent of a hardened child — the classic BIP32 implementation bug).
func c11EdgeSeed(path []uint32) ([]byte, int) {
	for i := 0; i < 1<<20; i++ {
		s := sha256.Sum256([]byte("verif/C11/edge-seed/" + strconv.Itoa(i)))
		k, _, err := ref.DerivePath(s[:], path)
		if err != nil {
			continue
		}
		if ref.Bytes32(k)[0] == 0 {
			return s[:], i
		}
	}
	rt.HarnessError("C11: no edge seed found")
	return nil, 0
}

func c11Seeds() (mnemonicSeeds, rawSeeds, edgeSeeds []c11NamedSeed) {
	for i, m := range c11Mnemonics {
		mnemonicSeeds = append(mnemonicSeeds, c11NamedSeed{fmt.Sprintf("bip39 seed of mnemonic #%d %q", i, m), ref.MnemonicToSeed(m, "")})
	}
	tv1, _ := hex.DecodeString("000102030405060708090a0b0c0d0e0f")
	rawSeeds = []c11NamedSeed{
		{"BIP32 test vector 1 seed (16 bytes)", tv1},
		{"32 bytes ff", bytes.Repeat([]byte{0xff}, 32)},
	}
	specKid, _ := ref.KeysetIDInt(ref.SpecKeysetID)
	H := ref.Hardened
	for _, e := range []struct {
		name string
		path []uint32
	}{
		{"master key m", nil},
		{"m/129372'/0'", []uint32{H + ref.NUT13Purpose, H}},
		{"m/129372'/0'/864559728' (spec keyset node)", []uint32{H + ref.NUT13Purpose, H, H + specKid}},
		{"m/129372'/0'/864559728'/0' (counter node)", []uint32{H + ref.NUT13Purpose, H, H + specKid, H}},
		{"m/0'/0'", []uint32{H, H}},
		{"m/0'/0'/0' (mint keyset node)", []uint32{H, H, H}},
	} {
		s, i := c11EdgeSeed(e.path)
		edgeSeeds = append(edgeSeeds, c11NamedSeed{fmt.Sprintf("edge seed #%d: private key at %s has a leading 00 byte", i, e.name), s})
	}
	return
}

// c11Order returns the insertion order variant v (0 ascending as given, 1 reversed, 2 stride permutation) of 0..n-1.
func c11Order(n, v int) []int {
	out := make([]int, n)
	switch v {
	case 0:
		for i := range out {
			out[i] = i
		}
	case 1:
		for i := range out {
			out[i] = n - 1 - i
		}
	default:
		stride := 1
		for _, s := range []int{7, 11, 13, 17} {
			if n%s != 0 && c11gcd(n, s) == 1 {
				stride = s
				break
			}
		}
		for i := range out {
			out[i] = (i*stride + n/2) % n
		}
	}
	return out
}

func c11gcd(a, b int) int {
	for b != 0 {
		a, b = b, a%b
	}
	return a
}

func c11KeysetIDCases(mnemonicSeeds []c11NamedSeed) []c11Case {
	var out []c11Case
	add := func(name string, amounts []uint64, keys [][]byte) {
		for v := 0; v < 3; v++ {
			ord := c11Order(len(amounts), v)
			cs := c11Case{Kind: "keysetid", SetName: fmt.Sprintf("%s / insertion order %d", name, v)}
			for _, j := range ord {
				cs.Amounts = append(cs.Amounts, amounts[j])
				cs.KeysHex = append(cs.KeysHex, hex.EncodeToString(keys[j]))
			}
			out = append(out, cs)
		}
	}
	// 60-key public sets of 3 seeds x 3 indices (reference derivation m/0'/0'/idx'/i')
	idxs := []uint32{0, 1, 2}
	pubSets := make([]map[uint64][]byte, len(mnemonicSeeds)*len(idxs))
	rt.ParallelFor(len(pubSets), func(i int) {
		pubSets[i] = ref.MintKeysetPubs(mnemonicSeeds[i/len(idxs)].seed, idxs[i%len(idxs)])
	})
	for si := range mnemonicSeeds {
		for ii, idx := range idxs {
			pubs := pubSets[si*len(idxs)+ii]
			if len(pubs) != ref.MintMaxOrder {
				rt.HarnessError("C11: reference mint keyset derivation failed for seed #%d idx %d", si, idx)
			}
			var amounts []uint64
			var keys [][]byte
			for i := 0; i < ref.MintMaxOrder; i++ {
				amounts = append(amounts, uint64(1)<<uint(i))
				keys = append(keys, pubs[uint64(1)<<uint(i)])
			}
			add(fmt.Sprintf("mint keyset seed#%d idx %d", si, idx), amounts, keys)
		}
	}
	// pinned vectors
	for vi, v := range ref.KeysetIDVectors {
		var amounts []uint64
		for a := range v.Keys {
			amounts = append(amounts, a)
		}
		sort.Slice(amounts, func(i, j int) bool { return amounts[i] < amounts[j] })
		var keys [][]byte
		for _, a := range amounts {
			b, _ := hex.DecodeString(v.Keys[a])
			keys = append(keys, b)
		}
		add(fmt.Sprintf("pinned vector %d", vi), amounts, keys)
	}
	// synthetic amount sets; key j is (j+1)*G ("asc") or (n-j)*G ("desc": key order opposite to amount order)
	pow := func(n int) []uint64 {
		var a []uint64
		for i := 0; i < n; i++ {
			a = append(a, uint64(1)<<uint(i))
		}
		return a
	}
	seq := func(n int) []uint64 {
		var a []uint64
		for i := 1; i <= n; i++ {
			a = append(a, uint64(i))
		}
		return a
	}
	gmul := map[int][]byte{}
	kG := func(k int) []byte {
		if b, ok := gmul[k]; ok {
			return b
		}
		b := ref.ScalarBaseMult(big.NewInt(int64(k))).SerializeCompressed()
		gmul[k] = b
		return b
	}
	for _, set := range []struct {
		name    string
		amounts []uint64
	}{
		{"{1,2,10} numeric vs lexicographic", []uint64{1, 2, 10}},
		{"{2,1}", []uint64{2, 1}},
		{"{1} one key", []uint64{1}},
		{"{2^0..2^63} 64 keys", pow(64)},
		{"{1..64} 64 keys", seq(64)},
		{"{9,10,11,99,100,101}", []uint64{9, 10, 11, 99, 100, 101}},
		{"{1,2^63-1,2^63,2^64-1} signed comparison", []uint64{1, 1<<63 - 1, 1 << 63, 1<<64 - 1}},
		{"{2,3,5,7,11,13,100,1000,10000}", []uint64{2, 3, 5, 7, 11, 13, 100, 1000, 10000}},
	} {
		n := len(set.amounts)
		var asc, desc [][]byte
		for j := 0; j < n; j++ {
			asc = append(asc, kG(j+1))
			desc = append(desc, kG(n-j))
		}
		add(set.name+" keys asc", set.amounts, asc)
		if n > 1 {
			add(set.name+" keys desc", set.amounts, desc)
		}
	}
	return out
}

func c11H2CMessages(quick bool) [][]byte {
	var msgs [][]byte
	alpha := []byte{0x00, 0x01, 0x7f, 0x80, 0xff}
	msgs = append(msgs, []byte{})
	for _, a := range alpha {
		msgs = append(msgs, []byte{a})
	}
	for _, a := range alpha {
		for _, b := range alpha {
			msgs = append(msgs, []byte{a, b})
		}
	}
	nDec := 4096
	if !quick {
		nDec = 1 << 18
	}
	for i := 0; i < nDec; i++ {
		msgs = append(msgs, []byte(strconv.Itoa(i)))
	}
	for _, l := range []int{31, 32, 33, 55, 56, 63, 64, 65, 119, 120, 512, 513} {
		for _, fill := range []byte{0x00, 0xff} {
			msgs = append(msgs, bytes.Repeat([]byte{fill}, l))
		}
	}
	for _, v := range ref.H2CVectors { // pinned vectors (32-byte messages 00…00, 00…01, 00…02)
		b, _ := hex.DecodeString(v.MsgHex)
		msgs = append(msgs, b)
	}
	msgs = append(msgs, []byte("test_message"))
	// messages that need many counter iterations (found by cmd/h2csearch, a search over "verif-h2c-<i>"; about one
	// message in 2^k needs k iterations): 17 to 20 — the run asserts that the reference really iterates that often
	for _, m := range c11ManyIterations {
		msgs = append(msgs, []byte(m.msg))
	}
	return msgs
}

var c11ManyIterations = []struct {
	msg  string
	iter uint32
}{
	{"verif-h2c-20431", 17}, {"verif-h2c-382169", 17}, {"verif-h2c-511860", 19}, {"verif-h2c-861961", 18}, {"verif-h2c-990424", 18},
	{"verif-h2c-1011450", 18}, {"verif-h2c-1030646", 18}, {"verif-h2c-1128831", 17}, {"verif-h2c-1448310", 18}, {"verif-h2c-1501387", 17},
	{"verif-h2c-1695570", 20}, {"verif-h2c-1792573", 17},
}

// ---------------------------------------------------------------- run

func runC11(c *rt.Ctx) {
	if err := ref.SelfTest(); err != nil {
		rt.HarnessError("C11: reference implementation failed its self-validation: %v", err)
	}
	defer debug.SetGCPercent(debug.SetGCPercent(800)) // math/big allocates a lot, the live heap is tiny
	quick := c.Quick()
	mnemonicSeeds, rawSeeds, edgeSeeds := c11Seeds()
	allSeeds := append(append(append([]c11NamedSeed{}, mnemonicSeeds...), rawSeeds...), edgeSeeds...)

	var cases []c11Case
	sizes := map[string]any{}

	h2c := c11H2CMessages(quick)
	for _, m := range h2c {
		cases = append(cases, c11Case{Kind: "h2c", MsgHex: hex.EncodeToString(m)})
	}
	sizes["h2c_messages"] = len(h2c)

	for _, m := range c11Mnemonics {
		cases = append(cases, c11Case{Kind: "bip39", Mnemonic: m})
	}
	sizes["bip39_mnemonics"] = len(c11Mnemonics)

	kc := c11KeysetIDCases(mnemonicSeeds)
	cases = append(cases, kc...)
	sizes["keysetid_cases (key sets x 3 insertion orders)"] = len(kc)

	for _, s := range allSeeds {
		for _, idx := range c11MintIdx {
			cases = append(cases, c11Case{Kind: "mintkeys", SeedHex: hex.EncodeToString(s.seed), SeedName: s.name, Idx: idx})
		}
	}
	sizes["mintkeys_cases (seeds x idx, 60 keys each)"] = len(allSeeds) * len(c11MintIdx)
	sizes["seeds"] = len(allSeeds)
	sizes["mint_idx"] = c11MintIdx

	n13 := 0
	for _, s := range allSeeds {
		for _, id := range c11KeysetIDs {
			for _, ctr := range c11Counters {
				cases = append(cases, c11Case{Kind: "nut13", SeedHex: hex.EncodeToString(s.seed), SeedName: s.name, KeysetID: id, Counter: ctr})
				n13++
			}
		}
	}
	if !quick {
		// thorough: a contiguous counter range as well (every counter a wallet uses early in its life)
		for _, s := range mnemonicSeeds {
			for _, id := range c11KeysetIDs[:2] {
				for ctr := uint32(5); ctr < 4096; ctr++ {
					cases = append(cases, c11Case{Kind: "nut13", SeedHex: hex.EncodeToString(s.seed), SeedName: s.name, KeysetID: id, Counter: ctr})
					n13++
				}
			}
		}
	}
	sizes["nut13_cases (seeds x keyset ids x counters)"] = n13
	sizes["nut13_keyset_ids"] = c11KeysetIDs
	sizes["nut13_counters"] = c11Counters

	for _, s := range allSeeds {
		cases = append(cases, c11Case{Kind: "p2pk", SeedHex: hex.EncodeToString(s.seed), SeedName: s.name})
	}
	sizes["p2pk_cases"] = len(allSeeds)

	type result struct {
		done bool
		fs   []c11Finding
		info c11Info
	}
	res := make([]result, len(cases))
	rt.ParallelFor(len(cases), func(i int) {
		if c.Expired() {
			return
		}
		fs, info := c11Eval(cases[i])
		res[i] = result{true, fs, info}
	})

	hist := map[int]int{}
	perKind := map[string]int{}
	perKindDistinct := map[string]int{}
	var comparisons, leading int64
	sampled := map[string]int{}
	for i, r := range res {
		if !r.done {
			continue
		}
		cs := cases[i]
		c.Count("evaluations", 1)
		perKind[cs.Kind]++
		if c.Distinct(r.info.distinct) {
			perKindDistinct[cs.Kind]++
		}
		comparisons += int64(r.info.comparisons)
		leading += int64(r.info.leadingZero)
		if r.info.h2cCounter >= 0 {
			hist[r.info.h2cCounter]++
		}
		for _, f := range r.fs {
			c.Violate(f.Key, f.What, cs)
		}
		// samples: the first two cases of each kind, plus the first h2c case needing >= 4 iterations
		want := sampled[cs.Kind] < 2 || (cs.Kind == "h2c" && r.info.h2cCounter >= 4 && sampled["h2c-deep"] == 0)
		if want {
			if cs.Kind == "h2c" && sampled[cs.Kind] >= 2 {
				sampled["h2c-deep"]++
			}
			sampled[cs.Kind]++
			s := map[string]any{"case": c11Trim(cs), "reference_output": r.info.summary, "agrees": len(r.fs) == 0}
			if r.info.h2cCounter >= 0 {
				s["h2c_counter"] = r.info.h2cCounter
			}
			c.Sample(s)
		}
	}
	hs := map[string]int{}
	maxCtr, ge1 := 0, 0
	for k, v := range hist {
		hs[strconv.Itoa(k)] = v
		if k > maxCtr {
			maxCtr = k
		}
		if k >= 1 {
			ge1 += v
		}
	}
	c.Cov["h2c_counter_histogram"] = hs
	c.Cov["h2c_max_counter"] = maxCtr
	c.Cov["h2c_messages_needing_more_than_one_iteration"] = ge1
	c.Cov["cases_per_kind"] = perKind
	c.Cov["distinct_per_kind"] = perKindDistinct
	c.Cov["bit_for_bit_comparisons"] = comparisons
	c.Cov["derived_32_byte_outputs_with_leading_zero_byte"] = leading
	c.Cov["alphabet_sizes"] = sizes
	var seedNames []string
	for _, s := range allSeeds {
		seedNames = append(seedNames, s.name+" = "+hex.EncodeToString(s.seed))
	}
	c.Cov["seeds"] = seedNames
	c.Cov["rule"] = "Cases are the full Cartesian products of explicit finite alphabets (nested loops, no randomness): " +
		"hash_to_curve messages (all byte strings of length 0..2 over {00,01,7f,80,ff}; decimal strings \"0\"..\"4095\" (quick) / \"262143\" (thorough); " +
		"lengths {31,32,33,55,56,63,64,65,119,120,512,513} of fill bytes 00 and ff; the pinned vectors); key sets for the keyset id " +
		"(60-key sets of 3 seeds x 3 indices, pinned vectors, synthetic amount sets, each in 3 map-insertion orders and through the PublicKeys JSON round trip); " +
		"mint keyset derivation seeds x idx {0,1,2,255,2^31-1} (60 private keys, 60 public keys, id); NUT-13 seeds x keyset ids x counters (keyset node, secret, r; thorough adds the contiguous counters 5..4095 for 3 seeds x 2 ids); " +
		"wallet P2PK key per seed; BIP39 seed per mnemonic. Each case is computed by the repository's function and by the independent reference (package ref) " +
		"and compared bit for bit. A case is distinct by its canonical input tuple (key sets are canonicalised by sorting, so the 3 insertion orders of one set count once); " +
		"every distinct case is non-trivial in the sense that the specification defines a value for it and the reference produced one. " +
		"exhaustive:true means this alphabet was enumerated completely, not the 2^256-sized domain."
	c.Assume("package ref (math/big secp256k1, hand-written BIP32/PBKDF2, NUT-00/02/13 from the spec texts) is correct; it is validated at start-up against the vectors pinned in /repo's tests, BIP32 test vector 1 and NUT-00's third hash_to_curve vector")
	c.Assume("hdkeychain.NewMaster / bip39.NewSeed are part of the implementation under test (the mint and the wallet call them), not of the oracle")
}

// c11Trim shortens a case for the evidence samples (key sets are long).
func c11Trim(cs c11Case) c11Case {
	if len(cs.KeysHex) > 4 {
		cs.KeysHex = append(append([]string{}, cs.KeysHex[:3]...), fmt.Sprintf("… %d more", len(cs.KeysHex)-3))
		cs.Amounts = append([]uint64{}, cs.Amounts[:3]...)
	}
	return cs
}

func replayC11(path string) int {
	if err := ref.SelfTest(); err != nil {
		rt.HarnessError("C11: reference implementation failed its self-validation: %v", err)
	}
	b, err := os.ReadFile(path)
	if err != nil {
		fmt.Println("cannot read replay file:", err)
		return 2
	}
	var v struct {
		Property string  `json:"property"`
		Key      string  `json:"key"`
		What     string  `json:"what"`
		Replay   c11Case `json:"replay"`
	}
	if err := json.Unmarshal(b, &v); err != nil {
		fmt.Println("cannot parse replay file:", err)
		return 2
	}
	fmt.Printf("replaying C11 case kind=%s (recorded key %s)\n", v.Replay.Kind, v.Key)
	fs, info := c11Eval(v.Replay)
	fmt.Printf("  reference output: %s\n", info.summary)
	if len(fs) == 0 {
		fmt.Println("  implementation agrees with the reference: no violation")
		return 0
	}
	for _, f := range fs {
		fmt.Printf("VIOLATION property=C11 key=%s\n  %s\n", f.Key, f.What)
	}
	return 1
}
