package props

import (
	"verif/harness/bfs"
	"verif/harness/mintops"
	"verif/harness/rt"
)

// C10, history part: every signature the mint emits in a mint / swap / rotation / restart search (the C15 alphabet)
// is verified on the fly against the PUBLISHED key with nut12.VerifyBlindSignatureDLEQ and, unblinded with r, with
// nut12.VerifyProofDLEQ (mintops.recordSigs); restored signatures are compared with the originals by C15's probe.

func c10HistSpecs(quick bool) []*bfs.Spec {
	d := 2
	if !quick {
		d = 4
	}
	sfx := map[bool]string{true: "-q", false: ""}[quick]
	return []*bfs.Spec{{Prop: "C10", Name: "C10-history" + sfx, Cfg: mintops.Config{Fee: 0}, Init: []string{"fund|8,4,2,1"}, Menu: c15Menu, Depth: d}}
}

var c10HistAll = specMap(c10HistSpecs(true), c10HistSpecs(false))

func init() {
	p := Registry["C10"]
	enum := p.Run
	p.Run = func(c *rt.Ctx) {
		enum(c)
		c.Cov["rule_history"] = "history part: E3 over the C15 alphabet (mint, swap, melt, internal settlement, rotation, restart) up to the depth bound; every signature returned by the mint is verified against the published key of its keyset and amount (blind-signature DLEQ and proof DLEQ with r)"
		runSpecs(c, c10HistSpecs(c.Quick()))
	}
	p.Worker = bfs.Worker(c10HistAll)
	enumReplay := p.Replay
	p.Replay = func(path string) int {
		if code := bfs.ReplayFile("C10", c10HistAll, path); code != 2 {
			return code
		}
		return enumReplay(path)
	}
}
