package props

import (
	"encoding/hex"
	"encoding/json"
	"fmt"
	"os"
	"strconv"
	"verif/harness/wworld"

	"github.com/elnosh/gonuts/cashu"
	"github.com/elnosh/gonuts/cashu/nuts/nut12"

	"verif/harness/bfs"
	"verif/harness/mintops"
	"verif/harness/rt"
	"verif/harness/world"
)

// C10, history part: every signature the mint emits in a mint / swap / rotation / restart search (the C15 alphabet)
// is verified on the fly against the PUBLISHED key with nut12.VerifyBlindSignatureDLEQ and, unblinded with r, with
// nut12.VerifyProofDLEQ (mintops.recordSigs); restored signatures are compared with the originals by C15's probe.

// c10HTTPProbe: what a wallet actually receives over HTTP must verify against the B_ it actually sent: a mint request
// and a second request for the same quote with other outputs, a swap and a second swap of the same inputs with other
// outputs; every 200 answer's signatures are checked with nut12.VerifyBlindSignatureDLEQ under the published key.
func c10HTTPProbe(w *mintops.W) {
	x := &c20{w: w}
	r := x.call("GET", "/v1/keysets", "\x00nobody")
	if l, _ := r.obj["keysets"].([]any); r.code == 200 {
		for _, e := range l {
			if k, _ := e.(map[string]any); k != nil {
				if a, _ := k["active"].(bool); a {
					x.act, _ = k["id"].(string)
					if f, ok := k["input_fee_ppk"].(json.Number); ok {
						x.ppk, _ = strconv.ParseUint(f.String(), 10, 64)
					}
				}
			}
		}
	}
	if x.act == "" {
		return
	}
	keys := w.M.Keys(x.act)
	verify := func(where string, r resp, outs []world.Out) cashu.BlindedSignatures {
		if r.code != 200 || r.obj == nil {
			return nil
		}
		var body struct {
			Signatures cashu.BlindedSignatures `json:"signatures"`
		}
		if json.Unmarshal([]byte(r.raw), &body) != nil || len(body.Signatures) != len(outs) {
			w.Viol("C10", "http/"+where+"/signature-count", "%s: %d signatures for %d outputs", where, len(body.Signatures), len(outs))
			return nil
		}
		for i, sg := range body.Signatures {
			K := keys[sg.Amount]
			if K == nil || sg.DLEQ == nil || !nut12.VerifyBlindSignatureDLEQ(*sg.DLEQ, K, outs[i].Msg.B_, sg.C_) {
				w.Viol("C10", "http/"+where+"/dleq-invalid-for-sent-output", "%s: the signature returned for output %d does not verify (DLEQ) under the published key for the B_ that was sent", where, i)
				return nil
			}
		}
		return body.Signatures
	}
	qid, qh := x.mintQuote(8, "")
	if qid == "" || qh == "" {
		return
	}
	w.LN.Settle(qh)
	o1 := w.U.Outputs(x.act, 4, 4)
	o2 := w.U.Outputs(x.act, 4, 4)
	s1 := verify("mint", x.call("POST", "/v1/mint/bolt11", fmt.Sprintf(`{"quote":%q,"outputs":%s}`, qid, outsJSON(o1))), o1)
	verify("mint-again-other-outputs", x.call("POST", "/v1/mint/bolt11", fmt.Sprintf(`{"quote":%q,"outputs":%s}`, qid, outsJSON(o2))), o2)
	if s1 == nil {
		return
	}
	// restore: what comes back for a batch (every order, fully signed or with a never-signed output in it) must pair each
	// returned output with a signature that verifies for exactly that B_ and unblinds to a proof that verifies with its r
	never := w.U.Outputs(x.act, 2)
	for _, batch := range [][]world.Out{{o1[0], o1[1]}, {o1[1], o1[0]}, {o1[0], never[0], o1[1]}, {o1[1], o1[0], never[0]}, {o1[0]}} {
		r := x.call("POST", "/v1/restore", fmt.Sprintf(`{"outputs":%s}`, outsJSON(batch)))
		if r.code != 200 {
			continue
		}
		var body struct {
			Outputs    cashu.BlindedMessages   `json:"outputs"`
			Signatures cashu.BlindedSignatures `json:"signatures"`
		}
		if json.Unmarshal([]byte(r.raw), &body) != nil || len(body.Outputs) != len(body.Signatures) {
			w.Viol("C10", "http/restore/shape", "restore of %d outputs: %d outputs and %d signatures returned", len(batch), len(body.Outputs), len(body.Signatures))
			continue
		}
		for i, sg := range body.Signatures {
			K := keys[sg.Amount]
			if K == nil || sg.DLEQ == nil || !nut12.VerifyBlindSignatureDLEQ(*sg.DLEQ, K, body.Outputs[i].B_, sg.C_) {
				w.Viol("C10", "http/restore/dleq-invalid-for-paired-output", "restore of a batch of %d: the signature paired with returned output %d does not verify (DLEQ) under the published key for that B_", len(batch), i)
				break
			}
			for _, o := range batch {
				if o.Msg.B_ == body.Outputs[i].B_ {
					pr, err := world.Unblind(cashu.BlindedSignatures{sg}, []world.Out{o}, keys)
					if err == nil && len(pr) == 1 {
						pr[0].DLEQ = &cashu.DLEQProof{E: sg.DLEQ.E, S: sg.DLEQ.S, R: hex.EncodeToString(o.R.Serialize())}
					}
					if err != nil || len(pr) != 1 || !nut12.VerifyProofDLEQ(pr[0], K) {
						w.Viol("C10", "http/restore/unblinded-proof-invalid", "restore of a batch of %d: unblinding the signature paired with output %d with that output's r does not give a proof that verifies (%v)", len(batch), i, err)
					}
				}
			}
		}
	}
	ps, err := world.Unblind(s1, o1, keys)
	if err != nil {
		return
	}
	net := 4 - x.fee(1)
	if net == 0 {
		return
	}
	o3, o4 := x.outsFor(net), x.outsFor(net)
	verify("swap", x.call("POST", "/v1/swap", fmt.Sprintf(`{"inputs":%s,"outputs":%s}`, insJSON(ps[:1]), outsJSON(o3))), o3)
	verify("swap-again-other-outputs", x.call("POST", "/v1/swap", fmt.Sprintf(`{"inputs":%s,"outputs":%s}`, insJSON(ps[:1]), outsJSON(o4))), o4)
}

func c10HistSpecs(quick bool) []*bfs.Spec {
	d := 2
	if !quick {
		d = 4
	}
	sfx := map[bool]string{true: "-q", false: ""}[quick]
	return []*bfs.Spec{{Prop: "C10", Name: "C10-history" + sfx, Cfg: mintops.Config{Fee: 0}, Init: []string{"fund|8,4,2,1"}, Menu: c15Menu, Probe: c10HTTPProbe, Depth: d}}
}

var c10HistAll = specMap(c10HistSpecs(true), c10HistSpecs(false))

func c10WSpecs(quick bool) []*wSpec {
	d, sfx := 2, "-q"
	if !quick {
		d, sfx = 3, ""
	}
	return []*wSpec{
		{Prop: "C10", Name: "C10-wallet-crossmint-rotated" + sfx, Cfg: crossMintCfg, Init: crossMintRotatedInit, Menu: crossMintP2PKMenu, Depth: d, NoInvariants: true},
		// proofs that come back to the spendable bucket on every path (failed melt at once / after pending, reclaim, receive)
		{Prop: "C10", Name: "C10-wallet-returned-proofs" + sfx, Cfg: wworld.Config{FeeA: 0, Wallets: []wworld.WalletCfg{{Default: "a"}, {Default: "a"}}},
			Init: []string{"mint|0|16", "melt|0|4|F", "send|0|3|0", "reclaim|0", "send|0|5|0", "recv|1|0|0", "melt|0|4|P", "lnfinal|0|1|F", "checkmelt|0|1"},
			Menu: func(*wworld.World) []string { return nil }, Probe: func(w *wworld.World) { w.CheckStoredDLEQ() }, Depth: 0, NoInvariants: true},
		{Prop: "C10", Name: "C10-wallet-crossmint" + sfx, Cfg: crossMintCfg, Init: []string{"mint|2|16", "mint|0|8"}, Menu: crossMintP2PKMenu, Depth: d, NoInvariants: true},
	}
}

var c10WAll = wSpecMap(c10WSpecs(true), c10WSpecs(false))

func init() {
	p := Registry["C10"]
	enum := p.Run
	p.Run = func(c *rt.Ctx) {
		enum(c)
		c.Cov["rule_history"] = "history part: E3 over the C15 alphabet (mint, swap, melt, internal settlement, rotation, restart) up to the depth bound; every signature returned by the mint is verified against the published key of its keyset and amount (blind-signature DLEQ and proof DLEQ with r); in every state restore batches in every order (fully signed, with a never-signed output) must pair each returned B_ with a signature that verifies for it and unblinds with its r"
		runSpecs(c, c10HistSpecs(c.Quick()))
		c.Cov["rule_wallets"] = "wallet part: E3 on the wallet world over the cross-mint menu (plain and P2PK tokens of a second mint, received with and without swap to the trusted mint), from a state in which that mint rotated its keyset before the receiving wallet added it and the sender still holds ecash of the old keyset: a Receive that fails with 'invalid DLEQ' although every DLEQ proof of the token verifies under the published key of its own keyset is a violation (the proof a wallet attaches to a token is accepted by a third party)"
		runWSpecs(c, c10WSpecs(c.Quick()))
	}
	p.Worker = func(job json.RawMessage) (any, error) {
		var probe struct{ Spec string }
		json.Unmarshal(job, &probe)
		if _, ok := c10WAll[probe.Spec]; ok {
			return wWorker(c10WAll)(job)
		}
		return bfs.Worker(c10HistAll)(job)
	}
	enumReplay := p.Replay
	p.Replay = func(path string) int {
		if b, err := os.ReadFile(path); err == nil {
			var v struct{ Replay struct{ Spec string } }
			if json.Unmarshal(b, &v) == nil {
				if _, ok := c10WAll[v.Replay.Spec]; ok {
					return wReplay("C10", c10WAll, path)
				}
			}
		}
		if code := bfs.ReplayFile("C10", c10HistAll, path); code != 2 {
			return code
		}
		return enumReplay(path)
	}
}
