package props

import (
	"encoding/json"
	"errors"
	"fmt"
	"os"
	"strings"
	"time"

	"github.com/elnosh/gonuts/cashu"

	"verif/harness/bfs"
	"verif/harness/dbwrap"
	"verif/harness/lnmodel"
	"verif/harness/mintops"
	"verif/harness/rt"
)

// C07 — mint crash consistency (engine E2): for every operation and every boundary call k of it (MintDB and Lightning
// calls), crash before call k (k = n: after the last call, response lost) or inject a storage error at call k; restart
// on the same directory; durability pass; adversarial follow-up; value accounting.

type c07Scn struct {
	Name string
	Fee  uint
	Prep []string
	Op   string
	// Final is the Lightning ledger's final answer for the melt's payment, set after the crash (payments that were
	// answered Pending / error): "S" or "F"; "" = leave as answered
	Final string
	// PreLedger sets the ledger status of melt 0's payment before the operation (resolution scenarios)
	PreLedger string
}

func c07Scenarios() []c07Scn {
	base := []string{"fund|8,8"}
	busy := []string{"fund|8,8,8,8", "swap|3|exact", "meltq|4", "melt|0|2|P"} // a spent proof and a pending melt already present
	var s []c07Scn
	add := func(name string, prep []string, op, final, pre string) {
		s = append(s, c07Scn{Name: name, Prep: prep, Op: op, Final: final, PreLedger: pre})
	}
	paidQuote := func(p []string) []string { return append(append([]string{}, p...), "mq|8", "settle|1", "pollq|1") }
	add("mint", paidQuote(base), "mint|1|exact", "", "")
	add("mint-busy", paidQuote(busy), "mint|1|exact", "", "")
	add("mint-unpolled", append(append([]string{}, base...), "mq|8", "settle|1"), "mint|1|exact", "", "")
	add("swap", base, "swap|0|exact", "", "")
	add("swap-busy", busy, "swap|0|exact", "", "")
	add("swap-two-inputs", base, "swap|0,1|exact", "", "")
	mq := append(append([]string{}, base...), "meltq|4")
	add("melt-succeeded", mq, "melt|0|0|S", "", "")
	add("melt-pending-then-succeeded", mq, "melt|0|0|P", "S", "")
	add("melt-pending-then-failed", mq, "melt|0|0|P", "F", "")
	add("melt-failed-notfound", mq, "melt|0|0|F|N", "", "")
	add("melt-failed-failed", mq, "melt|0|0|F|F", "", "")
	add("melt-error-succeeded", mq, "melt|0|0|E|S", "", "")
	add("melt-error-error-then-succeeded", mq, "melt|0|0|E|E", "S", "")
	add("melt-busy", append(append([]string{}, busy...), "meltq|4"), "melt|1|0|S", "", "")
	add("melt-internal", append(append([]string{}, base...), "mq|8", "meltqi|1"), "melt|0|0|S", "", "")
	pend := append(append([]string{}, mq...), "melt|0|0|P")
	add("poll-resolves-succeeded", pend, "pollm|0|", "", "S")
	add("poll-resolves-failed", pend, "pollm|0|", "", "F")
	add("check-resolves-succeeded", pend, "check|0|", "", "S")
	add("check-resolves-failed", pend, "check|0|", "", "F")
	add("poll-lookup-error-then-succeeded", pend, "pollm|0|E", "S", "")
	add("poll-lookup-error-then-failed", pend, "pollm|0|E", "F", "")
	add("check-lookup-error-then-failed", pend, "check|0|E", "F", "")
	add("respend-of-locked-input-then-succeeded", pend, "swap|0|exact", "S", "")
	add("respend-of-spent-input", append(append([]string{}, base...), "swap|0|exact"), "swap|0|exact", "", "")
	add("pollq-unpaid-to-paid", append(append([]string{}, base...), "mq|8", "settle|1"), "pollq|1", "", "")
	// the invoice notification arrives after the quote was paid, polled and issued: the watcher's own reads / writes fail
	add("late-notification-after-issued", append(append([]string{}, base...), "mq|8", "settle|1", "mint|1|exact"), "fire|1", "", "")
	add("mintquote", base, "mq|8", "", "")
	add("meltquote", base, "meltq|4", "", "")
	add("rotate-runtime", base, "rotrt|100", "", "")
	// a second / third rotation: older keysets exist, the recovery of an interrupted rotation has a choice
	add("rotate-runtime-second", append(append([]string{}, base...), "rotrt|100"), "rotrt|200", "", "")
	add("rotate-runtime-third", append(append([]string{}, base...), "rotrt|100", "rotrt|0"), "rotrt|200", "", "")
	s = append(s, c07Scn{Name: "swap-fee100", Fee: 100, Prep: base, Op: "swap|0|exact"})
	s = append(s, c07Scn{Name: "melt-succeeded-fee100", Fee: 100, Prep: mq, Op: "melt|0|0|S"})
	return s
}

type c07Job struct {
	Scn  string
	K    int    // boundary call index before which the fault is injected; -1 = counting run
	Mode string // crash | error
	// generated scenarios (Scn == "gen"): reached state = Prep, interrupted operation = Op
	Fee   uint     `json:",omitempty"`
	Prep  []string `json:",omitempty"`
	Op    string   `json:",omitempty"`
	Final string   `json:",omitempty"`
}

type c07Res struct {
	Calls   []string // counting run: names of the boundary calls of the operation
	V       []rt.Violation
	Fault   string // the call the fault was injected before
	Outcome string
	Err     string
	Skipped bool
}

type crashSentinel struct{}

var errInjected = errors.New("verif: injected storage failure")

func c07Find(name string) *c07Scn {
	for _, s := range c07Scenarios() {
		if s.Name == name {
			s := s
			return &s
		}
	}
	return nil
}

func c07Exec(j c07Job) (res c07Res) {
	sc := c07Find(j.Scn)
	if j.Scn == "gen" {
		sc = &c07Scn{Name: "gen", Fee: j.Fee, Prep: j.Prep, Op: j.Op, Final: j.Final}
	}
	if sc == nil {
		return c07Res{Err: "unknown scenario " + j.Scn}
	}
	dir, _ := os.MkdirTemp(rt.ScratchRoot(), "c07-")
	defer os.RemoveAll(dir)
	w, err := mintops.New(dir, mintops.Config{Fee: sc.Fee})
	if err != nil {
		return c07Res{Err: err.Error()}
	}
	defer w.Close()
	for _, op := range sc.Prep {
		if err := w.Exec(op); err != nil {
			return c07Res{Err: fmt.Sprintf("prep %q: %v", op, err)}
		}
	}
	if len(w.V) > 0 {
		// what the fault-free set-up does wrong is for the transition oracles of the other properties' checks; the fault
		// enumeration goes on from the state reached (only a harness-level problem stops it)
		for _, v := range w.V {
			if v.Property == "HARNESS" {
				return c07Res{Err: "prep: " + v.What}
			}
		}
	}
	if sc.PreLedger != "" {
		p := w.LN.Payments[w.Melts[0].Hash]
		if sc.PreLedger == "S" {
			p.Status = lnmodel.Succeeded
		} else {
			p.Status = lnmodel.Failed
		}
	}
	me := dbwrap.GID()
	n := 0
	var calls []string
	occ := map[string]int{}
	crashed := false
	point := func(name string, isDB bool) error {
		background := dbwrap.GID() != me
		if background && !strings.HasPrefix(sc.Op, "fire") {
			return nil // background goroutines of the mint are not part of the operation
		}
		// ... unless the operation IS the mint's invoice watcher handling a notification ("fire"): its store calls are
		// the fault points; only storage errors are injected there (a panic in that goroutine would end the process)
		idx := n
		n++
		occ[name]++
		label := name
		if occ[name] > 1 {
			label = fmt.Sprintf("%s#%d", name, occ[name])
		}
		calls = append(calls, label)
		if j.K >= 0 && idx == j.K {
			res.Fault = label
			if j.Mode == "crash" && background {
				res.Skipped = true
				return nil
			}
			if j.Mode == "crash" {
				crashed = true
				panic(crashSentinel{})
			}
			if isDB {
				return errInjected
			}
			res.Skipped = true // error mode only injects storage errors
		}
		return nil
	}
	install := func() {
		w.M.DB.Before = func(c *dbwrap.Call) error {
			name := "db:" + c.Name
			switch c.Name {
			case "UpdateMeltQuote":
				name += fmt.Sprintf("(%v)", c.Args[2])
			case "UpdateMintQuoteState":
				name += fmt.Sprintf("(%v)", c.Args[1])
			case "UpdateKeysetActive":
				name += fmt.Sprintf("(%v)", c.Args[1])
			}
			return point(name, true)
		}
		w.LN.Hook = func(m, method string) { point("ln:"+method, false) }
	}
	remove := func() {
		w.M.DB.Before = nil
		w.LN.Hook = nil
	}
	// entities the operation touches
	unc := mintops.NewUncertain()
	f := strings.Split(sc.Op, "|")
	switch f[0] {
	case "swap":
		for _, i := range atoiList(f[1]) {
			unc.Proofs[i] = true
		}
	case "melt":
		unc.Melts[atoiList(f[1])[0]] = true
		for _, i := range atoiList(f[2]) {
			unc.Proofs[i] = true
		}
		if m := w.Melts[atoiList(f[1])[0]]; m.Internal >= 0 {
			unc.Quotes[m.Internal] = true
		}
	case "mint", "pollq":
		unc.Quotes[atoiList(f[1])[0]] = true
	case "pollm":
		mi := atoiList(f[1])[0]
		unc.Melts[mi] = true
		for _, i := range w.Melts[mi].Inputs {
			unc.Proofs[i] = true
		}
	case "check":
		for _, i := range atoiList(f[1]) {
			unc.Proofs[i] = true
			if p := w.Proofs[i]; p.Melt >= 0 {
				unc.Melts[p.Melt] = true
			}
		}
	}
	nOutsBefore := len(w.Outs)
	vBefore := len(w.V)
	install()
	func() {
		defer func() {
			if r := recover(); r != nil {
				if _, ok := r.(crashSentinel); !ok {
					remove()
					res.V = append(res.V, rt.Violation{Property: "C07,C06", Key: fmt.Sprintf("%s/%s-before:%s/panic", c07KindOfOp(w, sc.Op), j.Mode, res.Fault), What: fmt.Sprintf("operation %s panicked: %v", sc.Op, r)})
					crashed = true
				}
			}
		}()
		if err := w.Exec(sc.Op); err != nil {
			res.Err = err.Error()
		}
	}()
	remove()
	if res.Err != "" {
		return res
	}
	if j.K < 0 {
		// counting run: only the list of boundary calls is taken from it. What the operation does wrong without any
		// fault is for the transition oracles of the other properties; C07 judges the faulted runs with its own oracles
		// (a fault-free defect that matters here shows up in them, e.g. at k = n, response lost)
		res.Calls = calls
		for _, v := range w.V[vBefore:] {
			if v.Property == "HARNESS" {
				res.Err = v.What
			}
		}
		return res
	}
	if j.K > n || (j.K == n && j.Mode != "crash") {
		res.Skipped = true
		return res
	}
	if j.K == n {
		res.Fault = "response-lost"
		crashed = true // all calls done; the response never reaches the client
	}
	if res.Skipped {
		return res
	}
	for _, o := range w.Outs[nOutsBefore:] {
		unc.Outs[o.O.Msg.B_] = true
	}
	if j.Mode == "error" && !crashed && len(w.Obs) > 0 && strings.HasSuffix(w.Obs[len(w.Obs)-1], "-> ok") {
		// the operation answered with success despite the injected storage error: the client HAS the response, nothing
		// about it is uncertain, and the durability pass must hold for it too (returned signatures stored, inputs spent)
		unc = mintops.NewUncertain()
	}
	// violations raised by the interrupted / failed operation itself are not judged (the client got no answer or an error)
	w.V = w.V[:vBefore]
	kind := c07Kind(sc.Name)
	if sc.Name == "gen" {
		kind = c07KindOfOp(w, sc.Op)
	}
	where := fmt.Sprintf("%s/%s-before:%s", kind, j.Mode, res.Fault)
	seenKeys := map[string]bool{}
	tag := func(part string, from int) {
		for _, v := range w.V[from:] {
			if v.Property == "HARNESS" {
				res.Err = v.What
				continue
			}
			// the follow-up judges safety only (double spend, over-issuance, inflation); stranded value is judged by the
			// accounting below, so liveness-type oracles (honest request refused, state differs from model) are not repeated
			if part == "follow-up" && !(rt.HasProp(v.Property, "C01") || rt.HasProp(v.Property, "C02") || rt.HasProp(v.Property, "C03")) {
				continue
			}
			if part == "follow-up" && (strings.HasPrefix(v.Key, "honest-") || strings.HasPrefix(v.Key, "paid-quote-not-reported") || strings.Contains(v.Key, "store=PENDING") || strings.Contains(v.Key, "got=PENDING") || v.Key == "conservation") {
				continue // refused honest requests / inputs locked for good are stranded value (accounting), not a safety breach
			}
			if seenKeys[part+v.Key] {
				continue
			}
			seenKeys[part+v.Key] = true
			res.V = append(res.V, rt.Violation{Property: "C07", Key: where + "/" + part + "/" + v.Property + ":" + v.Key, What: fmt.Sprintf("[%s of %s, fault before %s] %s: %s", j.Mode, sc.Op, res.Fault, part, v.What)})
		}
	}
	if crashed || j.Mode == "crash" {
		// the process dies: abandon the instance, restart on the same directory
		if err := safeRestart(w, sc.Fee); err != nil {
			res.V = append(res.V, rt.Violation{Property: "C07", Key: where + "/restart-fails", What: fmt.Sprintf("after a crash of %s before %s the mint does not start any more: %v", sc.Op, res.Fault, err)})
			return res
		}
	}
	// durability: everything the client was told before the fault still holds (entities of the interrupted op excluded)
	w.Unc = unc
	from := len(w.V)
	w.Invariants()
	tag("durability", from)
	w.Unc = nil
	// "the keysets are unchanged": every keyset the client has seen before the fault is still served with the same
	// fee and keys (a keyset that a crashed rotation left behind is new to the client, not a change)
	listed := map[string]uint{}
	for _, k := range w.M.M.ListKeysets().Keysets {
		listed[k.Id] = k.InputFeePpk
	}
	// the keyset that signs after the fault is never one that had been rotated out before it: either the one that was
	// active, or a newer one (the interrupted rotation's)
	activeBefore := -1
	for _, seen := range w.Keysets {
		if seen.Active && seen.Idx > activeBefore {
			activeBefore = seen.Idx
		}
	}
	for _, k := range w.M.M.ListKeysets().Keysets {
		if !k.Active {
			continue
		}
		for _, seen := range w.Keysets {
			if seen.Id == k.Id && seen.Idx < activeBefore {
				res.V = append(res.V, rt.Violation{Property: "C07,C09", Key: where + "/safety/rotated-out-keyset-active-again", What: fmt.Sprintf("[%s of %s, fault before %s] keyset %d, rotated out before the fault (keyset %d was active), is the active keyset after it", j.Mode, sc.Op, res.Fault, seen.Idx, activeBefore)})
			}
		}
	}
	for _, seen := range w.Keysets {
		fee, ok := listed[seen.Id]
		if !ok {
			res.V = append(res.V, rt.Violation{Property: "C07,C09", Key: where + "/safety/keyset-gone", What: fmt.Sprintf("[%s of %s, fault before %s] keyset %d (%s) seen before the fault is not served after it", j.Mode, sc.Op, res.Fault, seen.Idx, seen.Id)})
			continue
		}
		if fee != seen.Fee {
			res.V = append(res.V, rt.Violation{Property: "C07,C09", Key: where + "/safety/keyset-fee-changed", What: fmt.Sprintf("[%s of %s, fault before %s] keyset %d was served with input_fee_ppk %d before the fault and %d after it", j.Mode, sc.Op, res.Fault, seen.Idx, seen.Fee, fee)})
		}
		if got, err := w.M.M.GetKeysetById(seen.Id); err != nil || len(got.Keys) != len(seen.Keys) {
			res.V = append(res.V, rt.Violation{Property: "C07,C09", Key: where + "/safety/keyset-keys-changed", What: fmt.Sprintf("[%s of %s, fault before %s] keyset %d: GetKeysetById after the fault: %v, %d keys (had %d)", j.Mode, sc.Op, res.Fault, seen.Idx, err, len(got.Keys), len(seen.Keys))})
		} else {
			for a, pk := range got.Keys {
				if old := seen.Keys[a]; old == nil || !old.IsEqual(pk) {
					res.V = append(res.V, rt.Violation{Property: "C07,C09", Key: where + "/safety/keyset-keys-changed", What: fmt.Sprintf("[%s of %s, fault before %s] keyset %d: the public key for amount %d differs after the fault", j.Mode, sc.Op, res.Fault, seen.Idx, a)})
					break
				}
			}
		}
	}
	// the client learns the truth by polls / state checks / restore
	if sc.Final != "" {
		for _, m := range w.Melts {
			if p := w.LN.Payments[m.Hash]; p != nil && p.Status == lnmodel.Pending {
				if sc.Final == "S" {
					p.Status = lnmodel.Succeeded
				} else {
					p.Status = lnmodel.Failed
				}
			}
		}
	}
	if err := w.Resync(); err != nil {
		res.Err = err.Error()
		return res
	}
	from = len(w.V)
	var follow []string
	for jx := range w.Melts {
		follow = append(follow, fmt.Sprintf("pollm|%d|", jx), fmt.Sprintf("pollm|%d|", jx))
	}
	for qi := range w.Quotes {
		if qi > 0 {
			follow = append(follow, fmt.Sprintf("pollq|%d", qi))
		}
	}
	all := ""
	for i := range w.Proofs {
		if i > 0 {
			all += ","
		}
		all += fmt.Sprint(i)
	}
	follow = append(follow, "check|"+all+"|")
	learned := len(follow) // the follow-up up to here only reads (polls, state check); what follows attacks
	// replay the interrupted request verbatim
	switch f[0] {
	case "swap":
		follow = append(follow, "swap|"+f[1]+"|same")
	case "mint":
		follow = append(follow, "mint|"+f[1]+"|same")
	case "melt":
		follow = append(follow, "melt|"+f[1]+"|"+f[2]+"|S")
	}
	// try to spend every input again, mint every quote again
	for i := range unc.Proofs {
		follow = append(follow, fmt.Sprintf("swap|%d|exact", i))
	}
	for qi := range w.Quotes {
		if qi > 0 {
			follow = append(follow, fmt.Sprintf("mint|%d|exact", qi), fmt.Sprintf("mint|%d|exact", qi))
		}
	}
	for jx := range w.Melts {
		follow = append(follow, fmt.Sprintf("pollm|%d|", jx))
	}
	follow = append(follow, "check|"+all+"|", "restart")
	meltInputs := func(mi int) []int {
		if f[0] == "melt" && atoiList(f[1])[0] == mi {
			return atoiList(f[2])
		}
		var ins []int
		for _, op := range sc.Prep {
			pf := strings.Split(op, "|")
			if pf[0] == "melt" && atoiList(pf[1])[0] == mi {
				ins = atoiList(pf[2])
			}
		}
		return ins
	}
	for fi, op := range follow {
		if fi == learned {
			// safety: "no secret is spendable that was already ... paid for" — once the mint's own records say a melt quote is
			// PAID, the inputs that paid for it must be SPENT (judged before the re-spend attempts below consume them)
			t, err := w.ReadTables()
			if err != nil {
				res.Err = err.Error()
				return res
			}
			for mi, m := range w.Melts {
				if t.MeltQ[m.Q.Id][0] != "PAID" {
					continue
				}
				for _, i := range meltInputs(mi) {
					_, spent := t.Spent[w.Proofs[i].Y]
					_, locked := t.Pending[w.Proofs[i].Y]
					if !spent && !locked {
						res.V = append(res.V, rt.Violation{Property: "C07,C05", Key: where + "/safety/paid-quote-inputs-spendable", What: fmt.Sprintf("[%s of %s, fault before %s] after restart and polls the mint reports melt quote mq%d PAID but its input p%d is neither SPENT nor locked (it can pay again)", j.Mode, sc.Op, res.Fault, mi, i)})
						break
					}
				}
			}
		}
		var err error
		if op == "restart" {
			if err = safeRestart(w, sc.Fee); err == nil {
				continue
			}
			res.V = append(res.V, rt.Violation{Property: "C07", Key: where + "/restart-fails", What: fmt.Sprintf("after %s of %s before %s and the follow-up, the mint does not start any more: %v", j.Mode, sc.Op, res.Fault, err)})
			return res
		}
		if err = w.Exec(op); err != nil {
			res.V = append(res.V, rt.Violation{Property: "C07", Key: where + "/follow-up-fails", What: fmt.Sprintf("follow-up %q after the fault: %v", op, err)})
			return res
		}
	}
	w.Invariants()
	tag("follow-up", from)
	// value accounting: what the client holds at the end must equal what it paid in minus what was really paid out
	unspent, pending, err := w.ClientValue()
	if err != nil {
		res.Err = err.Error()
		return res
	}
	exp := int64(w.LN.SumIn("a")) + int64(w.InternalSettled)
	t, _ := w.ReadTables()
	var burnt int64
	for mi, m := range w.Melts {
		paid := false
		if p := w.LN.Payments[m.Hash]; p != nil && p.Status == lnmodel.Succeeded {
			paid = true
		}
		if m.Internal >= 0 {
			st := t.MintQ[w.Quotes[m.Internal].Q.Id]
			if st != "UNPAID" && !w.LN.Invoices[m.Hash].Settled {
				paid = true
				if w.InternalSettled == 0 { // the interrupted op settled internally; the model did not see it
					exp += int64(w.Quotes[m.Internal].Q.Amount)
				}
			}
		}
		if paid {
			// inputs of that melt: the tracked proofs that are spent and were given to it (the op's inputs for the interrupted one)
			for _, i := range meltInputs(mi) {
				burnt += int64(w.Proofs[i].P.Amount)
			}
		}
	}
	// fees: what completed swaps gave up is known exactly from their answers; the interrupted swap may or may not have
	// taken effect, so its own fee is the only slack
	feeSlack := int64(0)
	if f[0] == "swap" {
		var ps cashu.Proofs
		for _, i := range atoiList(f[1]) {
			ps = append(ps, w.Proofs[i].P)
		}
		feeSlack = w.FeeFor(ps).Int64()
	}
	exp -= burnt + int64(w.SwapLoss)
	// inputs locked by a payment that is still in flight at the backend are legitimately locked
	var inflightLocked uint64
	for _, p := range w.Proofs {
		if _, ok := t.Pending[p.Y]; ok && p.Melt >= 0 {
			if lp := w.LN.Payments[w.Melts[p.Melt].Hash]; lp != nil && lp.Status == lnmodel.Pending {
				inflightLocked += p.P.Amount
			}
		}
	}
	unspent += inflightLocked
	pending -= inflightLocked
	res.Outcome = fmt.Sprintf("client=%d pending=%d expected=%d", unspent, pending, exp)
	if int64(unspent) > exp {
		res.V = append(res.V, rt.Violation{Property: "C07", Key: where + "/safety/value-created", What: fmt.Sprintf("[%s of %s, fault before %s] after restart and follow-up the client holds %d unspent (+%d locked) but only %d is backed (Lightning in %d + internal %d - inputs of paid melts %d): value was created", j.Mode, sc.Op, res.Fault, unspent, pending, exp, w.LN.SumIn("a"), w.InternalSettled, burnt)})
	}
	if int64(unspent) < exp-feeSlack {
		res.V = append(res.V, rt.Violation{Property: "C07", Key: where + "/atomicity/value-stranded", What: fmt.Sprintf("[%s of %s, fault before %s] after restart, polls, restore, replay and re-spend attempts the client can recover %d unspent (%d locked pending) of the %d it is owed (Lightning in %d + internal %d - inputs of paid melts %d): value is stranded", j.Mode, sc.Op, res.Fault, unspent, pending, exp, w.LN.SumIn("a"), w.InternalSettled, burnt)})
	}
	// a quote the mint reports PAID has consumed its inputs: after the whole follow-up (polls, state checks, restart) they
	// are SPENT — not locked for good (the state check would say PENDING for ever, C05 / C15)
	if tt, err := w.ReadTables(); err == nil {
		for mi, m := range w.Melts {
			if tt.MeltQ[m.Q.Id][0] != "PAID" {
				continue
			}
			for _, i := range meltInputs(mi) {
				if _, locked := tt.Pending[w.Proofs[i].Y]; locked {
					res.V = append(res.V, rt.Violation{Property: "C07,C05", Key: where + "/atomicity/paid-quote-inputs-stuck-pending", What: fmt.Sprintf("[%s of %s, fault before %s] after restart, polls and state checks melt quote mq%d is PAID but its input p%d is still locked (reported PENDING, never SPENT)", j.Mode, sc.Op, res.Fault, mi, i)})
					break
				}
			}
		}
	}
	// a paid invoice must be visible to the client as PAID with the preimage
	for mi, m := range w.Melts {
		if p := w.LN.Payments[m.Hash]; p != nil && p.Status == lnmodel.Succeeded {
			st := t.MeltQ[m.Q.Id]
			if st[0] != "PAID" || (st[1] != w.LN.Invoices[m.Hash].Preimage && !m.Partial) {
				res.V = append(res.V, rt.Violation{Property: "C07", Key: where + "/atomicity/paid-melt-not-reported-paid/" + st[0], What: fmt.Sprintf("[%s of %s, fault before %s] the invoice of mq%d was paid by the backend but after restart and polls the quote is %s (preimage %q)", j.Mode, sc.Op, res.Fault, mi, st[0], st[1])})
			}
		}
	}
	return res
}

// c07KindOfOp: the operation window class of an operation of the op language (same classes as c07Kind).
func c07KindOfOp(w *mintops.W, op string) string {
	f := strings.Split(op, "|")
	switch f[0] {
	case "mint":
		return "MintTokens"
	case "swap":
		return "Swap"
	case "melt":
		if mi := atoiList(f[1])[0]; mi < len(w.Melts) && w.Melts[mi].Internal >= 0 {
			return "MeltTokens-internal"
		}
		return "MeltTokens"
	case "pollm":
		return "GetMeltQuoteState"
	case "check":
		return "ProofsStateCheck"
	case "pollq":
		return "GetMintQuoteState"
	case "mq":
		return "RequestMintQuote"
	case "meltq", "meltqi", "meltqm", "meltqh":
		return "RequestMeltQuote"
	case "rotrt":
		return "RotateKeyset"
	}
	return f[0]
}

// c07Kind maps a scenario to the operation window class used in finding keys (scripts of the same operation share windows).
func c07Kind(name string) string {
	switch {
	case strings.HasPrefix(name, "mint-") || name == "mint":
		return "MintTokens"
	case strings.HasPrefix(name, "swap"):
		return "Swap"
	case name == "melt-internal":
		return "MeltTokens-internal"
	case strings.HasPrefix(name, "melt-") && name != "meltquote":
		return "MeltTokens"
	case strings.HasPrefix(name, "poll-resolves"), strings.HasPrefix(name, "poll-lookup"):
		return "GetMeltQuoteState"
	case strings.HasPrefix(name, "check-resolves"), strings.HasPrefix(name, "check-lookup"):
		return "ProofsStateCheck"
	case strings.HasPrefix(name, "respend"):
		return "Swap"
	case name == "pollq-unpaid-to-paid":
		return "GetMintQuoteState"
	case name == "late-notification-after-issued":
		return "InvoiceNotification"
	case name == "mintquote":
		return "RequestMintQuote"
	case name == "meltquote":
		return "RequestMeltQuote"
	case strings.HasPrefix(name, "rotate-runtime"):
		return "RotateKeyset"
	}
	return name
}

// safeRestart restarts the mint; a panic inside LoadMint is reported as an error (the mint cannot start).
func safeRestart(w *mintops.W, fee uint) (err error) {
	defer func() {
		if r := recover(); r != nil {
			err = fmt.Errorf("LoadMint panicked: %v", r)
		}
	}()
	return w.M.Restart(false, fee)
}

func atoiList(s string) []int {
	var r []int
	for _, x := range strings.Split(s, ",") {
		var n int
		fmt.Sscan(strings.TrimRight(x, "wad"), &n)
		r = append(r, n)
	}
	return r
}

// ---- generated scenarios: every state reachable by a short history x every operation offered there ----

func c07GenMenu(w *mintops.W) []string {
	var ops []string
	un := w.UnspentIdx(3)
	if len(un) >= 1 {
		ops = append(ops, fmt.Sprintf("swap|%d|exact", un[0]))
	}
	if len(un) >= 2 {
		ops = append(ops, fmt.Sprintf("swap|%d,%d|exact", un[0], un[1]))
	}
	if len(w.Quotes) < 2 {
		ops = append(ops, "mq|8")
	}
	for qi, q := range w.Quotes {
		if qi == 0 {
			continue
		}
		if q.Payments == 0 {
			ops = append(ops, fmt.Sprintf("settle|%d", qi))
		}
		ops = append(ops, fmt.Sprintf("pollq|%d", qi), fmt.Sprintf("mint|%d|exact", qi))
	}
	if len(w.Melts) < 2 {
		ops = append(ops, "meltq|4")
		for qi, q := range w.Quotes {
			if qi > 0 && q.Payments == 0 {
				ops = append(ops, fmt.Sprintf("meltqi|%d", qi))
			}
		}
	}
	for j, m := range w.Melts {
		if m.Internal >= 0 && w.Quotes[m.Internal].Payments > 0 {
			// paying an invoice a second time is the payer's own loss (the internal path does not refuse it, see DESIGN
			// §5.3), not value stranded by a fault: kept out of the accounting scenarios
			continue
		}
		if m.Known == "" || m.Known == "failure" {
			if len(un) >= 1 {
				in := fmt.Sprint(un[0])
				ops = append(ops, fmt.Sprintf("melt|%d|%s|S", j, in), fmt.Sprintf("melt|%d|%s|P", j, in), fmt.Sprintf("melt|%d|%s|F|N", j, in), fmt.Sprintf("melt|%d|%s|E|S", j, in))
			}
		}
		if m.Known == "none" {
			ins := ""
			for k, n := range m.Inputs {
				if k > 0 {
					ins += ","
				}
				ins += fmt.Sprint(n)
			}
			ops = append(ops, fmt.Sprintf("pollm|%d|S", j), fmt.Sprintf("pollm|%d|F", j), fmt.Sprintf("check|%s|S", ins))
			// the backend cannot be asked (lookup error): nothing may be decided
			ops = append(ops, fmt.Sprintf("pollm|%d|E", j), fmt.Sprintf("check|%s|E", ins))
			// an attempt to spend the locked inputs elsewhere: refused without a fault, and with one
			ops = append(ops, fmt.Sprintf("swap|%s|exact", ins))
		}
	}
	// an attempt to spend a spent proof again
	for i, p := range w.Proofs {
		if p.St == mintops.Spent {
			ops = append(ops, fmt.Sprintf("swap|%d|exact", i))
			break
		}
	}
	if len(w.Keysets) < 2 {
		ops = append(ops, "rotrt|100")
	}
	return ops
}

var c07GenSpecs = map[string]*bfs.Spec{
	"C07-gen-fee0":   {Prop: "C07", Name: "C07-gen-fee0", Cfg: mintops.Config{Fee: 0}, Init: []string{"fund|8,8,8"}, Menu: c07GenMenu, Depth: 9},
	"C07-gen-fee100": {Prop: "C07", Name: "C07-gen-fee100", Cfg: mintops.Config{Fee: 100}, Init: []string{"fund|8,8,8"}, Menu: c07GenMenu, Depth: 9},
}

type c07State struct {
	hist []string
	next []string
}

// c07Enumerate lists the distinct states (canonical form) reachable by histories of at most depth operations, each
// with its shortest history and the operations offered there.
func c07Enumerate(c *rt.Ctx, spec string, depth int) []c07State {
	seen := map[string]bool{}
	var states []c07State
	frontier := [][]string{{}}
	for d := 0; d <= depth && len(frontier) > 0; d++ {
		jobs := make([]any, len(frontier))
		for i, h := range frontier {
			jobs[i] = bfs.Job{Spec: spec, Hist: h}
		}
		results := make([]bfs.Res, len(frontier))
		c.Pool.Map(jobs, func(i int, r rt.JobResult) {
			if r.Died {
				rt.HarnessError("C07 state enumeration %v died: %s", frontier[i], r.Stderr)
			}
			json.Unmarshal(r.Out, &results[i])
			if results[i].Err != "" {
				rt.HarnessError("C07 state enumeration %v: %s", frontier[i], results[i].Err)
			}
		})
		var next [][]string
		for i, r := range results {
			if seen[r.Canon] {
				continue
			}
			seen[r.Canon] = true
			states = append(states, c07State{hist: frontier[i], next: r.Next})
			for _, op := range r.Next {
				next = append(next, append(append([]string{}, frontier[i]...), op))
			}
		}
		frontier = next
	}
	return states
}

func c07Faultable(op string) bool {
	switch strings.Split(op, "|")[0] {
	case "settle", "fire", "restart", "info":
		return false // not a request to the mint (backend event / harness action)
	}
	return true
}

func runC07Gen(c *rt.Ctx, spec string, depth int) {
	sp := c07GenSpecs[spec]
	states := c07Enumerate(c, spec, depth)
	type cas struct {
		prep  []string
		op    string
		final string
	}
	var cases []cas
	for _, st := range states {
		for _, op := range st.next {
			if !c07Faultable(op) {
				continue
			}
			prep := append(append([]string{}, sp.Init...), st.hist...)
			finals := []string{""}
			switch strings.Split(op, "|")[0] {
			case "melt", "pollm", "check":
				finals = []string{"S", "F"} // what the backend finally says about payments still in flight after the fault
			}
			for _, f := range finals {
				cases = append(cases, cas{prep, op, f})
			}
		}
	}
	jobs := make([]any, len(cases))
	for i, cs := range cases {
		jobs[i] = c07Job{Scn: "gen", K: -1, Fee: sp.Cfg.Fee, Prep: cs.prep, Op: cs.op, Final: cs.final}
	}
	counts := make([][]string, len(cases))
	c.Pool.Map(jobs, func(i int, r rt.JobResult) {
		if r.Died {
			rt.HarnessError("C07 counting run %v + %s died: %s", cases[i].prep, cases[i].op, r.Stderr)
		}
		var res c07Res
		json.Unmarshal(r.Out, &res)
		if res.Err != "" {
			rt.HarnessError("C07 counting run %v + %s: %s", cases[i].prep, cases[i].op, res.Err)
		}
		counts[i] = res.Calls
	})
	var fj []c07Job
	for i, cs := range cases {
		for k := 0; k <= len(counts[i]); k++ {
			fj = append(fj, c07Job{Scn: "gen", K: k, Mode: "crash", Fee: sp.Cfg.Fee, Prep: cs.prep, Op: cs.op, Final: cs.final})
			if k < len(counts[i]) && strings.HasPrefix(counts[i][k], "db:") {
				fj = append(fj, c07Job{Scn: "gen", K: k, Mode: "error", Fee: sp.Cfg.Fee, Prep: cs.prep, Op: cs.op, Final: cs.final})
			}
		}
	}
	evals := 0
	const chunk = 4000
	for from := 0; from < len(fj); from += chunk {
		if c.Expired() {
			c.Exhaustive = false
			break
		}
		to := from + chunk
		if to > len(fj) {
			to = len(fj)
		}
		jobs = make([]any, to-from)
		for i := range jobs {
			jobs[i] = fj[from+i]
		}
		c.Pool.Map(jobs, func(i int, r rt.JobResult) {
			j := fj[from+i]
			if r.Died {
				c.Violate(fmt.Sprintf("C07/%s/%s-at:%d/process-died", j.Op, j.Mode, j.K), "the worker process died: "+r.Stderr, j)
				return
			}
			var res c07Res
			json.Unmarshal(r.Out, &res)
			if res.Err != "" {
				rt.HarnessError("C07 %v + %s k=%d %s: %s", j.Prep, j.Op, j.K, j.Mode, res.Err)
			}
			if res.Skipped {
				return
			}
			evals++
			c.Count("evaluations", 1)
			c.Distinct(fmt.Sprintf("%s|%v|%s|%s|%s|%s", spec, j.Prep, j.Op, j.Final, j.Mode, res.Fault))
			for _, v := range res.V {
				c.Violate("C07/"+v.Key, fmt.Sprintf("(after %v) %s", j.Prep[len(sp.Init):], v.What), j)
			}
		})
	}
	fmt.Printf("  generated %-16s depth %d states %d (state, operation, final answer) cases %d fault evaluations %d of %d\n", spec, depth, len(states), len(cases), evals, len(fj))
	gen, _ := c.Cov["generated"].(map[string]any)
	if gen == nil {
		gen = map[string]any{}
	}
	gen[spec] = map[string]any{"prefix_depth": depth, "states": len(states), "cases": len(cases), "fault_positions": len(fj), "evaluated": evals}
	c.Cov["generated"] = gen
}

func c07Worker(job json.RawMessage) (any, error) {
	var probe struct{ Spec, Startup string }
	json.Unmarshal(job, &probe)
	if probe.Spec != "" {
		return bfs.Worker(c07GenSpecs)(job)
	}
	if probe.Startup != "" {
		var sj c07StartJob
		json.Unmarshal(job, &sj)
		return c07StartExec(sj), nil
	}
	var j c07Job
	if err := json.Unmarshal(job, &j); err != nil {
		return nil, err
	}
	return c07Exec(j), nil
}

func runC07(c *rt.Ctx) {
	scns := c07Scenarios()
	// counting runs
	jobs := make([]any, len(scns))
	for i, s := range scns {
		jobs[i] = c07Job{Scn: s.Name, K: -1}
	}
	counts := make([][]string, len(scns))
	c.Pool.Map(jobs, func(i int, r rt.JobResult) {
		if r.Died {
			rt.HarnessError("C07 counting run %s died: %s", scns[i].Name, r.Stderr)
		}
		var res c07Res
		json.Unmarshal(r.Out, &res)
		if res.Err != "" {
			rt.HarnessError("C07 counting run %s: %s", scns[i].Name, res.Err)
		}
		counts[i] = res.Calls
	})
	type item struct {
		scn  int
		k    int
		mode string
	}
	var items []item
	for i := range scns {
		for k := 0; k <= len(counts[i]); k++ {
			items = append(items, item{i, k, "crash"})
			if k < len(counts[i]) && strings.HasPrefix(counts[i][k], "db:") {
				items = append(items, item{i, k, "error"})
			}
		}
	}
	jobs = make([]any, len(items))
	for i, it := range items {
		jobs[i] = c07Job{Scn: scns[it.scn].Name, K: it.k, Mode: it.mode}
	}
	outcomes := map[string]int{}
	perScn := map[string]int{}
	c.Pool.Map(jobs, func(i int, r rt.JobResult) {
		it := items[i]
		if r.Died {
			c.Violate(fmt.Sprintf("C07/%s/%s-at:%d/process-died", c07Kind(scns[it.scn].Name), it.mode, it.k), "the worker process died: "+r.Stderr, jobs[i])
			return
		}
		var res c07Res
		json.Unmarshal(r.Out, &res)
		if res.Err != "" {
			rt.HarnessError("C07 %s k=%d %s: %s", scns[it.scn].Name, it.k, it.mode, res.Err)
		}
		if res.Skipped {
			return
		}
		c.Count("evaluations", 1)
		perScn[scns[it.scn].Name]++
		c.Distinct(fmt.Sprintf("%s|%s|%s", scns[it.scn].Name, it.mode, res.Fault))
		outcomes[res.Outcome]++
		for _, v := range res.V {
			c.Violate("C07/"+v.Key, "("+scns[it.scn].Name+") "+v.What, jobs[i])
		}
		if it.k == 1 && it.mode == "crash" {
			c.Sample(map[string]any{"scenario": scns[it.scn].Name, "operation": scns[it.scn].Op, "fault": it.mode + " before " + res.Fault, "boundary_calls": counts[it.scn], "accounting": res.Outcome})
		}
	})
	runC07Startup(c)
	// generated part: every state reachable by a history of <= L operations x every operation offered there
	if c.Quick() {
		runC07Gen(c, "C07-gen-fee0", 2)
	} else {
		runC07Gen(c, "C07-gen-fee100", 3)
		runC07Gen(c, "C07-gen-fee0", 4)
	}
	c.Cov["rule_generated"] = "in addition the same fault enumeration is run from every distinct state reachable by a history of at most L operations (L = 2 quick; 4 at fee 0 and 3 at fee 100 thorough) over {swap of one / two proofs, mint quote, settle, poll quote, mint, melt quote (external, internal), melt x {Succeeded, Pending, Failed->NotFound, error->Succeeded}, poll x {Succeeded, Failed}, state check, runtime rotation}, for every operation offered in that state, every boundary call k of it, crash and storage error, and (for melts and resolutions) both final backend answers"
	c.Cov["scenarios"] = perScn
	c.Cov["distinct_accounting_outcomes"] = len(outcomes)
	c.Cov["rule"] = "for each of the scenarios (operation x prepared state x Lightning script) a counting run lists the boundary calls (MintDB methods and Lightning calls made by the operation); then for every k = 0..n the operation is re-run from a freshly rebuilt state with a crash (sentinel panic, instance abandoned, LoadMint on the same directory) before call k (k = n: response lost) and, for MintDB calls, with an injected error returned from call k; afterwards: durability pass (model of everything answered before vs store), resync (polls, state checks, restore), adversarial follow-up (verbatim replay, re-spend of every input, mint every quote again, restart) under the transition oracles, and value accounting (client-held unspent value == Lightning inflow + internal settlements - inputs of really paid melts). A case is distinct by (scenario, mode, call)"
}

func replayC07(path string) int {
	b, err := os.ReadFile(path)
	if err != nil {
		fmt.Println(err)
		return 2
	}
	var v struct {
		Key    string
		Replay c07Job
	}
	json.Unmarshal(b, &v)
	res := c07Exec(v.Replay)
	if res.Err != "" {
		fmt.Println("error:", res.Err)
		return 2
	}
	fmt.Println("fault before", res.Fault, "accounting", res.Outcome)
	for _, x := range res.V {
		fmt.Printf("  C07/%s: %s\n", x.Key, x.What)
	}
	if len(res.V) > 0 {
		fmt.Printf("VIOLATION property=C07 replay=%s\n", path)
		return 1
	}
	fmt.Println("no violation on replay")
	return 0
}

func init() {
	register(&Prop{ID: "C07", Level: "fault_enumeration", QuickBudget: 300 * time.Second, ThoroughBudget: 20 * time.Minute,
		Run: runC07, Worker: c07Worker, Replay: replayC07})
}
