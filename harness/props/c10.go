package props

// C10 — blind signatures and DLEQ proofs are algebraically correct and tamper-evident.
//
// Engine E4 (bounded exhaustive): the full product secrets x blinding scalars x mint keys is pushed through the
// repository's crypto.BlindMessage / SignBlindedMessage / UnblindSignature / Verify / GenerateDLEQ / VerifyDLEQ and
// nut12.VerifyBlindSignatureDLEQ / VerifyProofDLEQ / VerifyProofsDLEQ, and every intermediate value is compared
// with package ref (independent math/big secp256k1). Then, for a sub-product of base cases, every single-field
// tampering of (e, s, r, A, B_, C_/C, secret, amount) is applied and each verifier that consumes the field must
// reject. A tamper that does not change the mathematical value (checked, e.g. scalar + n) is skipped, not demanded.
//
// The "history part" of DESIGN.md C10 (signatures emitted by a running mint) is not in this file.

import (
	"bytes"
	"encoding/hex"
	"encoding/json"
	"fmt"
	"math/big"
	"os"
	"runtime/debug"
	"sort"
	"strings"
	"sync"
	"time"

	"github.com/btcsuite/btcd/btcutil/hdkeychain"
	"github.com/btcsuite/btcd/chaincfg"
	"github.com/decred/dcrd/dcrec/secp256k1/v4"
	"github.com/elnosh/gonuts/cashu"
	"github.com/elnosh/gonuts/cashu/nuts/nut12"
	"github.com/elnosh/gonuts/crypto"

	"verif/harness/ref"
	"verif/harness/rt"
)

func init() {
	register(&Prop{ID: "C10", Level: "exploration", QuickBudget: 90 * time.Second, ThoroughBudget: 15 * time.Minute,
		Run: runC10, Replay: replayC10})
}

// ---------------------------------------------------------------- alphabets

var c10Secrets = []struct{ name, s string }{
	{"empty", ""},
	{"a", "a"},
	{"64 hex chars", "407915bc212be61a77e3e6d2aeb4c727980bda51cd06a6afc29e2861768a7837"},
	{"512 bytes", strings.Repeat("0123456789abcdef", 32)},
	{"NUT-10 P2PK JSON", `["P2PK",{"nonce":"859d4935c4907062a6297cf4e663e2835d90d97ecdd510745d32f6816323a41f","data":"0249098aa8b9d2fbec49ff8598feb17b592b986e62319a4fa488a3dc36387157a7","tags":[["sigflag","SIG_INPUTS"]]}]`},
	{"byte 00", "\x00"},
	{"byte ff", "\xff"},
	{"byte 80", "\x80"},
}

var c10RNames = []string{"1", "2", "n-1", "n-2", "2^255", "0xdeadbeef…deadbeef"}

func c10Rset() []*big.Int {
	dead, _ := new(big.Int).SetString(strings.Repeat("deadbeef", 8), 16)
	return []*big.Int{
		big.NewInt(1), big.NewInt(2),
		new(big.Int).Sub(ref.N, big.NewInt(1)), new(big.Int).Sub(ref.N, big.NewInt(2)),
		new(big.Int).Lsh(big.NewInt(1), 255), dead,
	}
}

// c10MintSeed is the fixed BIP32 seed of the two keysets (derivation indices 0 and 1) used as mint keys.
var c10MintSeed = bytes.Repeat([]byte{0x11}, 32)

type c10Key struct {
	ks, ai int
	amount uint64
	kImpl  *secp256k1.PrivateKey
	KImpl  *secp256k1.PublicKey
	k      *big.Int
	K      ref.Point
}

type c10KeyCtx struct {
	keysets [2]*crypto.MintKeyset
	keys    [2][]c10Key
	pubs    [2]map[uint64]*secp256k1.PublicKey
}

var (
	c10KeysOnce sync.Once
	c10Keys     *c10KeyCtx
)

func c10GetKeys() *c10KeyCtx {
	c10KeysOnce.Do(func() {
		master, err := hdkeychain.NewMaster(c10MintSeed, &chaincfg.MainNetParams)
		if err != nil {
			rt.HarnessError("C10: NewMaster: %v", err)
		}
		kc := &c10KeyCtx{}
		for ks := 0; ks < 2; ks++ {
			set, err := crypto.GenerateKeyset(master, uint32(ks), 0, true)
			if err != nil {
				rt.HarnessError("C10: GenerateKeyset: %v", err)
			}
			kc.keysets[ks] = set
			kc.pubs[ks] = map[uint64]*secp256k1.PublicKey{}
			amounts := make([]uint64, 0, len(set.Keys))
			for a := range set.Keys {
				amounts = append(amounts, a)
			}
			sort.Slice(amounts, func(i, j int) bool { return amounts[i] < amounts[j] })
			for ai, a := range amounts {
				kp := set.Keys[a]
				K, err := ref.ParseCompressed(kp.PublicKey.SerializeCompressed())
				if err != nil {
					rt.HarnessError("C10: published key for amount %d is not a curve point: %v", a, err)
				}
				kc.keys[ks] = append(kc.keys[ks], c10Key{ks: ks, ai: ai, amount: a, kImpl: kp.PrivateKey, KImpl: kp.PublicKey,
					k: new(big.Int).SetBytes(kp.PrivateKey.Serialize()), K: K})
				kc.pubs[ks][a] = kp.PublicKey
			}
			if len(kc.keys[ks]) != 60 {
				rt.HarnessError("C10: keyset %d has %d keys, expected 60", ks, len(kc.keys[ks]))
			}
		}
		c10Keys = kc
	})
	return c10Keys
}

// neighbour returns the key of the neighbouring amount in the same keyset (next one up, or down for the last).
func (kc *c10KeyCtx) neighbour(k c10Key) c10Key {
	if k.ai+1 < len(kc.keys[k.ks]) {
		return kc.keys[k.ks][k.ai+1]
	}
	return kc.keys[k.ks][k.ai-1]
}

// ---------------------------------------------------------------- helpers

func c10Guard(f func()) (panicked string) {
	defer func() {
		if r := recover(); r != nil {
			panicked = fmt.Sprint(r)
		}
	}()
	f()
	return ""
}

func c10Pub(p ref.Point) *secp256k1.PublicKey {
	pk, err := secp256k1.ParsePubKey(p.SerializeCompressed())
	if err != nil {
		rt.HarnessError("C10: cannot hand reference point %x to the implementation: %v", p.SerializeCompressed(), err)
	}
	return pk
}

func c10Pt(pk *secp256k1.PublicKey) (ref.Point, bool) {
	if pk == nil {
		return ref.Point{}, false
	}
	p, err := ref.ParseCompressed(pk.SerializeCompressed())
	return p, err == nil
}

func c10Hex(p ref.Point) string { return hex.EncodeToString(p.SerializeCompressed()) }

func c10b32(v *big.Int) (out [32]byte) {
	v.FillBytes(out[:])
	return
}

func c10int(b [32]byte) *big.Int { return new(big.Int).SetBytes(b[:]) }

func c10modN(b [32]byte) *big.Int { v := c10int(b); return v.Mod(v, ref.N) }

type c10Finding struct {
	Key, What string
	Replay    c10Replay
}

// c10Replay identifies one case; it is the replay artefact.
type c10Replay struct {
	Kind      string `json:"kind"` // core | tamper
	SecretHex string `json:"secret_hex"`
	RHex      string `json:"r_hex"`
	Keyset    int    `json:"keyset"`
	AmountIdx int    `json:"amount_idx"`
	Verifier  string `json:"verifier,omitempty"`
	Tamper    string `json:"tamper,omitempty"`
	EHex      string `json:"e_hex,omitempty"` // the honest proof that was tampered with (GenerateDLEQ draws its nonce from crypto/rand)
	SHex      string `json:"s_hex,omitempty"`
}

// ---------------------------------------------------------------- core identities

type c10CoreStats struct {
	cases, negChecks, dleqProofs, distinctE int
}

// c10Core runs the core identities for one (secret, key) pair over all blinding scalars in rs.
func c10Core(kc *c10KeyCtx, secret string, key c10Key, rs []*big.Int, otherSecrets []string) ([]c10Finding, c10CoreStats) {
	var fs []c10Finding
	var st c10CoreStats
	in0 := fmt.Sprintf("secret=%x keyset#%d amount=2^%d k=%x", secret, key.ks, key.ai, ref.Bytes32(key.k))
	Y, _, err := ref.HashToCurve([]byte(secret))
	if err != nil {
		return nil, st
	}
	kY := Y.ScalarMult(key.k)
	var firstC []byte
	var firstR string
	for _, r := range rs {
		rb := c10b32(r)
		rp := c10Replay{Kind: "core", SecretHex: hex.EncodeToString([]byte(secret)), RHex: hex.EncodeToString(rb[:]), Keyset: key.ks, AmountIdx: key.ai}
		in := fmt.Sprintf("%s r=%x", in0, rb)
		add := func(k, w string) { fs = append(fs, c10Finding{k, w, rp}) }
		st.cases++
		rImpl := secp256k1.PrivKeyFromBytes(rb[:])

		// B_ = Y + rG
		var B_i *secp256k1.PublicKey
		var ierr error
		if p := c10Guard(func() { B_i, _, ierr = crypto.BlindMessage(secret, rImpl) }); p != "" || ierr != nil || B_i == nil {
			add("C10/blind/error", fmt.Sprintf("crypto.BlindMessage failed (panic=%q err=%v); %s", p, ierr, in))
			continue
		}
		B_r := Y.Add(ref.ScalarBaseMult(r))
		if !bytes.Equal(B_i.SerializeCompressed(), B_r.SerializeCompressed()) {
			add("C10/blind/mismatch", fmt.Sprintf("B_ = hash_to_curve(secret) + r*G expected %s, crypto.BlindMessage returned %x; %s", c10Hex(B_r), B_i.SerializeCompressed(), in))
			continue
		}
		// C_ = k*B_
		var C_i *secp256k1.PublicKey
		if p := c10Guard(func() { C_i = crypto.SignBlindedMessage(B_i, key.kImpl) }); p != "" || C_i == nil {
			add("C10/sign/error", fmt.Sprintf("crypto.SignBlindedMessage panicked: %s; %s", p, in))
			continue
		}
		C_r := B_r.ScalarMult(key.k)
		if !bytes.Equal(C_i.SerializeCompressed(), C_r.SerializeCompressed()) {
			add("C10/sign/mismatch", fmt.Sprintf("C_ = k*B_ expected %s, crypto.SignBlindedMessage returned %x; %s", c10Hex(C_r), C_i.SerializeCompressed(), in))
			continue
		}
		// C = C_ - rK must be exactly k*Y
		var Ci *secp256k1.PublicKey
		if p := c10Guard(func() { Ci = crypto.UnblindSignature(C_i, rImpl, key.KImpl) }); p != "" || Ci == nil {
			add("C10/unblind/error", fmt.Sprintf("crypto.UnblindSignature panicked: %s; %s", p, in))
			continue
		}
		if !bytes.Equal(Ci.SerializeCompressed(), kY.SerializeCompressed()) {
			add("C10/unblind/not-kY", fmt.Sprintf("Unblind(Sign(Blind(secret,r),k),r,K) expected k*hash_to_curve(secret) = %s, got %x; %s", c10Hex(kY), Ci.SerializeCompressed(), in))
		}
		if firstC == nil {
			firstC, firstR = Ci.SerializeCompressed(), hex.EncodeToString(rb[:])
		} else if !bytes.Equal(firstC, Ci.SerializeCompressed()) {
			add("C10/unblind/depends-on-r", fmt.Sprintf("unblinded signature depends on the blinding factor: %x with r=%s but %x with r=%x; %s", firstC, firstR, Ci.SerializeCompressed(), rb, in0))
		}
		Cr, ok := c10Pt(Ci)
		if !ok {
			add("C10/unblind/error", fmt.Sprintf("unblinded signature %x is not a curve point; %s", Ci.SerializeCompressed(), in))
			continue
		}

		// Verify: true under k, false under any other key / secret / point
		verify := func(sec string, k *secp256k1.PrivateKey, C *secp256k1.PublicKey) (res bool, pan string) {
			pan = c10Guard(func() { res = crypto.Verify(sec, k, C) })
			return
		}
		if res, pan := verify(secret, key.kImpl, Ci); pan != "" || !res {
			add("C10/verify/honest-rejected", fmt.Sprintf("crypto.Verify(secret, k, C) = %v (panic %q) for the honestly unblinded signature C=%x; %s", res, pan, Ci.SerializeCompressed(), in))
		}
		others := []c10Key{kc.keys[1-key.ks][key.ai]}
		if key.ai > 0 {
			others = append(others, kc.keys[key.ks][key.ai-1])
		}
		if key.ai+1 < len(kc.keys[key.ks]) {
			others = append(others, kc.keys[key.ks][key.ai+1])
		}
		for _, o := range others {
			if o.k.Cmp(key.k) == 0 {
				continue // not a different key
			}
			st.negChecks++
			if res, pan := verify(secret, o.kImpl, Ci); pan != "" || res {
				add("C10/verify/accepted-under-other-key", fmt.Sprintf("crypto.Verify accepted (res=%v panic=%q) C=%x under the key of keyset#%d amount 2^%d (k'=%x) although it was signed with another key; %s",
					res, pan, Ci.SerializeCompressed(), o.ks, o.ai, ref.Bytes32(o.k), in))
			}
		}
		for _, s2 := range append([]string{secret + "\x00"}, otherSecrets...) {
			Y2, _, err := ref.HashToCurve([]byte(s2))
			if err != nil || s2 == secret || Y2.Equal(Y) {
				continue
			}
			st.negChecks++
			if res, pan := verify(s2, key.kImpl, Ci); pan != "" || res {
				add("C10/verify/accepted-other-secret", fmt.Sprintf("crypto.Verify accepted (res=%v panic=%q) C=%x for the different secret %x; %s", res, pan, Ci.SerializeCompressed(), s2, in))
			}
		}
		for _, o := range []struct {
			name string
			p    ref.Point
		}{{"C+G", Cr.Add(ref.G)}, {"-C", Cr.Neg()}, {"C_ (still blinded)", C_r}, {"B_", B_r}, {"Y", Y}} {
			if o.p.Inf || o.p.Equal(kY) {
				continue // not a different point (e.g. Y when k = 1)
			}
			st.negChecks++
			if res, pan := verify(secret, key.kImpl, c10Pub(o.p)); pan != "" || res {
				add("C10/verify/accepted-other-point", fmt.Sprintf("crypto.Verify accepted (res=%v panic=%q) the point %s = %s which is not k*hash_to_curve(secret) = %s; %s", res, pan, o.name, c10Hex(o.p), c10Hex(kY), in))
			}
		}

		// DLEQ: three independent proofs (the nonce comes from crypto/rand inside GenerateDLEQ)
		es := map[string]bool{}
		for rep := 0; rep < 3; rep++ {
			var e, s *secp256k1.PrivateKey
			if p := c10Guard(func() { e, s = crypto.GenerateDLEQ(key.kImpl, B_i, C_i) }); p != "" || e == nil || s == nil {
				add("C10/dleq/generate-error", fmt.Sprintf("crypto.GenerateDLEQ panicked: %s; %s", p, in))
				continue
			}
			st.dleqProofs++
			eb, sb := e.Serialize(), s.Serialize()
			es[string(eb)] = true
			rpd := rp
			rpd.EHex, rpd.SHex = hex.EncodeToString(eb), hex.EncodeToString(sb)
			addd := func(k, w string) { fs = append(fs, c10Finding{k, w, rpd}) }
			ind := fmt.Sprintf("%s e=%x s=%x B_=%s C_=%s", in, eb, sb, c10Hex(B_r), c10Hex(C_r))
			var ok1, ok2, ok3, ok4 bool
			proof := cashu.Proof{Amount: key.amount, Id: kc.keysets[key.ks].Id, Secret: secret, C: hex.EncodeToString(Ci.SerializeCompressed()),
				DLEQ: &cashu.DLEQProof{E: rpd.EHex, S: rpd.SHex, R: rp.RHex}}
			pan := c10Guard(func() {
				ok1 = crypto.VerifyDLEQ(e, s, key.KImpl, B_i, C_i)
				ok2 = nut12.VerifyBlindSignatureDLEQ(cashu.DLEQProof{E: rpd.EHex, S: rpd.SHex}, key.KImpl, c10Hex(B_r), c10Hex(C_r))
				ok3 = nut12.VerifyProofDLEQ(proof, key.KImpl)
				ok4 = nut12.VerifyProofsDLEQ(cashu.Proofs{proof}, crypto.WalletKeyset{Id: kc.keysets[key.ks].Id, PublicKeys: kc.pubs[key.ks]})
			})
			if pan != "" {
				addd("C10/dleq/honest-panic", fmt.Sprintf("DLEQ verification of an honest proof panicked: %s; %s", pan, ind))
				continue
			}
			if !ok1 {
				addd("C10/dleq/honest-rejected/crypto.VerifyDLEQ", "crypto.VerifyDLEQ rejected the proof crypto.GenerateDLEQ just made for the published key; "+ind)
			}
			if !ok2 {
				addd("C10/dleq/honest-rejected/nut12.VerifyBlindSignatureDLEQ", "nut12.VerifyBlindSignatureDLEQ rejected an honest blind signature proof; "+ind)
			}
			if !ok3 {
				addd("C10/dleq/honest-rejected/nut12.VerifyProofDLEQ", "nut12.VerifyProofDLEQ rejected the honest proof of the unblinded token (with r); "+ind)
			}
			if !ok4 {
				addd("C10/dleq/honest-rejected/nut12.VerifyProofsDLEQ", "nut12.VerifyProofsDLEQ (key looked up by amount) rejected the honest proof; "+ind)
			}
			ei, si := new(big.Int).SetBytes(eb), new(big.Int).SetBytes(sb)
			if !ref.VerifyDLEQ(ei, si, key.K, B_r, C_r) {
				addd("C10/dleq/generated-proof-rejected-by-reference", "the proof made by crypto.GenerateDLEQ does not satisfy NUT-12's verification equations (independent verifier); "+ind)
			}
			if rep == 0 && !ref.VerifyProofDLEQ([]byte(secret), r, ei, si, key.K, Cr) {
				addd("C10/dleq/generated-proof-rejected-by-reference", "the proof with r does not satisfy NUT-12's verification after reblinding (independent verifier); "+ind)
			}
		}
		st.distinctE += len(es)

		// a proof made by the independent implementation (fixed nonce) must be accepted by the repository's verifiers
		if e, s, err := ref.GenerateDLEQ(key.k, c10FixedNonce, B_r, C_r); err == nil {
			eb, sb := c10b32(e), c10b32(s)
			d := cashu.DLEQProof{E: hex.EncodeToString(eb[:]), S: hex.EncodeToString(sb[:])}
			var ok1, ok2 bool
			pan := c10Guard(func() {
				ok1 = crypto.VerifyDLEQ(secp256k1.PrivKeyFromBytes(eb[:]), secp256k1.PrivKeyFromBytes(sb[:]), key.KImpl, B_i, C_i)
				ok2 = nut12.VerifyBlindSignatureDLEQ(d, key.KImpl, c10Hex(B_r), c10Hex(C_r))
			})
			if pan != "" || !ok1 || !ok2 {
				rpd := rp
				rpd.EHex, rpd.SHex = d.E, d.S
				fs = append(fs, c10Finding{"C10/dleq/reference-proof-rejected", fmt.Sprintf("a NUT-12 proof made by the independent implementation (nonce %x) is rejected: crypto.VerifyDLEQ=%v nut12.VerifyBlindSignatureDLEQ=%v panic=%q; %s e=%x s=%x B_=%s C_=%s",
					ref.Bytes32(c10FixedNonce), ok1, ok2, pan, in, eb, sb, c10Hex(B_r), c10Hex(C_r)), rpd})
			}
		}
	}
	return fs, st
}

// ---------------------------------------------------------------- tampering

// c10Tuple is everything a verifier may consume.
type c10Tuple struct {
	e, s, r   [32]byte
	A, B_, C_ ref.Point
	C         ref.Point
	secret    string
	amount    uint64
	ks        int
}

type c10Base struct {
	secret string
	r      *big.Int
	key    c10Key
	t      c10Tuple // honest tuple
	B_i    *secp256k1.PublicKey
}

func c10MakeBase(kc *c10KeyCtx, secret string, r *big.Int, key c10Key, eHex, sHex string) (*c10Base, string) {
	rb := c10b32(r)
	rImpl := secp256k1.PrivKeyFromBytes(rb[:])
	b := &c10Base{secret: secret, r: r, key: key}
	var msg string
	pan := c10Guard(func() {
		B_i, _, err := crypto.BlindMessage(secret, rImpl)
		if err != nil {
			msg = "BlindMessage: " + err.Error()
			return
		}
		C_i := crypto.SignBlindedMessage(B_i, key.kImpl)
		Ci := crypto.UnblindSignature(C_i, rImpl, key.KImpl)
		var eb, sb []byte
		if eHex != "" && sHex != "" {
			eb, _ = hex.DecodeString(eHex)
			sb, _ = hex.DecodeString(sHex)
		} else {
			e, s := crypto.GenerateDLEQ(key.kImpl, B_i, C_i)
			eb, sb = e.Serialize(), s.Serialize()
		}
		if len(eb) != 32 || len(sb) != 32 {
			msg = "e/s are not 32 bytes"
			return
		}
		var ok1, ok2, ok3 bool
		b.B_i = B_i
		b.t.B_, ok1 = c10Pt(B_i)
		b.t.C_, ok2 = c10Pt(C_i)
		b.t.C, ok3 = c10Pt(Ci)
		if !ok1 || !ok2 || !ok3 {
			msg = "B_/C_/C is not a curve point"
			return
		}
		copy(b.t.e[:], eb)
		copy(b.t.s[:], sb)
		b.t.r = rb
		b.t.A = key.K
		b.t.secret = secret
		b.t.amount = key.amount
		b.t.ks = key.ks
	})
	if pan != "" {
		return nil, "panic: " + pan
	}
	if msg != "" {
		return nil, msg
	}
	// the tuple the implementation produced must be valid for the independent verifier, otherwise nothing can be
	// demanded about its tamperings (and the implementation, not the harness, is at fault)
	t := &b.t
	if !ref.VerifyDLEQ(c10int(t.e), c10int(t.s), t.A, t.B_, t.C_) {
		return nil, fmt.Sprintf("the blind signature + DLEQ made by BlindMessage/SignBlindedMessage/GenerateDLEQ is rejected by the independent NUT-12 verifier: e=%x s=%x A=%s B_=%s C_=%s", t.e, t.s, c10Hex(t.A), c10Hex(t.B_), c10Hex(t.C_))
	}
	if !ref.VerifyProofDLEQ([]byte(t.secret), c10int(t.r), c10int(t.e), c10int(t.s), t.A, t.C) {
		return nil, fmt.Sprintf("the unblinded token made by UnblindSignature (C=%s, with r=%x) does not reblind to the signed C_=%s: rejected by the independent NUT-12 verifier", c10Hex(t.C), t.r, c10Hex(t.C_))
	}
	return b, ""
}

type c10Tamper struct {
	name   string
	fields []string // tuple fields it changes
	// apply changes t and reports whether the mathematical value really changed (false: equivalent, skip).
	apply func(t *c10Tuple, b *c10Base, kc *c10KeyCtx) bool
}

var c10Bits = []uint{0, 1, 7, 8, 127, 128, 254, 255}

var c10Two256 = new(big.Int).Lsh(big.NewInt(1), 256)

// c10FixedNonce is the DLEQ nonce of proofs the harness makes itself with ref.GenerateDLEQ.
var c10FixedNonce, _ = new(big.Int).SetString("5ca1ab1e5ca1ab1e5ca1ab1e5ca1ab1e5ca1ab1e5ca1ab1e5ca1ab1e5ca1ab1e", 16)

func c10ScalarField(t *c10Tuple, f string) *[32]byte {
	switch f {
	case "e":
		return &t.e
	case "s":
		return &t.s
	}
	return &t.r
}

func c10Tampers() []c10Tamper {
	var out []c10Tamper
	out = append(out, c10Tamper{"none", nil, func(*c10Tuple, *c10Base, *c10KeyCtx) bool { return true }})
	scalar := func(f, name string, fn func(v *big.Int) *big.Int) {
		out = append(out, c10Tamper{f + name, []string{f}, func(t *c10Tuple, _ *c10Base, _ *c10KeyCtx) bool {
			p := c10ScalarField(t, f)
			old := c10modN(*p)
			nv := fn(c10int(*p))
			nv.Mod(nv, c10Two256) // the field is a 32-byte encoding
			*p = c10b32(nv)
			return c10modN(*p).Cmp(old) != 0
		}})
	}
	for _, f := range []string{"e", "s", "r"} {
		scalar(f, "+1", func(v *big.Int) *big.Int { return v.Add(v, big.NewInt(1)) })
		scalar(f, "-1", func(v *big.Int) *big.Int { return v.Sub(v, big.NewInt(1)) })
		for _, bit := range c10Bits {
			bit := bit
			scalar(f, fmt.Sprintf("^bit%d", bit), func(v *big.Int) *big.Int { return v.SetBit(v, int(bit), v.Bit(int(bit))^1) })
		}
		scalar(f, "=0", func(v *big.Int) *big.Int { return v.SetInt64(0) })
	}
	out = append(out, c10Tamper{"swap-e-s", []string{"e", "s"}, func(t *c10Tuple, _ *c10Base, _ *c10KeyCtx) bool {
		ch := c10modN(t.e).Cmp(c10modN(t.s)) != 0
		t.e, t.s = t.s, t.e
		return ch
	}})
	point := func(f string, get func(t *c10Tuple) *ref.Point) {
		out = append(out, c10Tamper{f + "+G", []string{f}, func(t *c10Tuple, _ *c10Base, _ *c10KeyCtx) bool {
			p := get(t)
			np := p.Add(ref.G)
			ch := !np.Inf && !np.Equal(*p)
			if ch {
				*p = np
			}
			return ch
		}})
		out = append(out, c10Tamper{"-" + f, []string{f}, func(t *c10Tuple, _ *c10Base, _ *c10KeyCtx) bool {
			p := get(t)
			np := p.Neg()
			ch := !np.Equal(*p)
			*p = np
			return ch
		}})
	}
	point("A", func(t *c10Tuple) *ref.Point { return &t.A })
	out = append(out, c10Tamper{"A=neighbour-amount-key", []string{"A"}, func(t *c10Tuple, b *c10Base, kc *c10KeyCtx) bool {
		o := kc.neighbour(b.key)
		ch := !o.K.Equal(t.A)
		t.A = o.K
		return ch
	}})
	out = append(out, c10Tamper{"A=other-keyset-key", []string{"A"}, func(t *c10Tuple, b *c10Base, kc *c10KeyCtx) bool {
		o := kc.keys[1-b.key.ks][b.key.ai]
		ch := !o.K.Equal(t.A)
		t.A = o.K
		return ch
	}})
	point("B_", func(t *c10Tuple) *ref.Point { return &t.B_ })
	out = append(out, c10Tamper{"B_=blinding-of-other-secret", []string{"B_"}, func(t *c10Tuple, b *c10Base, _ *c10KeyCtx) bool {
		nb, err := ref.Blind([]byte(b.secret+"x"), b.r)
		if err != nil || nb.Inf || nb.Equal(t.B_) {
			return false
		}
		t.B_ = nb
		return true
	}})
	point("C_", func(t *c10Tuple) *ref.Point { return &t.C_ })
	point("C", func(t *c10Tuple) *ref.Point { return &t.C })
	// the mint signs with another key than the published one and makes an honest DLEQ for THAT key
	// (all values computed by the reference, with a fixed nonce, so the case is deterministic)
	out = append(out, c10Tamper{"signed-with-neighbour-key(+its own honest DLEQ)", []string{"e", "s", "C_", "C"}, func(t *c10Tuple, b *c10Base, kc *c10KeyCtx) bool {
		o := kc.neighbour(b.key)
		if o.k.Cmp(b.key.k) == 0 {
			return false
		}
		C_ := ref.Sign(t.B_, o.k)
		e, s, err := ref.GenerateDLEQ(o.k, c10FixedNonce, t.B_, C_)
		if err != nil || C_.Inf {
			return false
		}
		C := ref.Unblind(C_, c10int(t.r), t.A) // the wallet unblinds with the PUBLISHED key
		if C.Inf {
			return false
		}
		t.C_, t.C, t.e, t.s = C_, C, c10b32(e), c10b32(s)
		return true
	}})
	out = append(out, c10Tamper{"secret=secret+'x'", []string{"secret"}, func(t *c10Tuple, _ *c10Base, _ *c10KeyCtx) bool {
		y1, _, e1 := ref.HashToCurve([]byte(t.secret))
		t.secret += "x"
		y2, _, e2 := ref.HashToCurve([]byte(t.secret))
		return e1 == nil && e2 == nil && !y1.Equal(y2)
	}})
	out = append(out, c10Tamper{"secret=first-byte-flipped-or-'z'", []string{"secret"}, func(t *c10Tuple, _ *c10Base, _ *c10KeyCtx) bool {
		y1, _, e1 := ref.HashToCurve([]byte(t.secret))
		if t.secret == "" {
			t.secret = "z"
		} else {
			bs := []byte(t.secret)
			bs[0] ^= 0x01
			t.secret = string(bs)
		}
		y2, _, e2 := ref.HashToCurve([]byte(t.secret))
		return e1 == nil && e2 == nil && !y1.Equal(y2)
	}})
	out = append(out, c10Tamper{"amount=neighbour-denomination", []string{"amount"}, func(t *c10Tuple, b *c10Base, kc *c10KeyCtx) bool {
		o := kc.neighbour(b.key)
		t.amount = o.amount
		return !o.K.Equal(b.key.K)
	}})
	out = append(out, c10Tamper{"amount=3(no such denomination)", []string{"amount"}, func(t *c10Tuple, _ *c10Base, _ *c10KeyCtx) bool {
		t.amount = 3
		return true
	}})
	return out
}

type c10Verifier struct {
	name     string
	consumes []string
	proof    bool // proof variant (reblinds with r) vs blind-signature variant
	byAmount bool // A is looked up by amount in the keyset
	impl     func(t *c10Tuple, kc *c10KeyCtx) bool
}

func c10DLEQ(t *c10Tuple, withR bool) cashu.DLEQProof {
	d := cashu.DLEQProof{E: hex.EncodeToString(t.e[:]), S: hex.EncodeToString(t.s[:])}
	if withR {
		d.R = hex.EncodeToString(t.r[:])
	}
	return d
}

func c10Proof(t *c10Tuple, kc *c10KeyCtx) cashu.Proof {
	d := c10DLEQ(t, true)
	return cashu.Proof{Amount: t.amount, Id: kc.keysets[t.ks].Id, Secret: t.secret, C: c10Hex(t.C), DLEQ: &d}
}

func c10Verifiers() []c10Verifier {
	return []c10Verifier{
		{"crypto.VerifyDLEQ", []string{"e", "s", "A", "B_", "C_"}, false, false, func(t *c10Tuple, kc *c10KeyCtx) bool {
			return crypto.VerifyDLEQ(secp256k1.PrivKeyFromBytes(t.e[:]), secp256k1.PrivKeyFromBytes(t.s[:]), c10Pub(t.A), c10Pub(t.B_), c10Pub(t.C_))
		}},
		{"nut12.VerifyBlindSignatureDLEQ", []string{"e", "s", "A", "B_", "C_"}, false, false, func(t *c10Tuple, kc *c10KeyCtx) bool {
			return nut12.VerifyBlindSignatureDLEQ(c10DLEQ(t, false), c10Pub(t.A), c10Hex(t.B_), c10Hex(t.C_))
		}},
		{"nut12.VerifyProofDLEQ", []string{"e", "s", "r", "A", "C", "secret"}, true, false, func(t *c10Tuple, kc *c10KeyCtx) bool {
			return nut12.VerifyProofDLEQ(c10Proof(t, kc), c10Pub(t.A))
		}},
		{"nut12.VerifyProofsDLEQ", []string{"e", "s", "r", "C", "secret", "amount"}, true, true, func(t *c10Tuple, kc *c10KeyCtx) bool {
			return nut12.VerifyProofsDLEQ(cashu.Proofs{c10Proof(t, kc)}, crypto.WalletKeyset{Id: kc.keysets[t.ks].Id, PublicKeys: kc.pubs[t.ks]})
		}},
	}
}

func c10Consumes(v c10Verifier, tm c10Tamper) bool {
	if tm.fields == nil {
		return true
	}
	for _, f := range tm.fields {
		for _, g := range v.consumes {
			if f == g {
				return true
			}
		}
	}
	return false
}

// c10RefVerdict is the independent oracle for a (possibly tampered) tuple.
func c10RefVerdict(t *c10Tuple, v c10Verifier, kc *c10KeyCtx) bool {
	if !v.proof {
		return ref.VerifyDLEQ(c10int(t.e), c10int(t.s), t.A, t.B_, t.C_)
	}
	A := t.A
	if v.byAmount {
		var found bool
		for _, k := range kc.keys[t.ks] {
			if k.amount == t.amount {
				A, found = k.K, true
			}
		}
		if !found {
			return false
		}
	}
	return ref.VerifyProofDLEQ([]byte(t.secret), c10int(t.r), c10int(t.e), c10int(t.s), A, t.C)
}

type c10TamperOutcome struct {
	applicable bool // verifier consumes a tampered field
	changed    bool // the tamper changed the mathematical value
	implAccept bool
	refAccept  bool
	panicMsg   string
	rendered   string
}

// c10EvalTamper applies tamper tm to a copy of the honest tuple and asks verifier v.
func c10EvalTamper(kc *c10KeyCtx, b *c10Base, tm c10Tamper, v c10Verifier) c10TamperOutcome {
	var o c10TamperOutcome
	if !c10Consumes(v, tm) {
		return o
	}
	o.applicable = true
	t := b.t // copy (points are immutable values)
	var ch bool
	if p := c10Guard(func() { ch = tm.apply(&t, b, kc) }); p != "" {
		rt.HarnessError("C10: applying tamper %q panicked: %s", tm.name, p)
	}
	o.changed = ch
	if !ch {
		return o
	}
	o.rendered = fmt.Sprintf("e=%x s=%x r=%x A=%s B_=%s C_=%s C=%s secret=%x amount=%d", t.e, t.s, t.r, c10Hex(t.A), c10Hex(t.B_), c10Hex(t.C_), c10Hex(t.C), t.secret, t.amount)
	o.panicMsg = c10Guard(func() { o.implAccept = v.impl(&t, kc) })
	o.refAccept = c10RefVerdict(&t, v, kc)
	return o
}

func c10Judge(b *c10Base, tm c10Tamper, v c10Verifier, o c10TamperOutcome, rp c10Replay) *c10Finding {
	base := fmt.Sprintf("base: secret=%x r=%x keyset#%d amount=2^%d; honest e=%x s=%x; verifier input: %s", b.secret, c10b32(b.r), b.key.ks, b.key.ai, b.t.e, b.t.s, o.rendered)
	if tm.name == "none" {
		if !o.refAccept {
			rt.HarnessError("C10: the reference verifier rejects the honest tuple (%s / %s); %s", v.name, tm.name, base)
		}
		if o.panicMsg != "" {
			return &c10Finding{"C10/dleq/honest-panic", fmt.Sprintf("%s panicked on an honest proof: %s; %s", v.name, o.panicMsg, base), rp}
		}
		if !o.implAccept {
			return &c10Finding{"C10/dleq/honest-rejected/" + v.name, fmt.Sprintf("%s rejected an honest proof; %s", v.name, base), rp}
		}
		return nil
	}
	if o.refAccept {
		// the independent verifier accepts: the "tamper" did not invalidate the proof -> harness problem, never a finding
		rt.HarnessError("C10: tamper %q still verifies under the reference verifier (%s): not a real tamper; %s", tm.name, v.name, base)
	}
	cls := c10TamperClass(tm.name)
	if o.panicMsg != "" {
		return &c10Finding{"C10/tamper/" + cls + "/panic/" + v.name, fmt.Sprintf("%s panicked instead of rejecting after tamper %q: %s; %s", v.name, tm.name, o.panicMsg, base), rp}
	}
	if o.implAccept {
		return &c10Finding{"C10/tamper/" + cls + "/accepted/" + v.name, fmt.Sprintf("%s ACCEPTED after tamper %q (expected: reject; the independent NUT-12 verifier rejects); %s", v.name, tm.name, base), rp}
	}
	return nil
}

// c10TamperClass maps a tamper name to the stable class used in violation keys (bit positions folded).
func c10TamperClass(name string) string {
	if i := strings.Index(name, "^bit"); i > 0 {
		return name[:i] + "^bit"
	}
	if i := strings.Index(name, "("); i > 0 {
		return name[:i]
	}
	return name
}

// ---------------------------------------------------------------- run

type c10Idx struct{ si, ri, ks, ai int }

func runC10(c *rt.Ctx) {
	if err := ref.SelfTest(); err != nil {
		rt.HarnessError("C10: reference implementation failed its self-validation: %v", err)
	}
	// math/big allocates a lot and the live heap is tiny: collect less often (pure speed-up, no semantic effect)
	defer debug.SetGCPercent(debug.SetGCPercent(800))
	quick := c.Quick()
	kc := c10GetKeys()
	rs := c10Rset()

	// ---- core product S x Rset x K
	var coreKeys []c10Key
	if quick {
		for ks := 0; ks < 2; ks++ {
			for _, ai := range []int{0, 1, 2, 7, 30, 31, 58, 59} {
				coreKeys = append(coreKeys, kc.keys[ks][ai])
			}
		}
	} else {
		coreKeys = append(append(coreKeys, kc.keys[0]...), kc.keys[1]...)
	}
	type unit struct {
		si  int
		key c10Key
	}
	var units []unit
	for si := range c10Secrets {
		for _, k := range coreKeys {
			units = append(units, unit{si, k})
		}
	}
	var mu sync.Mutex
	var tot c10CoreStats
	coreDone := 0
	coreFindings := make([][]c10Finding, len(units)) // reported in enumeration order (simplest first), not in completion order
	rt.ParallelFor(len(units), func(i int) {
		if c.Expired() {
			return
		}
		u := units[i]
		others := []string{c10Secrets[(u.si+1)%len(c10Secrets)].s}
		fs, st := c10Core(kc, c10Secrets[u.si].s, u.key, rs, others)
		for ri := range rs {
			c.Distinct(fmt.Sprintf("core/%d/%d/%d/%d", u.si, ri, u.key.ks, u.key.ai))
		}
		c.Count("evaluations", int64(st.cases))
		coreFindings[i] = fs
		mu.Lock()
		tot.cases += st.cases
		tot.negChecks += st.negChecks
		tot.dleqProofs += st.dleqProofs
		tot.distinctE += st.distinctE
		coreDone++
		mu.Unlock()
	})
	for _, fs := range coreFindings {
		for _, f := range fs {
			c.Violate(f.Key, f.What, f.Replay)
		}
	}
	if tot.dleqProofs > 0 && tot.distinctE != tot.dleqProofs {
		// not a property violation (the statement does not speak about nonce quality); informational only
		c.Info(fmt.Sprintf("C10: %d DLEQ proofs generated but only %d distinct e values within their triples (nonce reuse?)", tot.dleqProofs, tot.distinctE))
	}

	// ---- tampering: sub-product of base cases x tampers x verifiers
	var tSecrets, tRs []int
	var tKeys []c10Key
	if quick {
		tSecrets, tRs = []int{0, 2, 4, 6}, []int{0, 2, 5}
		tKeys = []c10Key{kc.keys[0][0], kc.keys[1][59]}
	} else {
		for i := range c10Secrets {
			tSecrets = append(tSecrets, i)
		}
		for i := range rs {
			tRs = append(tRs, i)
		}
		tKeys = []c10Key{kc.keys[0][0], kc.keys[0][31], kc.keys[0][59], kc.keys[1][5]}
	}
	var bidx []c10Idx
	for _, si := range tSecrets {
		for _, ri := range tRs {
			for _, k := range tKeys {
				bidx = append(bidx, c10Idx{si, ri, k.ks, k.ai})
			}
		}
	}
	bases := make([]*c10Base, len(bidx))
	rt.ParallelFor(len(bidx), func(i int) {
		ix := bidx[i]
		b, msg := c10MakeBase(kc, c10Secrets[ix.si].s, rs[ix.ri], kc.keys[ix.ks][ix.ai], "", "")
		if b == nil {
			rb := c10b32(rs[ix.ri])
			c.Violate("C10/base/invalid", fmt.Sprintf("the implementation did not produce a valid honest signature+proof: %s; secret=%x r=%x keyset#%d amount=2^%d", msg, c10Secrets[ix.si].s, rb, ix.ks, ix.ai),
				c10Replay{Kind: "core", SecretHex: hex.EncodeToString([]byte(c10Secrets[ix.si].s)), RHex: hex.EncodeToString(rb[:]), Keyset: ix.ks, AmountIdx: ix.ai})
		}
		bases[i] = b
	})
	tampers := c10Tampers()
	verifiers := c10Verifiers()
	type tstat struct{ honestAccepted, tamperedRejected, skippedEquivalent, notApplicable, evaluated int }
	var ts tstat
	perTamper := map[string]int{}
	perVerifier := map[string]int{}
	type sample struct {
		Base     c10Replay `json:"case"`
		Input    string    `json:"verifier_input"`
		Expected string    `json:"expected"`
		Observed string    `json:"observed"`
	}
	var samples []sample
	sampleWant := map[string]bool{"none": true, "e+1": true, "s^bit255": true, "r-1": true, "A=neighbour-amount-key": true, "-C": true, "amount=neighbour-denomination": true, "swap-e-s": true}
	nJobs := len(bases) * len(tampers)
	tamperFindings := make([][]c10Finding, nJobs)
	rt.ParallelFor(nJobs, func(j int) {
		if c.Expired() {
			return
		}
		b, tm := bases[j/len(tampers)], tampers[j%len(tampers)]
		if b == nil {
			return
		}
		ix := bidx[j/len(tampers)]
		for _, v := range verifiers {
			o := c10EvalTamper(kc, b, tm, v)
			rb := c10b32(b.r)
			rp := c10Replay{Kind: "tamper", SecretHex: hex.EncodeToString([]byte(b.secret)), RHex: hex.EncodeToString(rb[:]), Keyset: ix.ks, AmountIdx: ix.ai,
				Verifier: v.name, Tamper: tm.name, EHex: hex.EncodeToString(b.t.e[:]), SHex: hex.EncodeToString(b.t.s[:])}
			mu.Lock()
			switch {
			case !o.applicable:
				ts.notApplicable++
			case !o.changed:
				ts.skippedEquivalent++
			default:
				ts.evaluated++
				perTamper[tm.name]++
				perVerifier[v.name]++
				if tm.name == "none" && o.implAccept {
					ts.honestAccepted++
				}
				if tm.name != "none" && !o.implAccept && o.panicMsg == "" {
					ts.tamperedRejected++
				}
				if j/len(tampers) == 0 && sampleWant[tm.name] {
					sampleWant[tm.name] = false // first applicable verifier only
					exp := "reject"
					if tm.name == "none" {
						exp = "accept"
					}
					samples = append(samples, sample{rp, o.rendered, exp, map[bool]string{true: "accept", false: "reject"}[o.implAccept]})
				}
			}
			mu.Unlock()
			if !o.applicable || !o.changed {
				continue
			}
			c.Count("evaluations", 1)
			c.Distinct(fmt.Sprintf("tamper/%s/%s/%d/%d/%d/%d", v.name, tm.name, ix.si, ix.ri, ix.ks, ix.ai))
			if f := c10Judge(b, tm, v, o, rp); f != nil {
				tamperFindings[j] = append(tamperFindings[j], *f)
			}
		}
	})
	for _, fs := range tamperFindings {
		for _, f := range fs {
			c.Violate(f.Key, f.What, f.Replay)
		}
	}

	sort.Slice(samples, func(i, j int) bool {
		return samples[i].Base.Tamper+samples[i].Base.Verifier < samples[j].Base.Tamper+samples[j].Base.Verifier
	})
	c.Sample(map[string]any{"case": c10Replay{Kind: "core", SecretHex: hex.EncodeToString([]byte(c10Secrets[2].s)), RHex: hex.EncodeToString(ref.Bytes32(rs[2])), Keyset: 0, AmountIdx: 0},
		"checked": "Blind==Y+rG, Sign==k*B_, Unblind==k*Y (same for all r), Verify true under k and false under 3 other keys / 2 other secrets / 5 other points, 3 DLEQ proofs accepted by 4 verifiers and by the reference"})
	for _, s := range samples {
		c.Sample(s)
	}

	var secretNames []string
	for _, s := range c10Secrets {
		secretNames = append(secretNames, fmt.Sprintf("%s (%d bytes)", s.name, len(s.s)))
	}
	var tamperNames []string
	for _, t := range tampers {
		tamperNames = append(tamperNames, t.name)
	}
	var vNames []string
	for _, v := range verifiers {
		vNames = append(vNames, v.name+" consumes "+strings.Join(v.consumes, ","))
	}
	c.Cov["alphabet_sizes"] = map[string]any{
		"secrets": len(c10Secrets), "blinding_scalars": len(rs), "core_keys": len(coreKeys), "core_units_done(secret x key)": coreDone,
		"core_cases (secrets x scalars x keys)": len(c10Secrets) * len(rs) * len(coreKeys),
		"tamper_base_cases":                     len(bidx), "tampers": len(tampers), "verifiers": len(verifiers),
	}
	c.Cov["secrets"] = secretNames
	c.Cov["blinding_scalars"] = c10RNames
	c.Cov["mint_keys"] = fmt.Sprintf("crypto.GenerateKeyset(seed=%x, idx 0 and 1): ids %s, %s; 60 keys each", c10MintSeed, kc.keysets[0].Id, kc.keysets[1].Id)
	c.Cov["tampers"] = tamperNames
	c.Cov["verifiers"] = vNames
	c.Cov["core_cases"] = tot.cases
	c.Cov["core_negative_verify_checks (other key / secret / point, all rejected unless a violation is listed)"] = tot.negChecks
	c.Cov["dleq_proofs_generated_in_core"] = tot.dleqProofs
	c.Cov["dleq_distinct_e_within_triples"] = tot.distinctE
	c.Cov["tamper_evaluations"] = ts.evaluated
	c.Cov["tamper_honest_accepted"] = ts.honestAccepted
	c.Cov["tamper_tampered_rejected"] = ts.tamperedRejected
	c.Cov["tamper_skipped_equivalent_value"] = ts.skippedEquivalent
	c.Cov["tamper_not_applicable_to_verifier"] = ts.notApplicable
	c.Cov["tamper_evaluations_per_tamper"] = perTamper
	c.Cov["tamper_evaluations_per_verifier"] = perVerifier
	c.Cov["rule"] = "Core: the full product secrets x blinding scalars x mint keys (nested loops over the listed alphabets, no randomness in the inputs; only GenerateDLEQ's internal nonce is random, " +
		"so each signing is proved 3 times). Each core case pushes (secret, r, k) through BlindMessage, SignBlindedMessage, UnblindSignature, Verify, GenerateDLEQ and the four DLEQ verifiers and compares every " +
		"intermediate point with the independent math/big implementation (package ref); it also demands Verify=false under 3 other keys, 2 other secrets and up to 5 other points. " +
		"Tampering: for every base case of the listed sub-product, every tamper of the list is applied to exactly one field of the honest tuple (e,s,r,A,B_,C_,C,secret,amount; plus the composite 'signed with another key') " +
		"and every verifier that consumes the field must reject; the untampered tuple must be accepted. A case is distinct by its index tuple (secret, scalar, keyset, amount[, verifier, tamper]); " +
		"it is non-trivial if the tamper really changed the mathematical value (scalars compared mod n, points as group elements, secrets by their hash_to_curve image) - equivalent rewrites are counted under " +
		"tamper_skipped_equivalent_value and nothing is demanded for them; 'evaluations' counts core cases plus (base, tamper, verifier) evaluations. " +
		"exhaustive:true refers to this alphabet, not to the 2^256-sized domain."
	c.Assume("package ref (math/big secp256k1, NUT-00 hash_to_curve, NUT-12 verification equations) is correct; validated at start-up against the vectors pinned in /repo's tests")
	c.Assume("hash collisions of SHA-256 do not occur (a tampered proof that the independent verifier accepts is treated as a harness error, not as a finding)")
	c.Assume("the history part of C10 (signatures emitted by a running mint, after persistence) is checked elsewhere, not in this run")
}

// ---------------------------------------------------------------- replay

func replayC10(path string) int {
	if err := ref.SelfTest(); err != nil {
		rt.HarnessError("C10: reference implementation failed its self-validation: %v", err)
	}
	b, err := os.ReadFile(path)
	if err != nil {
		fmt.Println("cannot read replay file:", err)
		return 2
	}
	var v struct {
		Key    string    `json:"key"`
		Replay c10Replay `json:"replay"`
	}
	if err := json.Unmarshal(b, &v); err != nil {
		fmt.Println("cannot parse replay file:", err)
		return 2
	}
	rp := v.Replay
	kc := c10GetKeys()
	sec, err1 := hex.DecodeString(rp.SecretHex)
	rb, err2 := hex.DecodeString(rp.RHex)
	if err1 != nil || err2 != nil || len(rb) != 32 || rp.Keyset < 0 || rp.Keyset > 1 || rp.AmountIdx < 0 || rp.AmountIdx >= 60 {
		fmt.Println("malformed replay case")
		return 2
	}
	key := kc.keys[rp.Keyset][rp.AmountIdx]
	r := new(big.Int).SetBytes(rb)
	fmt.Printf("replaying C10 %s case (recorded key %s): secret=%x r=%x keyset#%d amount=2^%d tamper=%q verifier=%q\n", rp.Kind, v.Key, sec, rb, rp.Keyset, rp.AmountIdx, rp.Tamper, rp.Verifier)
	bad := 0
	switch rp.Kind {
	case "core":
		var others []string
		for i, s := range c10Secrets {
			if s.s == string(sec) {
				others = []string{c10Secrets[(i+1)%len(c10Secrets)].s}
			}
		}
		// all blinding scalars of the alphabet plus the recorded one (independence of r needs more than one)
		rs := append([]*big.Int{r}, c10Rset()...)
		fs, st := c10Core(kc, string(sec), key, rs, others)
		fmt.Printf("  %d core cases, %d negative Verify checks, %d DLEQ proofs\n", st.cases, st.negChecks, st.dleqProofs)
		seen := map[string]int{}
		for _, f := range fs {
			seen[f.Key]++
			if seen[f.Key] == 1 {
				fmt.Printf("VIOLATION property=C10 key=%s\n  %s\n", f.Key, f.What)
			}
			bad++
		}
		for k, n := range seen {
			if n > 1 {
				fmt.Printf("  (%s seen %d times over the blinding scalars / proofs of this case)\n", k, n)
			}
		}
	case "tamper":
		base, msg := c10MakeBase(kc, string(sec), r, key, rp.EHex, rp.SHex)
		if base == nil {
			fmt.Println("VIOLATION property=C10 key=C10/base/invalid\n  ", msg)
			return 1
		}
		found := false
		for _, tm := range c10Tampers() {
			for _, vf := range c10Verifiers() {
				if tm.name != rp.Tamper || vf.name != rp.Verifier {
					continue
				}
				found = true
				o := c10EvalTamper(kc, base, tm, vf)
				fmt.Printf("  applicable=%v value-changed=%v implementation-accepts=%v reference-accepts=%v panic=%q\n  verifier input: %s\n", o.applicable, o.changed, o.implAccept, o.refAccept, o.panicMsg, o.rendered)
				if o.applicable && o.changed {
					if f := c10Judge(base, tm, vf, o, rp); f != nil {
						fmt.Printf("VIOLATION property=C10 key=%s\n  %s\n", f.Key, f.What)
						bad++
					}
				}
			}
		}
		if !found {
			fmt.Println("unknown tamper/verifier in replay case")
			return 2
		}
	default:
		fmt.Println("unknown case kind")
		return 2
	}
	if bad == 0 {
		fmt.Println("  no violation")
		return 0
	}
	return 1
}
