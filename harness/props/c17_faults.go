package props

import (
	"encoding/json"
	"errors"
	"fmt"
	"os"
	"strings"

	"github.com/elnosh/gonuts/cashu"

	"verif/harness/rt"
	"verif/harness/world"
	"verif/harness/wworld"
)

// C17, storage-fault part (E2 on the wallet): for every wallet operation of the scenario list and every wallet-store
// call k of it that can return an error, the call is made to fail once; the operation may fail, but afterwards the
// wallet must not count as spendable, nor hand out in a later Send, a proof the mint has already seen spent
// ("all of which the mint still considers unspent", "never offers ... a proof twice"). Lost track of value after a
// failed write is NOT judged here (the wallet's multi-call writes are not atomic; a restore from the seed recovers it,
// which C19 checks for crashes).

type c17FaultScn struct {
	Name   string
	Fee    uint
	Prep   []string
	Op     string
	Follow []string
}

func c17FaultScns() []c17FaultScn {
	return []c17FaultScn{
		{"send-swap", 100, []string{"mint|0|16"}, "send|0|3|0", []string{"send|0|8|0", "send|0|2|0", "reclaim|0"}},
		{"send-swap-fees", 100, []string{"mint|0|16"}, "send|0|5|1", []string{"send|0|8|0", "send|0|1|0"}},
		{"send-swap-bigcoins", 0, []string{"give|0|32,32,64"}, "send|0|5|0", []string{"send|0|32|0", "send|0|32|0", "send|0|64|0"}},
		{"send-swap-bigcoins-fee100", 100, []string{"give|0|32,32,64"}, "send|0|5|0", []string{"send|0|32|0", "send|0|32|0", "send|0|64|0"}},
		{"send-offline", 100, []string{"mint|0|16"}, "send|0|4|0", []string{"send|0|4|0", "send|0|8|0"}},
		{"receive", 100, []string{"mint|1|16", "send|1|5|0"}, "recv|0|0|0", []string{"send|0|2|0", "send|0|1|0"}},
		{"receive-own", 100, []string{"mint|0|16", "send|0|5|0"}, "recv|0|0|0", []string{"send|0|4|0", "send|0|8|0"}},
		{"melt-succeeded", 100, []string{"mint|0|16"}, "melt|0|4|S", []string{"checkmelt|0|0", "rmspent|0", "send|0|8|0", "send|0|2|0", "send|0|1|0"}},
		{"melt-failed", 100, []string{"mint|0|16"}, "melt|0|4|F", []string{"checkmelt|0|0", "reclaim|0", "send|0|8|0", "send|0|4|0"}},
		{"melt-pending-then-paid", 100, []string{"mint|0|16"}, "melt|0|4|P", []string{"lnfinal|0|0|S", "checkmelt|0|0", "send|0|8|0", "send|0|4|0"}},
		{"checkmelt-succeeded", 100, []string{"mint|0|16", "melt|0|4|P", "lnfinal|0|0|S"}, "checkmelt|0|0", []string{"send|0|8|0", "send|0|4|0", "send|0|2|0"}},
		{"checkmelt-failed", 100, []string{"mint|0|16", "melt|0|4|P", "lnfinal|0|0|F"}, "checkmelt|0|0", []string{"send|0|8|0", "send|0|4|0"}},
		{"reclaim", 100, []string{"mint|0|16", "send|0|5|0"}, "reclaim|0", []string{"send|0|4|0", "send|0|8|0"}},
		{"mint", 100, []string{"mint|0|4"}, "mint|0|16", []string{"send|0|8|0", "send|0|4|0"}},
		{"sendpk", 100, []string{"mint|0|16"}, "sendpk|0|1|2", []string{"send|0|8|0", "send|0|4|0"}},
	}
}

type c17FaultJob struct {
	FaultScn string
	K        int // index among the fallible store calls of the operation; -1 = counting run
}

type c17FaultRes struct {
	Calls []string
	V     []rt.Violation
	Fault string
	Err   string
	Skip  bool
}

var errWalletStore = errors.New("verif: injected wallet storage failure")

func c17FaultExec(j c17FaultJob) (res c17FaultRes) {
	var sc *c17FaultScn
	for _, s := range c17FaultScns() {
		if s.Name == j.FaultScn {
			s := s
			sc = &s
		}
	}
	if sc == nil {
		return c17FaultRes{Err: "unknown scenario " + j.FaultScn}
	}
	dir, _ := os.MkdirTemp(rt.ScratchRoot(), "c17f-")
	defer os.RemoveAll(dir)
	w, err := wworld.New(dir, wworld.Config{FeeA: sc.Fee, Wallets: []wworld.WalletCfg{{Default: "a"}, {Default: "a"}}})
	if err != nil {
		return c17FaultRes{Err: err.Error()}
	}
	defer w.Close()
	for _, op := range sc.Prep {
		if err := w.Exec(op); err != nil {
			return c17FaultRes{Err: fmt.Sprintf("prep %q: %v", op, err)}
		}
	}
	w.Invariants()
	if len(w.V) > 0 {
		// the fault-free set-up already breaks an invariant: report that, there is nothing to inject into
		for _, v := range w.V {
			if v.Property == "HARNESS" {
				return c17FaultRes{Err: v.What}
			}
			if rt.HasProp(v.Property, "C17") {
				res.V = append(res.V, rt.Violation{Property: "C17", Key: sc.Name + "/set-up/" + v.Key, What: fmt.Sprintf("during the fault-free set-up %v: %s", sc.Prep, v.What)})
			}
		}
		res.Fault = "set-up"
		return res
	}
	var wi int
	fmt.Sscanf(strings.Split(sc.Op, "|")[1], "%d", &wi)
	ww := w.Wallets[wi]
	n := 0
	occ := map[string]int{}
	ww.DB.Fail = func(name string) error {
		if strings.HasPrefix(name, "Delete") {
			// a store that refuses to forget a proof leaves it there whatever the wallet does next: no wallet code can
			// satisfy the oracle under that fault, so deletions are not made to fail
			return nil
		}
		idx := n
		n++
		occ[name]++
		label := name
		if occ[name] > 1 {
			label = fmt.Sprintf("%s#%d", name, occ[name])
		}
		res.Calls = append(res.Calls, label)
		if j.K >= 0 && idx == j.K {
			res.Fault = label
			return errWalletStore
		}
		return nil
	}
	if err := w.Exec(sc.Op); err != nil {
		ww.DB.Fail = nil
		return c17FaultRes{Err: err.Error()}
	}
	ww.DB.Fail = nil
	if j.K < 0 {
		return res
	}
	if res.Fault == "" {
		res.Skip = true
		return res
	}
	res.Calls = nil
	where := fmt.Sprintf("%s/store-error-at:%s", sc.Name, res.Fault)
	w.V = nil
	spentAtMint := func(p cashu.Proof) bool {
		t, err := w.Truth("a")
		return err == nil && t.Spent[world.Y(p.Secret)]
	}
	judge := func(after string) {
		for _, p := range ww.DB.Inner.GetProofs() {
			if spentAtMint(p) {
				res.V = append(res.V, rt.Violation{Property: "C17,C18", Key: where + "/spent-proof-counted-as-spendable", What: fmt.Sprintf("[%s with the wallet-store call %s failing once] after %s the wallet counts a proof of %d as spendable that the mint has already seen spent", sc.Op, res.Fault, after, p.Amount)})
				return
			}
		}
	}
	judge("the failed operation")
	for _, op := range sc.Follow {
		nTok := len(w.Tokens)
		if err := w.Exec(op); err != nil {
			res.Err = err.Error()
			return res
		}
		// a Send that succeeded handed out proofs: each must be unspent at the mint at that moment
		for _, t := range w.Tokens[nTok:] {
			for _, p := range t.Proofs {
				if spentAtMint(p) {
					res.V = append(res.V, rt.Violation{Property: "C17,C18", Key: where + "/later-send-hands-out-spent-proof", What: fmt.Sprintf("[%s with the wallet-store call %s failing once] the later %s succeeded and handed out a proof of %d that is SPENT at the mint", sc.Op, res.Fault, op, p.Amount)})
				}
			}
		}
		judge("the follow-up " + op)
	}
	for _, v := range w.V {
		if v.Property == "HARNESS" {
			res.Err = v.What
		}
		if strings.HasPrefix(v.Key, "wallet-panic") {
			res.V = append(res.V, rt.Violation{Property: "C17", Key: where + "/" + v.Key, What: fmt.Sprintf("[%s with the wallet-store call %s failing once] %s", sc.Op, res.Fault, v.What)})
		}
	}
	return res
}

func runC17Faults(c *rt.Ctx) {
	scns := c17FaultScns()
	if c.Quick() {
		scns = scns[:8]
	}
	jobs := make([]any, len(scns))
	for i, s := range scns {
		jobs[i] = c17FaultJob{FaultScn: s.Name, K: -1}
	}
	counts := make([][]string, len(scns))
	c.Pool.Map(jobs, func(i int, r rt.JobResult) {
		if r.Died {
			rt.HarnessError("C17 fault counting run %s died: %s", scns[i].Name, r.Stderr)
		}
		var res c17FaultRes
		json.Unmarshal(r.Out, &res)
		if res.Err != "" {
			rt.HarnessError("C17 fault counting run %s: %s", scns[i].Name, res.Err)
		}
		for _, v := range res.V {
			c.Violate("C17/"+v.Key, v.What, c17FaultJob{FaultScn: scns[i].Name, K: -1})
		}
		counts[i] = res.Calls
	})
	var fj []c17FaultJob
	for i, s := range scns {
		for k := range counts[i] {
			fj = append(fj, c17FaultJob{FaultScn: s.Name, K: k})
		}
	}
	jobs = make([]any, len(fj))
	for i := range fj {
		jobs[i] = fj[i]
	}
	evals := 0
	per := map[string]int{}
	c.Pool.Map(jobs, func(i int, r rt.JobResult) {
		j := fj[i]
		if r.Died {
			c.Violate(fmt.Sprintf("C17/%s/store-error-at:%d/process-died", j.FaultScn, j.K), "worker died: "+r.Stderr, j)
			return
		}
		var res c17FaultRes
		json.Unmarshal(r.Out, &res)
		if res.Err != "" {
			rt.HarnessError("C17 fault %s k=%d: %s", j.FaultScn, j.K, res.Err)
		}
		if res.Skip {
			return
		}
		evals++
		per[j.FaultScn]++
		c.Count("evaluations", 1)
		c.Distinct(fmt.Sprintf("fault|%s|%s", j.FaultScn, res.Fault))
		for _, v := range res.V {
			c.Violate("C17/"+v.Key, v.What, j)
		}
	})
	fmt.Printf("  store faults: %d scenarios, %d fallible store calls, %d evaluated\n", len(scns), len(fj), evals)
	c.Cov["store_fault_scenarios"] = per
	c.Cov["rule_store_faults"] = "E2 on the wallet store: for each scenario (send with / without swap, with fees, from big coins; receive; melt succeeded / failed / pending then paid; check melt; reclaim; mint; send to pubkey) a counting run lists the wallet-store write calls that can return an error (Save*, Add*, Increment*, Update*; deletions are left out: a store that refuses to delete a spent proof keeps it whatever the wallet does); each is made to fail once (k = 0..n-1); then a fixed follow-up of sends runs. Judged: no proof the mint has seen spent is counted as spendable or handed out by a later successful Send, no panic. Not judged: value the wallet lost track of after a failed write (non-atomic multi-call writes; recoverable from the seed)"
}

func c17FaultWorker(job json.RawMessage) (any, bool) {
	var probe struct{ FaultScn string }
	json.Unmarshal(job, &probe)
	if probe.FaultScn == "" {
		return nil, false
	}
	var j c17FaultJob
	json.Unmarshal(job, &j)
	return c17FaultExec(j), true
}
