package props

import (
	"fmt"
	"strings"
	"time"

	"verif/harness/bfs"
	"verif/harness/mintops"
	"verif/harness/rt"
)

// C02 — no inflation. E3 per fee configuration; conservation inequality in Invariants(), per-operation bounds and the
// fee-limit <= fee_reserve rule in the operation oracles.

func c02Menu(w *mintops.W) []string {
	var ops []string
	if len(w.Quotes) < 3 {
		ops = append(ops, "mq|8")
	}
	for qi, q := range w.Quotes {
		if qi < 1 {
			continue
		}
		if q.Payments == 0 {
			ops = append(ops, fmt.Sprintf("settle|%d", qi))
		}
		for _, v := range []string{"exact", "less", "over", "wrap", "bad3"} {
			ops = append(ops, fmt.Sprintf("mint|%d|%s", qi, v))
		}
	}
	un := w.UnspentIdx(3)
	for _, i := range un {
		for _, v := range []string{"exact", "plus1", "nofee", "wrap"} {
			ops = append(ops, fmt.Sprintf("swap|%d|%s", i, v))
		}
	}
	if len(un) >= 1 {
		// the same proof twice, the copies differing in a field the signature check does not look at
		ops = append(ops, fmt.Sprintf("swap|%d,%dw|exact", un[0], un[0]), fmt.Sprintf("swap|%d,%dd|exact", un[0], un[0]))
	}
	if len(un) >= 2 {
		ops = append(ops, fmt.Sprintf("swap|%d,%d|exact", un[0], un[1]), fmt.Sprintf("swap|%d,%d|plus1", un[0], un[1]))
	}
	// mixed keysets: one old + one new proof
	if len(w.Keysets) > 1 {
		old, nw := -1, -1
		for _, i := range w.UnspentIdx(12) {
			if w.Proofs[i].KS == 0 && old < 0 {
				old = i
			}
			if w.Proofs[i].KS > 0 && nw < 0 {
				nw = i
			}
		}
		if old >= 0 && nw >= 0 {
			ops = append(ops, fmt.Sprintf("swap|%d,%d|exact", old, nw), fmt.Sprintf("swap|%d,%d|plus1", old, nw))
		}
	}
	if len(w.Melts) < 2 {
		ops = append(ops, "meltq|4", "meltqm|3999", "meltqm|1001")
		for qi, q := range w.Quotes {
			if qi >= 1 && q.Payments == 0 {
				ops = append(ops, fmt.Sprintf("meltqh|%d|1", qi))
			}
		}
		if w.Cfg.MPP {
			ops = append(ops, "meltqp|4", "meltqpm|0", "meltqpm|1500")
		}
		for qi, q := range w.Quotes {
			if qi >= 1 && q.Payments == 0 {
				ops = append(ops, fmt.Sprintf("meltqi|%d", qi))
				if w.Cfg.MPP {
					ops = append(ops, fmt.Sprintf("meltqpi|%d", qi))
				}
			}
		}
	}
	for j, m := range w.Melts {
		if m.Known == "" || m.Known == "failure" {
			if in := w.PickMeltInputs(m, 0, 7); in != "" {
				ops = append(ops, fmt.Sprintf("melt|%d|%s|S", j, in), fmt.Sprintf("melt|%d|%s|F|F", j, in), fmt.Sprintf("melt|%d|%s|P", j, in))
			}
			if in := w.PickMeltInputs(m, -1, 7); in != "" {
				ops = append(ops, fmt.Sprintf("melt|%d|%s|S", j, in))
			}
		}
		if m.Known == "none" {
			ops = append(ops, fmt.Sprintf("pollm|%d|S", j), fmt.Sprintf("pollm|%d|F", j))
		}
	}
	if len(w.Keysets) < 2 {
		f2 := 1000
		if w.Cfg.Fee >= 1000 {
			f2 = 100
		}
		ops = append(ops, fmt.Sprintf("rotate|%d", f2))
	}
	ops = append(ops, "restart") // what is enforced must not depend on state that only lives in memory
	return ops
}

// c02MppMenu is the menu of the MPP configuration: the melt-quote shapes are what it is for, so the swap / mint
// over-issuance variants (covered by the per-fee searches) are left out.
func c02MppMenu(w *mintops.W) []string {
	var ops []string
	for _, op := range c02Menu(w) {
		f := strings.Split(op, "|")
		if (f[0] == "swap" || f[0] == "mint") && f[len(f)-1] != "exact" {
			continue
		}
		if f[0] == "swap" && strings.ContainsAny(f[1], "wd") {
			continue
		}
		ops = append(ops, op)
	}
	return ops
}

func c02OwnSpecs(quick bool) []*bfs.Spec {
	fees := []uint{0, 100, 2500}
	d := 3
	if !quick {
		fees = []uint{0, 1, 100, 999, 1000, 2500}
		d = 4
	}
	var specs []*bfs.Spec
	sfx := map[bool]string{true: "-q", false: ""}[quick]
	for _, f := range fees {
		specs = append(specs, &bfs.Spec{Prop: "C02", Name: fmt.Sprintf("C02-fee%d%s", f, sfx), Cfg: mintops.Config{Fee: f},
			Init: []string{"fund|8,4,2,1,1,1,1"}, Menu: c02Menu, Depth: d})
	}
	// MPP configuration; an unpaid own quote is already present so that partial melts of the mint's OWN invoice are in reach
	specs = append(specs, &bfs.Spec{Prop: "C02", Name: "C02-mpp-fee100" + sfx, Cfg: mintops.Config{Fee: 100, MPP: true},
		Init: []string{"fund|8,4,2,1,1,1,1", "mq|8"}, Menu: c02MppMenu, Depth: d})
	if !quick {
		// one level deeper where the remaining budget allows (run last; a cut level is reported as not completed)
		specs = append(specs, &bfs.Spec{Prop: "C02", Name: "C02-mpp-fee100-d5", Cfg: mintops.Config{Fee: 100, MPP: true},
			Init: []string{"fund|8,4,2,1,1,1,1", "mq|8"}, Menu: c02MppMenu, Depth: 5})
		for _, f := range []uint{100, 0} {
			specs = append(specs, &bfs.Spec{Prop: "C02", Name: fmt.Sprintf("C02-fee%d-d5", f), Cfg: mintops.Config{Fee: f},
				Init: []string{"fund|8,4,2,1,1,1,1"}, Menu: c02Menu, Depth: 5})
		}
	}
	return specs
}

var c02All = specMap(c02Specs(true), c02Specs(false))

func init() {
	register(&Prop{ID: "C02", Level: "model_checking", QuickBudget: 300 * time.Second, ThoroughBudget: 25 * time.Minute,
		Run: func(c *rt.Ctx) {
			c.Cov["rule"] = "E3, one search per input_fee_ppk (quick {0,100,2500}, thorough {0,1,100,999,1000,2500}) plus one with MPP: every history up to the depth bound over {mint quote, settle, mint x {exact, less, +1, 2^63+2^63 wrap-around, amount 3}, swap x {inputs-fee, +1, inputs, wrap-around} on single / paired / mixed-keyset inputs and on the same proof twice (witness / DLEQ field changed), melt quote (external, external with a non-round msat amount, forged invoice carrying the payment hash of an own unpaid mint quote, internal, MPP partial incl. parts of 0 and 1500 msat), melt with inputs exactly amount+reserve+fee and one less x {Succeeded, Failed->Failed, Pending}, poll x {Succeeded, Failed}, rotate to a second fee}; Lightning model charges the whole fee limit; invariant in every state, in msat: outstanding ecash (model and the mint's own signature store, whichever is larger) + Lightning outflow incl. fee limits (+ in-flight beyond locked inputs) <= Lightning inflow + internal settlements, and every fee limit handed to the backend <= the quote's fee_reserve"
			var main, deep []*bfs.Spec
			for _, sp := range c02Specs(c.Quick()) {
				if strings.HasSuffix(sp.Name, "-d5") {
					deep = append(deep, sp)
				} else {
					main = append(main, sp)
				}
			}
			runSpecs(c, main)
			defer runSpecs(c, deep)
			// inflation through a race (beyond the statement's sequential quantifier, cheap): the E1 scenarios of C01 / C03 under
			// their value oracles — a quote issued beyond its payments, or ecash outstanding beyond the Lightning inflow
			c.Cov["rule_schedules"] = "E1 (scenario bodies of C01 / C03): concurrent mint requests, polls and the invoice notification on one quote; swap / melt / pending-melt resolution on one proof; every interleaving at MintDB / Lightning call granularity with at most B preemptions; oracle: signatures issued <= quote amount x payments, outstanding + Lightning outflow <= inflow"
			b := 2
			if !c.Quick() {
				b = 3
			}
			if c.Quick() {
				runSched(c, "C02", []string{"M1-mint-mint", "M3-mint-poll-watcher", "M5-mint-poll-settlement", "S2-swap-melt", "S6-pendingmelt-poll-swap"}, b)
			} else {
				runSchedAll(c, "C02", []string{"M1-mint-mint", "M3-mint-poll-watcher", "M5-mint-poll-settlement", "S2-swap-melt", "S6-pendingmelt-poll-swap"}, b)
			}
		},
		Worker: dispatchWorker(bfs.Worker(c02All)),
		Replay: func(p string) int {
			if code, ok := replaySched("C02", p); ok {
				return code
			}
			return bfs.ReplayFile("C02", c02All, p)
		},
	})
}

// c02Specs: the property's own searches plus the shallow search over the union of all mint-level menus (seqcommon.go).
func c02Specs(quick bool) []*bfs.Spec {
	return append(c02OwnSpecs(quick), unionSpecs("C02", nil, quick)...)
}
