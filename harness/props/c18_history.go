package props

import (
	"encoding/json"
	"os"

	"verif/harness/rt"
	"verif/harness/wworld"
)

// C18, history part: the fee a fee-including send adds is the fee of the keyset the handed-out proofs are on, also when
// the mint rotated to a keyset with another fee while the wallet was running and the send is the first to notice.
func c18WSpecs() []*wSpec {
	two := func(fee uint) wworld.Config {
		return wworld.Config{FeeA: fee, Wallets: []wworld.WalletCfg{{Default: "a"}, {Default: "a"}}}
	}
	none := func(*wworld.World) []string { return nil }
	var out []*wSpec
	for _, c := range []struct {
		name     string
		from, to uint
	}{{"100-1000", 100, 1000}, {"1000-0", 1000, 0}, {"0-100", 0, 100}} {
		for _, amt := range []string{"4", "8"} {
			out = append(out, &wSpec{Prop: "C18", Name: "C18-rotation-while-running-" + c.name + "-send" + amt, Cfg: two(c.from),
				Init: []string{"give|0|64", "rotate|a|" + itoa(int(c.to)), "send|0|" + amt + "|1", "recv|1|0|0"}, Menu: none, Depth: 0, NoInvariants: true})
		}
	}
	return out
}

func itoa(i int) string { b, _ := json.Marshal(i); return string(b) }

var c18WAll = wSpecMap(c18WSpecs())

func init() {
	p := Registry["C18"]
	enum := p.Run
	p.Run = func(c *rt.Ctx) {
		enum(c)
		c.Cov["rule_history"] = "history part (wallet world): a wallet holding one 64 sat proof, the mint rotates to a keyset with another fee (100->1000, 1000->0, 0->100 ppk) while the wallet runs, Send(4 / 8, includeFees) is the first operation to notice, a second wallet redeems the token: it nets exactly the amount"
		runWSpecs(c, c18WSpecs())
	}
	enumWorker := p.Worker
	p.Worker = func(job json.RawMessage) (any, error) {
		var probe struct{ Spec string }
		json.Unmarshal(job, &probe)
		if _, ok := c18WAll[probe.Spec]; ok {
			return wWorker(c18WAll)(job)
		}
		return enumWorker(job)
	}
	enumReplay := p.Replay
	p.Replay = func(path string) int {
		if b, err := os.ReadFile(path); err == nil {
			var v struct{ Replay struct{ Spec string } }
			if json.Unmarshal(b, &v) == nil {
				if _, ok := c18WAll[v.Replay.Spec]; ok {
					return wReplay("C18", c18WAll, path)
				}
			}
		}
		return enumReplay(path)
	}
}
