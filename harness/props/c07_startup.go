package props

import (
	"database/sql"
	"encoding/json"
	"fmt"
	"os"
	"path/filepath"
	"sort"
	"strings"

	"github.com/elnosh/gonuts/cashu"
	"github.com/elnosh/gonuts/mint/storage/sqlite"

	"verif/harness/lnmodel"
	"verif/harness/rt"
	"verif/harness/world"
)

// C07, start-up part. LoadMint's own store calls run before hook H1 can wrap the store, so they are faulted one level
// below: an SQLite trigger makes the n-th kind of write (INSERT INTO seed / INSERT INTO keysets / UPDATE keysets) fail
// while LoadMint runs — which is also what a stop before that write leaves behind, every write being its own
// transaction and LoadMint giving up at the first error. Then the trigger is dropped and the mint is started again,
// twice, with traffic in between. Oracles: the mint starts; exactly one active keyset; the keysets served are the same
// after every further restart (ids, fees, keys) and contain every keyset seen before the fault; ecash issued before the
// fault and between the restarts is still honoured.

type c07StartJob struct {
	Startup string // first-boot | restart-rotate | restart-rotate-again
	Fail    string // insert:seed | insert:keysets | update:keysets
}

type c07StartRes struct {
	V   []rt.Violation
	Err string
	Hit bool // LoadMint returned an error while the trigger was armed
}

func c07StartJobs() []c07StartJob {
	var j []c07StartJob
	for _, s := range []string{"first-boot", "restart-rotate", "restart-rotate-again"} {
		for _, f := range []string{"insert:seed", "insert:keysets", "update:keysets"} {
			j = append(j, c07StartJob{s, f})
		}
	}
	return j
}

func c07Trigger(dir, fail string, arm bool) error {
	db, err := sql.Open("sqlite3", "file:"+filepath.Join(dir, "mint.sqlite.db"))
	if err != nil {
		return err
	}
	defer db.Close()
	f := strings.Split(fail, ":")
	name := "verif_fail_" + f[0] + "_" + f[1]
	if !arm {
		_, err = db.Exec("DROP TRIGGER IF EXISTS " + name)
		return err
	}
	_, err = db.Exec(fmt.Sprintf("CREATE TRIGGER %s BEFORE %s ON %s BEGIN SELECT RAISE(ABORT, 'verif: injected storage failure'); END", name, strings.ToUpper(f[0]), f[1]))
	return err
}

func c07StartExec(j c07StartJob) (res c07StartRes) {
	dir, _ := os.MkdirTemp(rt.ScratchRoot(), "c07s-")
	defer os.RemoveAll(dir)
	ln := lnmodel.New()
	m := &world.MintW{Cfg: world.Cfg{Name: "a", Dir: filepath.Join(dir, "mint")}, LN: ln}
	os.MkdirAll(m.Dir, 0o700)
	viol := func(key, format string, a ...any) {
		res.V = append(res.V, rt.Violation{Property: "C07,C09", Key: fmt.Sprintf("LoadMint/%s/write-fails:%s/%s", j.Startup, j.Fail, key), What: fmt.Sprintf("[%s, %s made to fail once] ", j.Startup, j.Fail) + fmt.Sprintf(format, a...)})
	}
	safeLoad := func(rotate bool, fee uint) (err error) {
		defer func() {
			if r := recover(); r != nil {
				err = fmt.Errorf("LoadMint panicked: %v", r)
			}
		}()
		m.Shutdown()
		return m.Load(rotate, fee)
	}
	type ks struct {
		Id     string
		Fee    uint
		Active bool
		Keys   string
	}
	snapshot := func() []ks {
		var out []ks
		for _, k := range m.M.ListKeysets().Keysets {
			full, _ := m.M.GetKeysetById(k.Id)
			var amts []uint64
			for a := range full.Keys {
				amts = append(amts, a)
			}
			sort.Slice(amts, func(i, j int) bool { return amts[i] < amts[j] })
			var sb strings.Builder
			for _, a := range amts {
				fmt.Fprintf(&sb, "%d:%x;", a, full.Keys[a].SerializeCompressed())
			}
			out = append(out, ks{k.Id, k.InputFeePpk, k.Active, sb.String()})
		}
		sort.Slice(out, func(i, j int) bool { return out[i].Id < out[j].Id })
		return out
	}
	u := &world.User{Tag: "c07s"}
	mintOne := func() (cashu.Proof, error) { // mints 8 sat on the active keyset
		ps, err := m.Fund(u, 8)
		if err != nil {
			return cashu.Proof{}, err
		}
		return ps[0], nil
	}
	// the store with its tables (the migrations), no seed, no keyset: what a first start finds
	db, err := sqlite.InitSQLite(m.Dir)
	if err != nil {
		return c07StartRes{Err: err.Error()}
	}
	db.Close()
	var before []ks
	var held []cashu.Proof
	if j.Startup != "first-boot" {
		if err := safeLoad(false, 0); err != nil {
			return c07StartRes{Err: "set-up start: " + err.Error()}
		}
		if j.Startup == "restart-rotate-again" {
			if err := safeLoad(true, 100); err != nil {
				return c07StartRes{Err: "set-up rotation: " + err.Error()}
			}
		}
		p, err := mintOne()
		if err != nil {
			return c07StartRes{Err: "set-up mint: " + err.Error()}
		}
		held = append(held, p)
		before = snapshot()
		m.Shutdown()
	}
	if err := c07Trigger(m.Dir, j.Fail, true); err != nil {
		return c07StartRes{Err: "trigger: " + err.Error()}
	}
	err = safeLoad(j.Startup != "first-boot", 250)
	res.Hit = err != nil
	m.Shutdown()
	if err := c07Trigger(m.Dir, j.Fail, false); err != nil {
		return c07StartRes{Err: "trigger: " + err.Error()}
	}
	if !res.Hit {
		return res // this start does not make that kind of write
	}
	var prev []ks
	for round := 1; round <= 3; round++ {
		if err := safeLoad(false, 250); err != nil {
			viol("restart-fails", "start %d after the failed start does not come up: %v", round, err)
			return res
		}
		now := snapshot()
		act := 0
		for _, k := range now {
			if k.Active {
				act++
			}
		}
		if act != 1 {
			viol("active-keyset-count", "start %d after the failed start serves %d active keysets", round, act)
		}
		has := map[string]ks{}
		for _, k := range now {
			has[k.Id] = k
		}
		for _, k := range before {
			if n, ok := has[k.Id]; !ok || n.Keys != k.Keys || n.Fee != k.Fee {
				viol("earlier-keyset-changed", "keyset %s served before the failed start is gone or changed at start %d", k.Id, round)
			}
		}
		if prev != nil && fmt.Sprint(prev) != fmt.Sprint(now) {
			viol("keysets-differ-between-restarts", "the keysets served at start %d differ from those at start %d (ids %v vs %v)", round, round-1, ids(now), ids(prev))
		}
		prev = now
		// new ecash for the next round
		p, err := mintOne()
		if err != nil {
			viol("mint-after-restart-fails", "minting at start %d: %v", round, err)
			continue
		}
		held = append(held, p)
	}
	// every proof issued along the way is accepted by the last instance
	for i, hp := range held {
		fee := uint64(0)
		for _, k := range m.M.ListKeysets().Keysets {
			if k.Id == hp.Id {
				fee = (uint64(k.InputFeePpk) + 999) / 1000
			}
		}
		outs := u.Outputs(m.ActiveID(), world.Split(hp.Amount-fee)...)
		if _, err := m.M.Swap(cashu.Proofs{hp}, world.Msgs(outs)); err != nil {
			viol("earlier-ecash-refused", "proof %d (keyset %s) issued earlier (before the fault or between restarts) is refused by the running mint: %v", i, hp.Id, err)
		}
	}
	m.Shutdown()
	return res
}

func ids[T any](l []T) string { return fmt.Sprintf("%d keysets", len(l)) }

func runC07Startup(c *rt.Ctx) {
	jobs := c07StartJobs()
	js := make([]any, len(jobs))
	for i := range jobs {
		js[i] = jobs[i]
	}
	hits := 0
	c.Pool.Map(js, func(i int, r rt.JobResult) {
		if r.Died {
			c.Violate(fmt.Sprintf("C07/LoadMint/%s/write-fails:%s/process-died", jobs[i].Startup, jobs[i].Fail), "worker died: "+r.Stderr, jobs[i])
			return
		}
		var res c07StartRes
		json.Unmarshal(r.Out, &res)
		if res.Err != "" {
			rt.HarnessError("C07 start-up %v: %s", jobs[i], res.Err)
		}
		if !res.Hit {
			return
		}
		hits++
		c.Count("evaluations", 1)
		c.Distinct(fmt.Sprintf("startup|%s|%s", jobs[i].Startup, jobs[i].Fail))
		for _, v := range res.V {
			c.Violate("C07/"+v.Key, v.What, jobs[i])
		}
	})
	fmt.Printf("  start-up write faults: %d (start kind x failing write) cases, %d reached a write of that kind\n", len(jobs), hits)
	c.Cov["startup_write_faults"] = map[string]any{"cases": len(jobs), "reached": hits}
	c.Cov["rule_startup"] = "LoadMint's own writes (first start: seed, first keyset; start with rotation: deactivate, new keyset) are made to fail one kind at a time through an SQLite trigger (equivalent to a stop before that write); afterwards three further starts with traffic: the mint comes up, exactly one active keyset, every keyset seen before unchanged, the served keysets identical from start to start, all ecash issued along the way still accepted"
}
