package props

import (
	"crypto/md5"
	"crypto/sha1"
	"bytes"
	"crypto/sha256"
	"encoding/hex"
	"encoding/json"
	"errors"
	"fmt"
	"regexp"
	"sort"
	"strconv"
	"strings"
	"time"

	"github.com/decred/dcrd/dcrec/secp256k1/v4"
	"github.com/elnosh/gonuts/cashu"
	"github.com/elnosh/gonuts/cashu/nuts/nut20"
	"github.com/elnosh/gonuts/mint"

	"verif/harness/bfs"
	"verif/harness/dbwrap"
	"verif/harness/lnmodel"
	"verif/harness/mintops"
	"verif/harness/rt"
	"verif/harness/world"
)

// C20 — the HTTP/JSON surface is a faithful, spec-shaped transport of the mint's decisions. Everything goes through
// hook H2 with JSON text assembled by the harness and decoded into generic maps: none of the repository's request /
// response types is used, so a wrong field name or enum encoding cannot cancel out.

var (
	reHex66 = regexp.MustCompile(`^0[23][0-9a-f]{64}$`)
	reHex64 = regexp.MustCompile(`^[0-9a-f]{64}$`)
	reKsID  = regexp.MustCompile(`^00[0-9a-f]{14}$`)
)

type c20 struct {
	w    *mintops.W
	keys map[uint64]*secp256k1.PublicKey
	act  string
	ppk  uint64 // input_fee_ppk of the active keyset as served by /v1/keysets
	n    int    // requests sent
}

// fee for n inputs of the active keyset (all proofs the probe spends are minted by itself on the active keyset)
func (x *c20) fee(n int) uint64 { return (uint64(n)*x.ppk + 999) / 1000 }

// outsFor returns fresh outputs worth exactly total (0 => none)
func (x *c20) outsFor(total uint64) []world.Out {
	if total == 0 {
		return nil
	}
	return x.w.U.Outputs(x.act, world.Split(total)...)
}

func (x *c20) viol(key, format string, a ...any) { x.w.Viol("C20", key, format, a...) }

type resp struct {
	code int
	raw  string
	obj  map[string]any
	db   int64 // MintDB calls made while serving
	pan  any
}

func (x *c20) call(method, path, body string) resp {
	// only store calls made while serving THIS request on this goroutine count (the mint's invoice watchers run in
	// their own goroutines and read the store when they start)
	before := x.w.M.DB.CallsByMe()
	code, raw, pan := world.Do(x.w.M.H, method, path, body)
	x.n++
	r := resp{code: code, raw: raw, db: x.w.M.DB.CallsByMe() - before, pan: pan}
	if pan != nil {
		x.w.Viol("C06,C20", "handler-panic/"+method+" "+pathClass(path), "%s %s panicked: %v", method, path, pan)
		return r
	}
	d := json.NewDecoder(strings.NewReader(raw))
	d.UseNumber()
	var o any
	if err := d.Decode(&o); err == nil {
		r.obj, _ = o.(map[string]any)
	}
	return r
}

func pathClass(p string) string {
	f := strings.Split(p, "/")
	for i, s := range f {
		if len(s) > 20 {
			f[i] = "{id}"
		}
	}
	return strings.Join(f, "/")
}

func keysOf(m map[string]any) []string {
	var k []string
	for x := range m {
		k = append(k, x)
	}
	sort.Strings(k)
	return k
}

// shape: exact key set (required + optional)
func (x *c20) shape(where string, o map[string]any, required []string, optional ...string) bool {
	if o == nil {
		x.viol("shape/"+where+"/not-an-object", "%s: body is not a JSON object", where)
		return false
	}
	ok := true
	for _, k := range required {
		v, has := o[k]
		if !has {
			x.viol("shape/"+where+"/missing:"+k, "%s: field %q missing (has %v)", where, k, keysOf(o))
			ok = false
		} else if v == nil && k != "payment_preimage" && k != "pubkey" && k != "change" {
			// the NUTs define these members as arrays / objects / strings / numbers: null is none of them (a typed client
			// decoding into a list fails on it)
			x.viol("shape/"+where+"/null:"+k, "%s: field %q is null", where, k)
			ok = false
		}
	}
	allowed := map[string]bool{}
	for _, k := range append(append([]string{}, required...), optional...) {
		allowed[k] = true
	}
	for k := range o {
		if !allowed[k] {
			x.viol("shape/"+where+"/unexpected:"+k, "%s: unexpected field %q", where, k)
			ok = false
		}
	}
	return ok
}

func (x *c20) expect200(where string, r resp) bool {
	if r.code != 200 {
		x.viol("honest-request-refused/"+where, "%s: status %d body %.200q", where, r.code, r.raw)
		return false
	}
	return true
}

// expectErr: status 400, body exactly {detail, code} with the given code.
func (x *c20) expectErr(row string, r resp, code int) {
	if r.pan != nil {
		return
	}
	if r.code != 400 {
		x.viol("error-table/"+row+"/status", "%s: expected 400 with code %d, got status %d body %.160q", row, code, r.code, r.raw)
		return
	}
	if r.obj == nil || len(r.obj) != 2 || r.obj["detail"] == nil || r.obj["code"] == nil {
		x.viol("error-table/"+row+"/body-shape", "%s: error body is not exactly {detail, code}: %.160q", row, r.raw)
		return
	}
	if _, isStr := r.obj["detail"].(string); !isStr {
		x.viol("error-table/"+row+"/detail-type", "%s: detail is not a string: %.160q", row, r.raw)
	}
	got, _ := r.obj["code"].(json.Number)
	if got.String() != strconv.Itoa(code) {
		x.viol("error-table/"+row+"/code", "%s: expected NUT error code %d, got %s (%v)", row, code, got, r.obj["detail"])
	}
}

func (x *c20) quoteShape(where string, o map[string]any, state string) {
	if !x.shape(where, o, []string{"quote", "request", "amount", "unit", "state", "expiry"}, "pubkey") {
		return
	}
	if s, _ := o["state"].(string); s != state {
		x.viol("shape/"+where+"/state", "%s: state %v, expected the string %q", where, o["state"], state)
	}
	if u, _ := o["unit"].(string); u != "sat" {
		x.viol("shape/"+where+"/unit", "%s: unit %v", where, o["unit"])
	}
	if _, ok := o["expiry"].(json.Number); !ok {
		x.viol("shape/"+where+"/expiry", "%s: expiry is not an integer: %v", where, o["expiry"])
	}
	if rq, _ := o["request"].(string); !strings.HasPrefix(rq, "ln") {
		x.viol("shape/"+where+"/request", "%s: request is not a bolt11 string", where)
	}
}

func (x *c20) meltQuoteShape(where string, o map[string]any, state string) {
	if !x.shape(where, o, []string{"quote", "request", "amount", "unit", "fee_reserve", "state", "expiry"}, "payment_preimage", "change") {
		return
	}
	if s, _ := o["state"].(string); s != state {
		x.viol("shape/"+where+"/state", "%s: state %v, expected the string %q", where, o["state"], state)
	}
	if state == "PAID" {
		if p, _ := o["payment_preimage"].(string); p == "" {
			x.viol("shape/"+where+"/preimage", "%s: PAID without payment_preimage", where)
		}
	}
}

func (x *c20) sigsShape(where string, o map[string]any, outs []world.Out) cashu.BlindedSignatures {
	if !x.shape(where, o, []string{"signatures"}) {
		return nil
	}
	l, _ := o["signatures"].([]any)
	if len(l) != len(outs) {
		x.viol("shape/"+where+"/count", "%s: %d signatures for %d outputs", where, len(l), len(outs))
		return nil
	}
	var sigs cashu.BlindedSignatures
	for i, e := range l {
		s, _ := e.(map[string]any)
		if !x.shape(where+"/signature", s, []string{"amount", "id", "C_", "dleq"}) {
			return nil
		}
		c, _ := s["C_"].(string)
		id, _ := s["id"].(string)
		if !reHex66.MatchString(c) || !reKsID.MatchString(id) {
			x.viol("shape/"+where+"/signature-encoding", "%s: C_ %q / id %q not lower-case hex of the expected length", where, c, id)
		}
		d, _ := s["dleq"].(map[string]any)
		if !x.shape(where+"/dleq", d, []string{"e", "s"}) {
			return nil
		}
		e1, _ := d["e"].(string)
		s1, _ := d["s"].(string)
		if !reHex64.MatchString(e1) || !reHex64.MatchString(s1) {
			x.viol("shape/"+where+"/dleq-encoding", "%s: dleq e/s not 64 lower-case hex chars", where)
		}
		amt, _ := s["amount"].(json.Number)
		a, err := strconv.ParseUint(amt.String(), 10, 64)
		if err != nil || a != outs[i].Msg.Amount {
			x.viol("shape/"+where+"/amount", "%s: signature %d amount %v, requested %d", where, i, s["amount"], outs[i].Msg.Amount)
		}
		sigs = append(sigs, cashu.BlindedSignature{Amount: a, Id: id, C_: c, DLEQ: &cashu.DLEQProof{E: e1, S: s1}})
	}
	return sigs
}

// keysShape validates a /v1/keys style body incl. decimal-string keys in ascending numeric order (token stream).
func (x *c20) keysShape(where, raw string, wantID string) map[uint64]*secp256k1.PublicKey {
	var top struct {
		Keysets []json.RawMessage `json:"keysets"`
	}
	var gen map[string]any
	if json.Unmarshal([]byte(raw), &gen) != nil || !x.shape(where, gen, []string{"keysets"}) || json.Unmarshal([]byte(raw), &top) != nil || len(top.Keysets) != 1 {
		x.viol("shape/"+where+"/keysets", "%s: expected exactly one keyset: %.120q", where, raw)
		return nil
	}
	var ks map[string]json.RawMessage
	json.Unmarshal(top.Keysets[0], &ks)
	var g2 map[string]any
	json.Unmarshal(top.Keysets[0], &g2)
	if !x.shape(where+"/keyset", g2, []string{"id", "unit", "keys"}) {
		return nil
	}
	var id string
	json.Unmarshal(ks["id"], &id)
	if wantID != "" && id != wantID {
		x.viol("shape/"+where+"/id", "%s: keyset id %q, expected %q", where, id, wantID)
	}
	dec := json.NewDecoder(bytes.NewReader(ks["keys"]))
	tok, _ := dec.Token()
	if d, ok := tok.(json.Delim); !ok || d != '{' {
		x.viol("shape/"+where+"/keys-type", "%s: keys is not an object", where)
		return nil
	}
	out := map[uint64]*secp256k1.PublicKey{}
	prev := uint64(0)
	n := 0
	for dec.More() {
		kt, _ := dec.Token()
		k, _ := kt.(string)
		a, err := strconv.ParseUint(k, 10, 64)
		if err != nil || strconv.FormatUint(a, 10) != k {
			x.viol("shape/"+where+"/key-not-decimal", "%s: key %q is not a canonical decimal amount", where, k)
			return nil
		}
		if n > 0 && a <= prev {
			x.viol("shape/"+where+"/keys-not-ascending", "%s: amount %d follows %d", where, a, prev)
		}
		prev = a
		n++
		vt, _ := dec.Token()
		v, _ := vt.(string)
		if !reHex66.MatchString(v) {
			x.viol("shape/"+where+"/key-encoding", "%s: public key for %d is %q", where, a, v)
			return nil
		}
		b, _ := hex.DecodeString(v)
		pk, err := secp256k1.ParsePubKey(b)
		if err != nil {
			x.viol("shape/"+where+"/key-invalid", "%s: public key for %d is not a curve point", where, a)
			return nil
		}
		out[a] = pk
	}
	if n != 60 {
		x.viol("shape/"+where+"/key-count", "%s: %d keys", where, n)
	}
	return out
}

func (x *c20) mintQuote(amount uint64, extra string) (string, string) {
	body := fmt.Sprintf(`{"amount":%d,"unit":"sat"%s}`, amount, extra)
	r := x.call("POST", "/v1/mint/quote/bolt11", body)
	if !x.expect200("mintquote", r) {
		return "", ""
	}
	x.quoteShape("mintquote", r.obj, "UNPAID")
	qid, _ := r.obj["quote"].(string)
	req, _ := r.obj["request"].(string)
	// the harness pays through the Lightning model: find the invoice by request
	for h, inv := range x.w.LN.Invoices {
		if inv.Request == req {
			// let the mint's watcher goroutine finish its start-up reads and park in Recv before anything else happens
			x.w.LN.WaitBlocked(h, 1)
			return qid, h
		}
	}
	x.viol("shape/mintquote/request-unknown", "mint quote request is not an invoice the backend created")
	return qid, ""
}

func outsJSON(outs []world.Out) string {
	return jsonStr(msgsJSON(outs))
}

func (x *c20) unblind(sigs cashu.BlindedSignatures, outs []world.Out) cashu.Proofs {
	ps, err := world.Unblind(sigs, outs, x.keys)
	if err != nil {
		x.viol("signatures-unusable", "cannot unblind returned signatures with the keys served by /v1/keys: %v", err)
		return nil
	}
	return ps
}

func insJSON(ps cashu.Proofs) string { return jsonStr(proofsJSON(ps)) }

// nearReplays of a cached request: none may be answered from the cache.
func nearReplays(path, body string) [][3]string {
	var out [][3]string
	add := func(class, p, b string) { out = append(out, [3]string{class, p, b}) }
	add("trailing-newline", path, body+"\n")
	add("leading-space", path, " "+body)
	add("space-after-brace", path, strings.Replace(body, "{", "{ ", 1))
	if i := strings.Index(body, `","`); i > 0 {
		add("space-after-comma", path, body[:i+2]+" "+body[i+2:])
	}
	// one hex digit changed inside a value (last B_)
	if i := strings.LastIndex(body, `"B_":"`); i > 0 {
		p := i + len(`"B_":"`) + 10
		c := byte('0')
		if body[p] == '0' {
			c = '1'
		}
		add("hex-digit-changed", path, body[:p]+string(c)+body[p+1:])
	}
	// key order swapped at top level
	var m map[string]json.RawMessage
	if json.Unmarshal([]byte(body), &m) == nil && len(m) >= 2 {
		ks := make([]string, 0, len(m))
		for k := range m {
			ks = append(ks, k)
		}
		sort.Sort(sort.Reverse(sort.StringSlice(ks)))
		var sb strings.Builder
		sb.WriteString("{")
		for i, k := range ks {
			if i > 0 {
				sb.WriteString(",")
			}
			sb.WriteString(strconv.Quote(k) + ":" + string(m[k]))
		}
		sb.WriteString("}")
		if sb.String() != body {
			add("key-order-swapped", path, sb.String())
		}
		// extra unknown field
		add("extra-field", path, strings.TrimSuffix(body, "}")+`,"x":1}`)
	}
	add("query-string", path+"?x=1", body)
	other := "/v1/swap"
	if path == "/v1/swap" {
		other = "/v1/mint/bolt11"
	}
	add("other-path", other, body)
	return out
}

func (x *c20) nut19(where, path, body string, first resp, errCode int) {
	// byte-identical replay, several times within the advertised ttl (seconds after the first answer, ttl 300 s):
	// identical answer, nothing executed — every time, not only the first
	replay := func(nth string) {
		r := x.call("POST", path, body)
		if r.code != 200 || r.raw != first.raw {
			x.viol("nut19/"+where+"/replay-differs", "%s replay of the byte-identical %s request returned status %d and a %s body: %.120q", nth, where, r.code, map[bool]string{true: "identical", false: "different"}[r.raw == first.raw], r.raw)
		}
		if r.db != 0 {
			x.viol("nut19/"+where+"/replay-executed", "%s replay of the byte-identical %s request made %d MintDB calls (executed again)", nth, where, r.db)
		}
	}
	replay("first")
	replay("second")
	replay("third")
	defer replay("a later (after the near replays)")
	for _, nr := range nearReplays(path, body) {
		r := x.call("POST", nr[1], nr[2])
		if r.code == 200 && r.raw == first.raw {
			x.viol("nut19/"+where+"/near-replay-served-from-cache/"+nr[0], "a request differing from the cached %s request by %s was answered with the cached response", where, nr[0])
			continue
		}
		if r.code == 200 {
			x.viol("nut19/"+where+"/near-replay-accepted/"+nr[0], "near replay (%s) of a %s request whose inputs / quote are used up was answered 200: %.120q", nr[0], where, r.raw)
			continue
		}
		if r.db == 0 && nr[0] != "other-path" && nr[0] != "hex-digit-changed" {
			x.viol("nut19/"+where+"/near-replay-not-executed/"+nr[0], "near replay (%s) was refused without touching the store (status %d %.100q)", nr[0], r.code, r.raw)
		}
	}
	// GET with the same path must not be served from the POST cache
	g := x.call("GET", path, "\x00nobody")
	if g.code == 200 && g.raw == first.raw {
		x.viol("nut19/"+where+"/get-served-from-cache", "GET %s was answered with the cached POST response", path)
	}
	// ... nor a GET whose path variable is a digest of the cached request (any client can compute those; a cache shared
	// between endpoints and keyed by a digest would answer it): sha256 / sha1 / md5 over the usual ways of joining
	// method, path and body
	for _, pre := range []string{"POST" + path, path, "", "POST " + path, "POST" + path + "\n"} {
		in := []byte(pre + body)
		h256, h1, h5 := sha256.Sum256(in), sha1.Sum(in), md5.Sum(in)
		for _, id := range []string{hex.EncodeToString(h256[:]), hex.EncodeToString(h1[:]), hex.EncodeToString(h5[:]), hex.EncodeToString(h256[:8])} {
			for _, gp := range []string{"/v1/keys/", "/v1/mint/quote/bolt11/", "/v1/melt/quote/bolt11/"} {
				r := x.call("GET", gp+id, "\x00nobody")
				if r.code == 200 {
					x.viol("nut19/"+where+"/get-by-digest-of-cached-request-answered-200", "GET %s<digest of the cached %s request> was answered 200: %.120q", gp, where, r.raw)
				}
			}
		}
	}
}

func shaHex(s string) string {
	h := sha256.Sum256([]byte(s))
	return hex.EncodeToString(h[:])
}

func p2pkSecret(pub string) string {
	return fmt.Sprintf(`["P2PK",{"nonce":"%s","data":"%s","tags":[]}]`, shaHex("nonce" + pub)[:32], pub)
}

func htlcSecret(hash string) string {
	return fmt.Sprintf(`["HTLC",{"nonce":"%s","data":"%s","tags":[]}]`, shaHex("nonce" + hash)[:32], hash)
}

func c20Probe(limits bool) func(w *mintops.W) {
	return func(w *mintops.W) {
		x := &c20{w: w}
		u := w.U
		// ---- GET endpoints ----
		r := x.call("GET", "/v1/keysets", "\x00nobody")
		if x.expect200("keysets", r) && x.shape("keysets", r.obj, []string{"keysets"}) {
			l, _ := r.obj["keysets"].([]any)
			nAct := 0
			for _, e := range l {
				k, _ := e.(map[string]any)
				if x.shape("keysets/entry", k, []string{"id", "unit", "active", "input_fee_ppk"}) {
					if a, ok := k["active"].(bool); ok && a {
						nAct++
						x.act, _ = k["id"].(string)
						if f, ok := k["input_fee_ppk"].(json.Number); ok {
							x.ppk, _ = strconv.ParseUint(f.String(), 10, 64)
						} else {
							x.viol("shape/keysets/fee-type", "input_fee_ppk is not a number")
						}
					} else if !ok {
						x.viol("shape/keysets/active-type", "active is not a boolean")
					}
					if id, _ := k["id"].(string); !reKsID.MatchString(id) {
						x.viol("shape/keysets/id", "keyset id %q", id)
					}
				}
			}
			if nAct != 1 {
				x.viol("shape/keysets/active-count", "%d active keysets listed", nAct)
			}
		}
		r = x.call("GET", "/v1/keys", "\x00nobody")
		if x.expect200("keys", r) {
			x.keys = x.keysShape("keys", r.raw, x.act)
		}
		for _, k := range w.Keysets {
			r = x.call("GET", "/v1/keys/"+k.Id, "\x00nobody")
			if x.expect200("keys-by-id", r) {
				x.keysShape("keys-by-id", r.raw, k.Id)
			}
		}
		x.expectErr("unknown-keyset-12001(GET keys/{id})", x.call("GET", "/v1/keys/00ffffffffffffff", "\x00nobody"), 12001)
		// path variables that are no keyset ids but words a response cache could use as keys of other entries (GET /v1/keys
		// and GET /v1/info have been answered just before)
		x.call("GET", "/v1/info", "\x00nobody")
		for _, word := range []string{"active_keyset_key", "active_keyset", "keysets_key", "keysets", "keys", "mint_info_key", "info"} {
			x.expectErr("unknown-keyset-12001(GET keys/"+word+")", x.call("GET", "/v1/keys/"+word, "\x00nobody"), 12001)
		}
		r = x.call("GET", "/v1/info", "\x00nobody")
		if x.expect200("info", r) && r.obj != nil {
			for _, k := range []string{"name", "pubkey", "version", "nuts"} {
				if _, ok := r.obj[k]; !ok {
					x.viol("shape/info/missing:"+k, "info lacks %q", k)
				}
			}
			if pk, _ := r.obj["pubkey"].(string); !reHex66.MatchString(pk) {
				x.viol("shape/info/pubkey", "pubkey %q", pk)
			}
			nuts, _ := r.obj["nuts"].(map[string]any)
			for _, n := range []string{"4", "5", "7", "8", "9", "10", "11", "12", "14", "17", "19", "20"} {
				if _, ok := nuts[n]; !ok {
					x.viol("shape/info/nuts-missing:"+n, "nuts lacks %q", n)
				}
			}
			if n4, _ := nuts["4"].(map[string]any); n4 != nil {
				if _, ok := n4["disabled"].(bool); !ok {
					x.viol("shape/info/nut4-disabled", "nuts.4.disabled is not a boolean")
				}
				if _, ok := n4["methods"].([]any); !ok {
					x.viol("shape/info/nut4-methods", "nuts.4.methods is not a list")
				}
			}
		}
		if x.keys == nil || x.act == "" {
			return
		}
		// ---- limits rows (only in the limits configuration) ----
		if limits {
			x.expectErr("amount-limit-11006(mint quote over max)", x.call("POST", "/v1/mint/quote/bolt11", `{"amount":65,"unit":"sat"}`), 11006)
			inv := w.LN.NewExternalInvoice(65)
			x.expectErr("amount-limit-11006(melt quote over max)", x.call("POST", "/v1/melt/quote/bolt11", fmt.Sprintf(`{"request":%q,"unit":"sat"}`, inv.Request)), 11006)
			x.expectErr("minting-disabled-20003(balance would exceed max)", x.call("POST", "/v1/mint/quote/bolt11", `{"amount":64,"unit":"sat"}`), 20003)
			r := x.call("POST", "/v1/mint/quote/bolt11", `{"amount":2,"unit":"sat"}`)
			x.expect200("mintquote(within limits)", r)
		}
		// ---- mint quote / mint ----
		x.expectErr("unit-11005(mint quote)", x.call("POST", "/v1/mint/quote/bolt11", `{"amount":8,"unit":"usd"}`), 11005)
		x.expectErr("method-11003(mint quote)", x.call("POST", "/v1/mint/quote/bolt12", `{"amount":8,"unit":"sat"}`), 11003)
		x.expectErr("unknown-quote-20009(GET mint quote)", x.call("GET", "/v1/mint/quote/bolt11/"+strings.Repeat("ab", 32), "\x00nobody"), 20009)
		qid, qh := x.mintQuote(8, "")
		if qid == "" || qh == "" {
			return
		}
		r = x.call("GET", "/v1/mint/quote/bolt11/"+qid, "\x00nobody")
		if x.expect200("mintquote-state", r) {
			x.quoteShape("mintquote-state", r.obj, "UNPAID")
		}
		outsA := u.Outputs(x.act, 4, 2, 2)
		mintBody := fmt.Sprintf(`{"quote":%q,"outputs":%s}`, qid, outsJSON(outsA))
		x.expectErr("not-paid-20001", x.call("POST", "/v1/mint/bolt11", mintBody), 20001)
		x.expectErr("unknown-quote-20009(mint)", x.call("POST", "/v1/mint/bolt11", fmt.Sprintf(`{"quote":%q,"outputs":%s}`, strings.Repeat("cd", 32), outsJSON(outsA))), 20009)
		w.LN.Settle(qh)
		r = x.call("GET", "/v1/mint/quote/bolt11/"+qid, "\x00nobody")
		if x.expect200("mintquote-state", r) {
			x.quoteShape("mintquote-state(paid)", r.obj, "PAID")
		}
		dup := []world.Out{outsA[0], outsA[0]}
		x.expectErr("duplicate-outputs-11008(mint)", x.call("POST", "/v1/mint/bolt11", fmt.Sprintf(`{"quote":%q,"outputs":%s}`, qid, outsJSON(dup))), 11008)
		x.expectErr("unknown-keyset-12001(mint outputs)", x.call("POST", "/v1/mint/bolt11", fmt.Sprintf(`{"quote":%q,"outputs":%s}`, qid, outsJSON(u.Outputs("00ffffffffffffff", 8)))), 12001)
		for _, k := range w.Keysets {
			if !k.Active {
				x.expectErr("inactive-keyset-12002(mint outputs)", x.call("POST", "/v1/mint/bolt11", fmt.Sprintf(`{"quote":%q,"outputs":%s}`, qid, outsJSON(u.Outputs(k.Id, 8)))), 12002)
				break
			}
		}
		first := x.call("POST", "/v1/mint/bolt11", mintBody)
		if !x.expect200("mint", first) {
			return
		}
		sigsA := x.sigsShape("mint", first.obj, outsA)
		if sigsA == nil {
			return
		}
		proofsA := x.unblind(sigsA, outsA)
		x.nut19("mint", "/v1/mint/bolt11", mintBody, first, 20002)
		type lateReplay struct{ where, path, body, raw string }
		lateReplays := []lateReplay{{"mint", "/v1/mint/bolt11", mintBody, first.raw}}
		r = x.call("GET", "/v1/mint/quote/bolt11/"+qid, "\x00nobody")
		if x.expect200("mintquote-state", r) {
			x.quoteShape("mintquote-state(issued)", r.obj, "ISSUED")
		}
		x.expectErr("already-issued-20002", x.call("POST", "/v1/mint/bolt11", fmt.Sprintf(`{"quote":%q,"outputs":%s}`, qid, outsJSON(u.Outputs(x.act, 8)))), 20002)
		// second quote: special secrets + already-signed row + NUT-20
		key := secp256k1.PrivKeyFromBytes(sha256sumB("c20 quote key"))
		pub := hex.EncodeToString(key.PubKey().SerializeCompressed())
		q2, h2 := x.mintQuote(8, fmt.Sprintf(`,"pubkey":%q`, pub))
		if q2 == "" {
			return
		}
		// the same key in other spellings the mint accepts (upper-case hex, uncompressed point): whatever is accepted is
		// answered as the 33-byte compressed point in lower-case hex, by the POST and by the GET of the quote alike
		for _, sp := range [][2]string{{"upper-case", strings.ToUpper(pub)}, {"uncompressed", hex.EncodeToString(key.PubKey().SerializeUncompressed())}} {
			r := x.call("POST", "/v1/mint/quote/bolt11", fmt.Sprintf(`{"amount":8,"unit":"sat","pubkey":%q}`, sp[1]))
			if r.code != 200 || r.obj == nil {
				continue // refusing another spelling is fine
			}
			if got, _ := r.obj["pubkey"].(string); got != pub {
				x.viol("shape/mintquote/pubkey-not-canonical/"+sp[0], "POST /v1/mint/quote/bolt11 with the key spelled %s answers pubkey %q, not the compressed lower-case point %q", sp[0], got, pub)
			}
			if id, _ := r.obj["quote"].(string); id != "" {
				g := x.call("GET", "/v1/mint/quote/bolt11/"+id, "\x00nobody")
				if g.code == 200 && g.obj != nil {
					if got, _ := g.obj["pubkey"].(string); got != pub {
						x.viol("shape/mintquote-state/pubkey-not-canonical/"+sp[0], "GET of a quote created with the key spelled %s answers pubkey %q", sp[0], got)
					}
				}
			}
		}
		w.LN.Settle(h2)
		x.expectErr("already-signed-10002(mint)", x.call("POST", "/v1/mint/bolt11", fmt.Sprintf(`{"quote":%q,"outputs":%s,"signature":%q}`, q2, outsJSON(outsA), signQ(key, q2, outsA))), 10002)
		lockKey := secp256k1.PrivKeyFromBytes(sha256sumB("c20 lock key"))
		lockPub := hex.EncodeToString(lockKey.PubKey().SerializeCompressed())
		long := strings.Repeat("L", 513)
		special := u.OutputsWithSecrets(x.act, []uint64{2, 2, 2, 2}, []string{p2pkSecret(lockPub), htlcSecret(shaHex("preimage")), long, strings.Repeat("l", 512)})
		x.expectErr("nut20-invalid-signature-20008(missing)", x.call("POST", "/v1/mint/bolt11", fmt.Sprintf(`{"quote":%q,"outputs":%s}`, q2, outsJSON(special))), 20008)
		x.expectErr("nut20-invalid-signature-20008(other key)", x.call("POST", "/v1/mint/bolt11", fmt.Sprintf(`{"quote":%q,"outputs":%s,"signature":%q}`, q2, outsJSON(special), signQ(lockKey, q2, special))), 20008)
		r = x.call("POST", "/v1/mint/bolt11", fmt.Sprintf(`{"quote":%q,"outputs":%s,"signature":%q}`, q2, outsJSON(special), signQ(key, q2, special)))
		var proofsS cashu.Proofs
		if x.expect200("mint(nut20)", r) {
			if s := x.sigsShape("mint(nut20)", r.obj, special); s != nil {
				proofsS = x.unblind(s, special)
			}
		}
		// ---- swap ----
		if len(proofsA) == 3 {
			in := cashu.Proofs{proofsA[0]} // 4
			net := 4 - x.fee(1)
			outsB := x.outsFor(net)
			if net >= 2 {
				outsB = append(x.outsFor(net-1), x.outsFor(1)...)
			}
			x.expectErr("insufficient-11002(swap outputs over inputs)", x.call("POST", "/v1/swap", fmt.Sprintf(`{"inputs":%s,"outputs":%s}`, insJSON(in), outsJSON(x.outsFor(net+1)))), 11002)
			x.expectErr("duplicate-inputs-11007", x.call("POST", "/v1/swap", fmt.Sprintf(`{"inputs":%s,"outputs":%s}`, insJSON(cashu.Proofs{in[0], in[0]}), outsJSON(x.outsFor(8-x.fee(2))))), 11007)
			x.expectErr("duplicate-outputs-11008(swap)", x.call("POST", "/v1/swap", fmt.Sprintf(`{"inputs":%s,"outputs":%s}`, insJSON(in), outsJSON([]world.Out{outsB[len(outsB)-1], outsB[len(outsB)-1]}))), 11008)
			bad := in[0]
			bad.C = proofsA[1].C
			x.expectErr("invalid-proof-10003", x.call("POST", "/v1/swap", fmt.Sprintf(`{"inputs":%s,"outputs":%s}`, insJSON(cashu.Proofs{bad}), outsJSON(outsB))), 10003)
			x.expectErr("unknown-keyset-12001(swap outputs)", x.call("POST", "/v1/swap", fmt.Sprintf(`{"inputs":%s,"outputs":%s}`, insJSON(in), outsJSON(u.Outputs("00ffffffffffffff", world.Split(net)...)))), 12001)
			x.expectErr("already-signed-10002(swap)", x.call("POST", "/v1/swap", fmt.Sprintf(`{"inputs":%s,"outputs":%s}`, insJSON(in), outsJSON(outsA[1:2]))), 10002)
			swapBody := fmt.Sprintf(`{"inputs":%s,"outputs":%s}`, insJSON(in), outsJSON(outsB))
			firstS := x.call("POST", "/v1/swap", swapBody)
			if x.expect200("swap", firstS) {
				x.sigsShape("swap", firstS.obj, outsB)
				x.nut19("swap", "/v1/swap", swapBody, firstS, 11001)
				lateReplays = append(lateReplays, lateReplay{"swap", "/v1/swap", swapBody, firstS.raw})
				x.expectErr("spent-11001", x.call("POST", "/v1/swap", fmt.Sprintf(`{"inputs":%s,"outputs":%s}`, insJSON(in), outsJSON(x.outsFor(net)))), 11001)
			}
		}
		if len(proofsS) == 4 {
			o := func() string { return outsJSON(x.outsFor(2 - x.fee(1))) }
			x.expectErr("nut11-30001(P2PK input without witness)", x.call("POST", "/v1/swap", fmt.Sprintf(`{"inputs":%s,"outputs":%s}`, insJSON(cashu.Proofs{proofsS[0]}), o())), 30001)
			ph := proofsS[1]
			ph.Witness = `{"preimage":"00","signatures":[]}`
			x.expectErr("nut14-30004(HTLC input with wrong preimage)", x.call("POST", "/v1/swap", fmt.Sprintf(`{"inputs":%s,"outputs":%s}`, jsonStr([]map[string]any{{"amount": ph.Amount, "id": ph.Id, "secret": ph.Secret, "C": ph.C, "witness": ph.Witness}}), o())), 30004)
			x.expectErr("secret-too-long-10004", x.call("POST", "/v1/swap", fmt.Sprintf(`{"inputs":%s,"outputs":%s}`, insJSON(cashu.Proofs{proofsS[2]}), o())), 10004)
			r = x.call("POST", "/v1/swap", fmt.Sprintf(`{"inputs":%s,"outputs":%s}`, insJSON(cashu.Proofs{proofsS[3]}), o()))
			x.expect200("swap(512-byte secret)", r)
		}
		// ---- melt ----
		inv := w.LN.NewExternalInvoice(2)
		mqBody := fmt.Sprintf(`{"request":%q,"unit":"sat"}`, inv.Request)
		x.expectErr("unit-11005(melt quote)", x.call("POST", "/v1/melt/quote/bolt11", fmt.Sprintf(`{"request":%q,"unit":"usd"}`, inv.Request)), 11005)
		x.expectErr("method-11003(melt quote)", x.call("POST", "/v1/melt/quote/bolt12", mqBody), 11003)
		r = x.call("POST", "/v1/melt/quote/bolt11", mqBody)
		if !x.expect200("meltquote", r) {
			return
		}
		x.meltQuoteShape("meltquote", r.obj, "UNPAID")
		mid, _ := r.obj["quote"].(string)
		x.expectErr("melt-quote-exists-20009", x.call("POST", "/v1/melt/quote/bolt11", mqBody), 20009)
		x.expectErr("unknown-quote-20009(GET melt quote)", x.call("GET", "/v1/melt/quote/bolt11/"+strings.Repeat("ef", 32), "\x00nobody"), 20009)
		r = x.call("GET", "/v1/melt/quote/bolt11/"+mid, "\x00nobody")
		if x.expect200("meltquote-state", r) {
			x.meltQuoteShape("meltquote-state", r.obj, "UNPAID")
		}
		if len(proofsA) == 3 {
			x.expectErr("unknown-quote-20009(melt)", x.call("POST", "/v1/melt/bolt11", fmt.Sprintf(`{"quote":%q,"inputs":%s}`, strings.Repeat("ef", 32), insJSON(cashu.Proofs{proofsA[1], proofsA[2]}))), 20009)
			x.expectErr("insufficient-11002(melt)", x.call("POST", "/v1/melt/bolt11", fmt.Sprintf(`{"quote":%q,"inputs":%s}`, mid, insJSON(cashu.Proofs{proofsA[1]}))), 11002)
			// honest melt with the backend answering 'pending'
			w.LN.PayScript[inv.Hash] = []lnmodel.Answer{lnmodel.Pending}
			meltBody := fmt.Sprintf(`{"quote":%q,"inputs":%s}`, mid, insJSON(cashu.Proofs{proofsA[1], proofsA[2]}))
			r = x.call("POST", "/v1/melt/bolt11", meltBody)
			if x.expect200("melt", r) {
				x.meltQuoteShape("melt(pending)", r.obj, "PENDING")
				x.expectErr("quote-pending-20005", x.call("POST", "/v1/melt/bolt11", meltBody), 20005)
				x.expectErr("pending-proof-11001(swap)", x.call("POST", "/v1/swap", fmt.Sprintf(`{"inputs":%s,"outputs":%s}`, insJSON(cashu.Proofs{proofsA[1]}), outsJSON(x.outsFor(2-x.fee(1))))), 11001)
				ys := []string{world.Y(proofsA[0].Secret), world.Y(proofsA[1].Secret), mintops.UnknownY}
				r = x.call("POST", "/v1/checkstate", jsonStr(map[string]any{"Ys": ys}))
				if x.expect200("checkstate", r) && x.shape("checkstate", r.obj, []string{"states"}) {
					l, _ := r.obj["states"].([]any)
					want := []string{"SPENT", "PENDING", "UNSPENT"}
					if len(l) != 3 {
						x.viol("shape/checkstate/count", "%d states for 3 Ys", len(l))
					}
					for i, e := range l {
						s, _ := e.(map[string]any)
						if x.shape("checkstate/state", s, []string{"Y", "state"}, "witness") && i < 3 {
							if st, _ := s["state"].(string); st != want[i] {
								x.viol("shape/checkstate/state-enum", "state of entry %d is %v, expected the string %q", i, s["state"], want[i])
							}
							if y, _ := s["Y"].(string); y != ys[i] {
								x.viol("shape/checkstate/order", "entry %d answers for another Y", i)
							}
						}
					}
				}
				w.LN.Payments[inv.Hash].Status = lnmodel.Succeeded
				r = x.call("GET", "/v1/melt/quote/bolt11/"+mid, "\x00nobody")
				if x.expect200("meltquote-state", r) {
					x.meltQuoteShape("meltquote-state(paid)", r.obj, "PAID")
				}
				x.expectErr("already-paid-20006", x.call("POST", "/v1/melt/bolt11", meltBody), 20006)
			}
		}
		// ---- restore ----
		ro := []world.Out{outsA[0], u.Outputs(x.act, 1)[0], outsA[2]}
		r = x.call("POST", "/v1/restore", fmt.Sprintf(`{"outputs":%s}`, outsJSON(ro)))
		if x.expect200("restore", r) && x.shape("restore", r.obj, []string{"outputs", "signatures"}) {
			lo, _ := r.obj["outputs"].([]any)
			ls, _ := r.obj["signatures"].([]any)
			if len(lo) != 2 || len(ls) != 2 {
				x.viol("shape/restore/count", "restore of [signed, never-signed, signed] returned %d outputs / %d signatures", len(lo), len(ls))
			} else {
				for i, want := range []world.Out{outsA[0], outsA[2]} {
					o, _ := lo[i].(map[string]any)
					if x.shape("restore/output", o, []string{"amount", "id", "B_"}, "witness") {
						if b, _ := o["B_"].(string); b != want.Msg.B_ {
							x.viol("shape/restore/order", "restore entry %d is for another B_", i)
						}
					}
					s, _ := ls[i].(map[string]any)
					if x.shape("restore/signature", s, []string{"amount", "id", "C_", "dleq"}) {
						if c, _ := s["C_"].(string); len(sigsA) == 3 && c != sigsA[[]int{0, 2}[i]].C_ {
							x.viol("shape/restore/signature", "restore entry %d returns another C_ than originally", i)
						}
					}
				}
			}
		}
		// a successful request whose answer carries no signature (inputs given up for no outputs) is a successful request:
		// its replay is served from the cache like any other
		if qid, qh := x.mintQuote(1, ""); qid != "" {
			w.LN.Settle(qh)
			o1 := u.Outputs(x.act, 1)
			mr := x.call("POST", "/v1/mint/bolt11", fmt.Sprintf(`{"quote":%q,"outputs":%s}`, qid, outsJSON(o1)))
			if mr.code == 200 {
				if sg := x.sigsShape("mint(1)", mr.obj, o1); sg != nil {
					burnBody := fmt.Sprintf(`{"inputs":%s,"outputs":[]}`, insJSON(x.unblind(sg, o1)))
					fb := x.call("POST", "/v1/swap", burnBody)
					if fb.code == 200 {
						x.nut19("swap-without-outputs", "/v1/swap", burnBody, fb, 11001)
					}
				}
			}
		}
		// restore batches in which nothing (or no output at all) is found: still the two arrays
		for name, body := range map[string]string{"none-signed": fmt.Sprintf(`{"outputs":%s}`, outsJSON(u.Outputs(x.act, 1, 2))), "empty": `{"outputs":[]}`} {
			r = x.call("POST", "/v1/restore", body)
			if r.code != 200 {
				continue // refusing an empty batch is a legitimate answer
			}
			if x.shape("restore("+name+")", r.obj, []string{"outputs", "signatures"}) {
				for _, k := range []string{"outputs", "signatures"} {
					if l, isArr := r.obj[k].([]any); !isArr || len(l) != 0 {
						x.viol("shape/restore("+name+")/"+k, "restore of a batch with nothing to restore: %q is %v, expected an empty array", k, r.obj[k])
					}
				}
			}
		}
		// the first mint and swap once more, after all the other successful mints and swaps of this probe: still the
		// byte-identical first answer (an answer kept in the cache must not change with what the server did since)
		for _, lr := range lateReplays {
			r := x.call("POST", lr.path, lr.body)
			if r.code != 200 || r.raw != lr.raw {
				x.viol("nut19/"+lr.where+"/late-replay-differs", "replaying the first %s request after other successful requests returned status %d and a %s body: %.160q", lr.where, r.code, map[bool]string{true: "identical", false: "different"}[r.raw == lr.raw], r.raw)
			}
		}
		// ---- armed storage / Lightning failures ----
		if !limits {
			x.armed()
		}
		w.Outcomes["c20-requests"] += x.n
	}
}

func sha256sumB(s string) []byte {
	h := sha256.Sum256([]byte(s))
	return h[:]
}

func signQ(k *secp256k1.PrivateKey, q string, outs []world.Out) string {
	s, _ := nut20.SignMintQuote(k, q, world.Msgs(outs))
	return hex.EncodeToString(s.Serialize())
}

var errLeaky = errors.New("sqlite3: disk I/O error: unable to open database file /var/lib/gonuts/mint.sqlite.db (*errors.errorString) SELECT * FROM proofs")

var leakWords = []string{"sqlite", "disk I/O", "/var/lib", "errorString", "SELECT", "lnmodel", "macaroon", "rpc error"}

// armed: for every request type, a storage failure is injected at each MintDB call index of that request (and once
// persistently from that index on); the answer must be a 400 with a well-formed {detail, code} body that carries no
// internal detail and never the internal codes 1 / 2. Lightning failures likewise.
func (x *c20) armed() {
	w := x.w
	u := w.U
	qid, qh := x.mintQuote(8, "")
	if qid == "" {
		return
	}
	w.LN.Settle(qh)
	// outputs that do have a stored signature, for the restore request (a lookup that finds something)
	signedOuts := u.Outputs(x.act, 4, 2, 1, 1)
	if r := x.call("POST", "/v1/mint/bolt11", fmt.Sprintf(`{"quote":%q,"outputs":%s}`, qid, outsJSON(signedOuts))); r.code != 200 {
		signedOuts = nil
	}
	qid, qh = x.mintQuote(8, "")
	if qid == "" {
		return
	}
	w.LN.Settle(qh)
	mk := func() []struct{ name, method, path, body string } {
		inv := w.LN.NewExternalInvoice(2)
		return []struct{ name, method, path, body string }{
			{"mintquote", "POST", "/v1/mint/quote/bolt11", `{"amount":8,"unit":"sat"}`},
			{"mintquote-state", "GET", "/v1/mint/quote/bolt11/" + qid, "\x00nobody"},
			{"mint", "POST", "/v1/mint/bolt11", fmt.Sprintf(`{"quote":%q,"outputs":%s}`, qid, outsJSON(u.Outputs(x.act, 8)))},
			{"meltquote", "POST", "/v1/melt/quote/bolt11", fmt.Sprintf(`{"request":%q,"unit":"sat"}`, inv.Request)},
			{"checkstate", "POST", "/v1/checkstate", jsonStr(map[string]any{"Ys": []string{mintops.UnknownY}})},
			{"restore", "POST", "/v1/restore", fmt.Sprintf(`{"outputs":%s}`, outsJSON(u.Outputs(x.act, 1)))},
			{"restore-signed", "POST", "/v1/restore", fmt.Sprintf(`{"outputs":%s}`, outsJSON(signedOuts))},
			{"info", "GET", "/v1/info", "\x00nobody"},
		}
	}
	// the queries whose answer is a pure function of the store: a storage failure may turn the answer into the generic
	// error, never into another 200
	pure := map[string]bool{"mintquote-state": true, "checkstate": true, "restore-signed": true}
	baseline := map[string]string{}
	judge := func(name, how string, r resp) {
		if r.pan != nil {
			return
		}
		for _, lw := range leakWords {
			if strings.Contains(r.raw, lw) {
				x.viol("internal-detail-leaked/"+name, "%s with %s: the response exposes internal detail (%q): %.200q", name, how, lw, r.raw)
				return
			}
		}
		if r.code == 200 {
			return // the failing call was not needed for the answer (or the failure was tolerated): nothing to report
		}
		if r.code != 400 || r.obj == nil || len(r.obj) != 2 || r.obj["detail"] == nil || r.obj["code"] == nil {
			x.viol("failure-body-shape/"+name, "%s with %s: expected 400 with exactly {detail, code}, got status %d body %.160q", name, how, r.code, r.raw)
			return
		}
		c, _ := r.obj["code"].(json.Number)
		if c.String() == "1" || c.String() == "2" {
			x.viol("internal-error-code-exposed/"+name, "%s with %s: internal error code %s in the response: %.160q", name, how, c, r.raw)
		}
	}
	for _, rq := range mk() {
		if pure[rq.name] {
			if b := x.call(rq.method, rq.path, rq.body); b.code == 200 {
				baseline[rq.name] = b.raw
			}
		}
		// count the calls of a fault-free dry run on a request that is refused anyway? No: use a generous bound and stop
		// when the fault was not reached.
		for k := 0; k < 12; k++ {
			for _, persistent := range []bool{false, true} {
				n := 0
				hit := false
				me := dbwrap.GID()
				w.M.DB.Before = func(c *dbwrap.Call) error {
					if dbwrap.GID() != me {
						return nil // background goroutines of the mint are not part of the request
					}
					i := n
					n++
					if i == k || (persistent && i > k) {
						hit = true
						return errLeaky
					}
					return nil
				}
				fresh := mk()
				var cur struct{ name, method, path, body string }
				for _, f := range fresh {
					if f.name == rq.name {
						cur = f
					}
				}
				r := x.call(cur.method, cur.path, cur.body)
				w.M.DB.Before = nil
				if !hit {
					break
				}
				judge(rq.name, fmt.Sprintf("a storage error injected at MintDB call %d (persistent=%v)", k, persistent), r)
				if b, ok := baseline[rq.name]; ok && cur.body == rq.body && cur.path == rq.path && r.pan == nil && r.code == 200 && r.raw != b {
					x.viol("storage-failure-answered-200-with-other-content/"+rq.name, "%s with a storage error injected at MintDB call %d (persistent=%v) was answered 200 with %.160q; without the failure the answer is %.160q", rq.name, k, persistent, r.raw, b)
				}
				if rq.name == "mint" && r.code == 200 {
					// the quote got issued: take a new paid quote for the next round
					qid, qh = x.mintQuote(8, "")
					w.LN.Settle(qh)
				}
				if rq.name == "mint" {
					// a failure may have left the quote unusable (C07's business): always continue on a fresh paid quote
					qid, qh = x.mintQuote(8, "")
					w.LN.Settle(qh)
				}
			}
		}
	}
	// Lightning failures
	w.LN.FailCreate = true
	judge("mintquote", "the backend failing CreateInvoice", x.call("POST", "/v1/mint/quote/bolt11", `{"amount":8,"unit":"sat"}`))
	w.LN.FailCreate = false
	q3, _ := x.mintQuote(8, "")
	w.LN.FailInvoiceStatus = true
	rr := x.call("GET", "/v1/mint/quote/bolt11/"+q3, "\x00nobody")
	judge("mintquote-state", "the backend failing InvoiceStatus", rr)
	if rr.code == 200 {
		x.viol("lightning-failure-hidden/mintquote-state", "GET mint quote state answered 200 although the backend lookup failed: %.120q", rr.raw)
	}
	judge("mint", "the backend failing InvoiceStatus", x.call("POST", "/v1/mint/bolt11", fmt.Sprintf(`{"quote":%q,"outputs":%s}`, q3, outsJSON(u.Outputs(x.act, 8)))))
	w.LN.FailInvoiceStatus = false
}

func c20Menu(w *mintops.W) []string {
	var ops []string
	if len(w.Quotes) < 2 {
		ops = append(ops, "mq|8")
	}
	if u := w.UnspentIdx(1); len(u) > 0 {
		ops = append(ops, fmt.Sprintf("swap|%d|exact", u[0]))
	}
	if len(w.Melts) < 1 {
		ops = append(ops, "meltq|4")
	}
	for j, m := range w.Melts {
		if m.Known == "" {
			if u := w.UnspentIdx(1); len(u) > 0 && w.Proofs[u[0]].P.Amount >= 8 {
				ops = append(ops, fmt.Sprintf("melt|%d|%d|P", j, u[0]), fmt.Sprintf("melt|%d|%d|S", j, u[0]))
			}
		}
	}
	if len(w.Keysets) < 2 {
		ops = append(ops, "rotate|100", "rotrt|0")
	}
	ops = append(ops, "restart")
	return ops
}

func c20Specs(quick bool) []*bfs.Spec {
	d := 3
	if !quick {
		d = 4
	}
	sfx := map[bool]string{true: "-q", false: ""}[quick]
	lim := mint.MintLimits{MaxBalance: 60, MintingSettings: mint.MintMethodSettings{MaxAmount: 64}, MeltingSettings: mint.MeltMethodSettings{MaxAmount: 64}}
	return []*bfs.Spec{
		{Prop: "C20", Name: "C20-fee0" + sfx, Cfg: mintops.Config{Fee: 0}, Init: []string{"fund|8,8"}, Menu: c20Menu, Probe: c20Probe(false), Depth: d},
		{Prop: "C20", Name: "C20-limits" + sfx, Cfg: mintops.Config{Fee: 0, Limits: lim}, Init: []string{"fund|8,8"}, Menu: c20Menu, Probe: c20Probe(true), Depth: d - 1},
	}
}

var c20All = specMap(c20Specs(true), c20Specs(false))

func init() {
	register(&Prop{ID: "C20", Level: "model_checking", QuickBudget: 300 * time.Second, ThoroughBudget: 25 * time.Minute,
		Run: func(c *rt.Ctx) {
			c.Cov["rule"] = "E3 builds the states (every history up to the depth bound over {mint quote, swap, melt quote, melt pending / succeeded, start-up and run-time rotation, restart}, plus a limits configuration); in every distinct state a scripted client speaks to the real handler with hand-assembled JSON decoded into generic maps: every endpoint's honest request must be answered 200 with exactly the NUT field set (string state enums, 66-hex points, decimal-string key maps in ascending order, dleq {e,s} without r); one single-cause request per row of the NUT error table must be answered 400 with exactly {detail, code} and that code; each successful swap and mint is replayed byte-identically three times in a row and once more after the near replays (identical body, zero MintDB calls each time) and through every near-replay class (whitespace, one hex digit, key order, extra field, query string, other path, GET) which must never be served from the cache; a storage error is injected at every MintDB call index of every request type (single and persistent) and Lightning failures at CreateInvoice / InvoiceStatus: the answer must be a well-formed 400 without internal detail or internal codes"
			runSpecs(c, c20Specs(c.Quick()))
		},
		Worker: bfs.Worker(c20All),
		Replay: func(p string) int { return bfs.ReplayFile("C20", c20All, p) },
	})
}
