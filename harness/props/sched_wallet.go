package props

import (
	"fmt"
	"os"
	"sort"
	"strconv"
	"strings"
	"sync"

	"github.com/elnosh/gonuts/cashu"

	"verif/harness/rt"
	"verif/harness/sched"
	"verif/harness/wworld"
)

// E1 on the wallet: concurrent calls into ONE wallet object (the wallet serialises Send / SendToPubkey / Receive's
// store update with its mutex). Scheduling points: every wallet store call and every HTTP request to a mint.
// This goes beyond C17's quantifier (sequential histories); it is explored because "never offers or counts a proof
// twice" is what the wallet's own lock exists for. Only operations the wallet itself serialises are raced.

type wsScn struct {
	name    string
	cfg     wworld.Config
	init    []string
	threads []string // send|w|amount|fees   sendpk|w|to|amount   recv|w|ti
}

var wsScns = map[string]*wsScn{}

func init() {
	two := wworld.Config{FeeA: 100, Wallets: []wworld.WalletCfg{{Default: "a"}, {Default: "a"}}}
	for _, s := range []*wsScn{
		{name: "W1-send-send-same-proof", cfg: two, init: []string{"mint|0|7"}, threads: []string{"send|0|1|0", "send|0|1|0"}},
		{name: "W2-send-send-one-big-proof", cfg: two, init: []string{"mint|0|16"}, threads: []string{"send|0|3|1", "send|0|3|0"}},
		{name: "W3-send-sendpk", cfg: two, init: []string{"mint|0|7"}, threads: []string{"send|0|2|0", "sendpk|0|1|2"}},
		{name: "W4-send-receive", cfg: two, init: []string{"mint|0|7", "mint|1|4", "send|1|3|0"}, threads: []string{"send|0|3|0", "recv|0|0"}},
		{name: "W5-send-send-send", cfg: two, init: []string{"mint|0|7"}, threads: []string{"send|0|1|0", "send|0|2|0", "send|0|1|0"}},
	} {
		wsScns[s.name] = s
		s := s
		addScn(&schedScn{name: s.name, prop: "C17", custom: func(prefix []int) sched.Res { return execWSched(s, prefix) }})
	}
}

func execWSched(sc *wsScn, prefix []int) (res sched.Res) {
	dir, _ := os.MkdirTemp(rt.ScratchRoot(), "e1w-")
	defer os.RemoveAll(dir)
	w, err := wworld.New(dir, sc.cfg)
	if err != nil {
		return sched.Res{Err: "world: " + err.Error()}
	}
	defer w.Close()
	for _, op := range sc.init {
		if err := w.Exec(op); err != nil {
			return sched.Res{Err: fmt.Sprintf("init %q: %v", op, err)}
		}
	}
	w.Invariants()
	if len(w.V) > 0 {
		// the sequential set-up already breaks an invariant: report that (once per scenario), nothing to schedule
		for _, v := range w.V {
			if v.Property == "HARNESS" {
				return sched.Res{Err: v.What}
			}
			v.Key = sc.name + "/set-up/" + v.Key
			v.What = fmt.Sprintf("during the sequential set-up %v: %s", sc.init, v.What)
			res.V = append(res.V, v)
		}
		return res
	}
	s := sched.New(prefix)
	for _, ww := range w.Wallets {
		ww.DB.Before = func(name string) { s.Point("wdb:" + name) }
	}
	w.R.Before = func(ex *wworld.Exchange) { s.Point("http:" + ex.Path) }
	var mu sync.Mutex
	type sent struct {
		ww     *wworld.WalletW
		ps     cashu.Proofs
		amount uint64
		fees   bool
		kind   string
		to     int
	}
	var sents []sent
	var bits, obs []string
	var redeemed []*wworld.Token
	for i, th := range sc.threads {
		f := strings.Split(th, "|")
		name := string(rune('A' + i))
		ww := w.Wallets[atoiOr(f[1])]
		switch f[0] {
		case "send":
			amount, fees := uint64(atoiOr(f[2])), f[3] == "1"
			s.Go(name, func() {
				ps, err := ww.W.Send(amount, wworld.URL(ww.Default), fees)
				mu.Lock()
				defer mu.Unlock()
				obs = append(obs, fmt.Sprintf("%s %s -> %v (%d proofs worth %d)", name, th, err, len(ps), ps.Amount()))
				bits = append(bits, fmt.Sprintf("%s=%v/%d", name, err == nil, ps.Amount()))
				if err == nil {
					sents = append(sents, sent{ww, ps, amount, fees, "plain", -1})
				}
			})
		case "sendpk":
			to := w.Wallets[atoiOr(f[2])]
			amount := uint64(atoiOr(f[3]))
			s.Go(name, func() {
				ps, err := ww.W.SendToPubkey(amount, wworld.URL(ww.Default), to.W.GetReceivePubkey(), nil, false)
				mu.Lock()
				defer mu.Unlock()
				obs = append(obs, fmt.Sprintf("%s %s -> %v (%d proofs worth %d)", name, th, err, len(ps), ps.Amount()))
				bits = append(bits, fmt.Sprintf("%s=%v/%d", name, err == nil, ps.Amount()))
				if err == nil {
					sents = append(sents, sent{ww, ps, amount, false, "p2pk", to.Idx})
				}
			})
		case "recv":
			t := w.Tokens[atoiOr(f[2])]
			tok := w.TokenOf(atoiOr(f[2]))
			s.Go(name, func() {
				got, err := ww.W.Receive(tok, false)
				mu.Lock()
				defer mu.Unlock()
				obs = append(obs, fmt.Sprintf("%s %s -> %v (%d)", name, th, err, got))
				bits = append(bits, fmt.Sprintf("%s=%v/%d", name, err == nil, got))
				if err == nil {
					redeemed = append(redeemed, t)
				}
			})
		default:
			return sched.Res{Err: "unknown thread " + th}
		}
	}
	s.Run()
	for _, ww := range w.Wallets {
		ww.DB.Before = nil
	}
	w.R.Before = nil
	if s.Err != nil {
		return sched.Res{Err: s.Err.Error(), Trace: s.Trace}
	}
	for _, t := range redeemed {
		w.RemoveToken(t)
	}
	offered := map[string]int{}
	for k, x := range sents {
		for _, p := range x.ps {
			if prev, dup := offered[p.Secret]; dup {
				w.Viol("C17", sc.name+"/proof-offered-twice", "the same proof (amount %d) was returned by two concurrent sends (%d and %d): %s", p.Amount, prev, k, strings.Join(obs, "; "))
			}
			offered[p.Secret] = k
		}
		if x.ps.Amount() < x.amount {
			w.Viol("C17", sc.name+"/send-returned-less-than-asked", "send of %d returned proofs worth %d: %s", x.amount, x.ps.Amount(), strings.Join(obs, "; "))
		}
		w.RegisterSent(x.ww, x.ps, x.amount, x.fees, x.kind, x.to)
	}
	w.Invariants()
	for _, v := range w.V {
		if v.Property == "HARNESS" {
			return sched.Res{Err: v.What, Trace: s.Trace}
		}
		if !strings.HasPrefix(v.Key, sc.name) {
			v.Key = sc.name + "/" + v.Key
			v.What += " — after " + strings.Join(obs, "; ")
		}
		res.V = append(res.V, v)
	}
	res.Trace = s.Trace
	sort.Strings(obs)
	res.Obs = strings.Join(obs, "\n") + "\n" + w.Canon()
	sort.Strings(bits)
	res.Outcome = strings.Join(bits, " ")
	ids := make([]int, len(s.Trace))
	for i, d := range s.Trace {
		ids[i] = d.Enabled[d.Chosen]
	}
	for i := 0; i+2 < len(ids) && !res.Collided; i++ {
		for k := i + 2; k < len(ids); k++ {
			if ids[k] == ids[i] && ids[i+1] != ids[i] {
				res.Collided = true
				break
			}
		}
	}
	return res
}

func atoiOr(s string) int {
	n, _ := strconv.Atoi(s)
	return n
}
