package props

import (
	"encoding/hex"
	"encoding/json"
	"fmt"
	"math/bits"
	"os"
	"path/filepath"
	"sort"
	"strings"
	"time"

	"github.com/elnosh/gonuts/cashu"
	"github.com/elnosh/gonuts/cashu/nuts/nut04"

	"verif/harness/rt"
	"verif/harness/world"
	"verif/harness/wworld"
)

// C18 — send hands over exactly the requested amount, fees included when asked (E4 on the wallet world).
// Wallet contents are constructed: the harness client mints proofs of chosen denominations on the (later) inactive and
// on the active keyset and stores them through the wallet's own store; every amount 1..balance x includeFees is sent
// from a restored snapshot; a fresh second wallet redeems the token.

type c18Proof struct {
	Denom    uint64
	Inactive bool
}

type c18Job struct {
	FeeActive, FeeInactive uint
	Sets                   [][]c18Proof
}

type c18Res struct {
	Evals, Sent, Refused int
	Keys                 []string
	V                    []rt.Violation
	Samples              []any
	Err                  string
}

var c18Denoms = []uint64{1, 2, 4, 8, 16}

func c18Multisets(maxSize int, mixedMax int) [][]c18Proof {
	var types []c18Proof
	for _, d := range c18Denoms {
		types = append(types, c18Proof{d, false})
	}
	for _, d := range c18Denoms {
		types = append(types, c18Proof{d, true})
	}
	var out [][]c18Proof
	var rec func(start int, cur []c18Proof)
	rec = func(start int, cur []c18Proof) {
		if len(cur) > 0 {
			nIn := 0
			for _, p := range cur {
				if p.Inactive {
					nIn++
				}
			}
			if len(cur) <= mixedMax || nIn == 0 {
				out = append(out, append([]c18Proof{}, cur...))
			}
		}
		if len(cur) == maxSize {
			return
		}
		for i := start; i < len(types); i++ {
			rec(i, append(cur, types[i]))
		}
	}
	rec(0, nil)
	return out
}

func setName(s []c18Proof) string {
	var p []string
	for _, x := range s {
		k := "A"
		if x.Inactive {
			k = "I"
		}
		p = append(p, fmt.Sprintf("%d%s", x.Denom, k))
	}
	return strings.Join(p, "+")
}

func ceilFee(ppkSum uint) uint64 { return uint64((ppkSum + 999) / 1000) }

func c18Worker(job json.RawMessage) (any, error) {
	var j c18Job
	if err := json.Unmarshal(job, &j); err != nil {
		return nil, err
	}
	res := c18Res{}
	for _, set := range j.Sets {
		if err := c18RunSet(&res, j.FeeActive, j.FeeInactive, set, -1, false); err != nil {
			res.Err = err.Error()
			break
		}
	}
	return res, nil
}

// c18RunSet builds the world for one multiset and runs every (amount, includeFees) case from a restored snapshot.
// onlyAmount >= 0 restricts to one case (replay).
func c18RunSet(res *c18Res, feeA, feeI uint, set []c18Proof, onlyAmount int, onlyFees bool) error {
	dir, _ := os.MkdirTemp(rt.ScratchRoot(), "c18-")
	defer os.RemoveAll(dir)
	w, err := wworld.New(dir, wworld.Config{FeeA: feeI, Wallets: nil})
	if err != nil {
		return err
	}
	defer w.Close()
	m := w.Mints["a"]
	u := &world.User{Tag: "c18"}
	mintProof := func(d uint64) (cashu.Proof, error) {
		q, err := m.MintQuote(d, "")
		if err != nil {
			return cashu.Proof{}, err
		}
		w.LN.Settle(q.PaymentHash)
		outs := u.Outputs(m.ActiveID(), d)
		sigs, err := m.M.MintTokens(nut04.PostMintBolt11Request{Quote: q.Id, Outputs: world.Msgs(outs)})
		if err != nil {
			return cashu.Proof{}, err
		}
		ps, err := world.Unblind(sigs, outs, m.Keys(m.ActiveID()))
		if err != nil {
			return cashu.Proof{}, err
		}
		// stored the way the wallet stores what it mints: with the DLEQ proof and its blinding factor
		if sigs[0].DLEQ != nil {
			ps[0].DLEQ = &cashu.DLEQProof{E: sigs[0].DLEQ.E, S: sigs[0].DLEQ.S, R: hex.EncodeToString(outs[0].R.Serialize())}
		}
		return ps[0], nil
	}
	var content cashu.Proofs
	hasInactive := false
	for _, p := range set {
		if p.Inactive {
			hasInactive = true
			pr, err := mintProof(p.Denom)
			if err != nil {
				return err
			}
			content = append(content, pr)
		}
	}
	inactiveID := ""
	if hasInactive || true {
		inactiveID = m.ActiveID()
		if err := m.Restart(true, feeA); err != nil {
			return err
		}
		w.R.Handlers["mint-a"] = m.H
	}
	activeID := m.ActiveID()
	for _, p := range set {
		if !p.Inactive {
			pr, err := mintProof(p.Denom)
			if err != nil {
				return err
			}
			content = append(content, pr)
		}
	}
	ppk := map[string]uint{activeID: feeA, inactiveID: feeI}
	// wallets
	w1 := &wworld.WalletW{Name: "W1", Idx: 0, Dir: filepath.Join(dir, "w1"), Mnemonic: wworld.Mnemonics[0], Default: "a", HandedOut: map[string]bool{}, MeltInputs: map[string]bool{}}
	w2 := &wworld.WalletW{Name: "W2", Idx: 1, Dir: filepath.Join(dir, "w2"), Mnemonic: wworld.Mnemonics[1], Default: "a", HandedOut: map[string]bool{}, MeltInputs: map[string]bool{}}
	w.Wallets = []*wworld.WalletW{w1, w2}
	for _, ww := range w.Wallets {
		if err := w.SeedWallet(ww); err != nil {
			return err
		}
		if err := w.LoadWallet(ww); err != nil {
			return err
		}
	}
	if err := w1.DB.Inner.SaveProofs(content); err != nil {
		return err
	}
	balance := w1.W.GetBalance()
	var allPpk uint
	for _, p := range content {
		allPpk += ppk[p.Id]
	}
	feeAll := ceilFee(allPpk)
	// the fee the wallet's selection computes for the same proofs: rounded up per keyset group
	var inPpk, acPpk uint
	for _, p := range content {
		if p.Id == inactiveID {
			inPpk += ppk[p.Id]
		} else {
			acPpk += ppk[p.Id]
		}
	}
	feeGroups := ceilFee(inPpk) + ceilFee(acPpk)
	var inactiveSum uint64
	for _, p := range content {
		if p.Id == inactiveID {
			inactiveSum += p.Amount
		}
	}
	maxPpk := feeA
	if feeI > maxPpk && hasInactive {
		maxPpk = feeI
	}
	// snapshot
	w1.W.Shutdown()
	w2.W.Shutdown()
	m.Shutdown()
	files := []string{filepath.Join(m.Dir, "mint.sqlite.db"), filepath.Join(w1.Dir, "wallet.db"), filepath.Join(w2.Dir, "wallet.db")}
	for _, f := range files {
		if err := copyFile(f, f+".snap"); err != nil {
			return err
		}
	}
	restore := func() error {
		if w1.W != nil {
			w1.W.Shutdown()
			w1.W = nil
		}
		if w2.W != nil {
			w2.W.Shutdown()
			w2.W = nil
		}
		m.Shutdown()
		for _, f := range files {
			os.Remove(f + "-journal")
			if err := copyFile(f+".snap", f); err != nil {
				return err
			}
		}
		if err := m.Load(false, feeA); err != nil {
			return err
		}
		w.R.Handlers["mint-a"] = m.H
		if err := w.LoadWallet(w1); err != nil {
			return err
		}
		return w.LoadWallet(w2)
	}
	name := setName(set)
	for amount := uint64(1); amount <= balance; amount++ {
		for _, fees := range []bool{false, true} {
			if onlyAmount >= 0 && (uint64(onlyAmount) != amount || onlyFees != fees) {
				continue
			}
			if err := restore(); err != nil {
				return fmt.Errorf("restore: %v", err)
			}
			t0, _ := w.Truth("a")
			out0 := t0.Issued - t0.Redeemed
			var sent cashu.Proofs
			var sendErr error
			func() {
				defer func() {
					if r := recover(); r != nil {
						sendErr = fmt.Errorf("panic: %v", r)
						res.V = append(res.V, rt.Violation{Property: "C18", Key: "C18/send-panics", What: fmt.Sprintf("Send(%d, fees=%v) on wallet %s (fee active %d / inactive %d) panicked: %v", amount, fees, name, feeA, feeI, r)})
					}
				}()
				w.R.Cur = "W1"
				sent, sendErr = w1.W.Send(amount, wworld.URL("a"), fees)
			}()
			res.Evals++
			caseKey := fmt.Sprintf("%d/%d|%s|%d|%v", feeA, feeI, name, amount, fees)
			res.Keys = append(res.Keys, caseKey)
			rp := map[string]any{"fee_active": feeA, "fee_inactive": feeI, "set": set, "amount": amount, "fees": fees}
			ctx := fmt.Sprintf("wallet {%s} (balance %d), input_fee_ppk active %d / inactive %d, Send(%d, includeFees=%v)", name, balance, feeA, feeI, amount, fees)
			// finding classes: by fee regime (the known fee fix-point defect needs >= 500 ppk) and by whether the content mixes
			// active and inactive keysets (the known selection defect needs both)
			ppkCls := "ppk<500"
			if feeA >= 500 {
				ppkCls = "ppk>=500"
			}
			cls := fmt.Sprintf("fees=%v/%s", fees, ppkCls)
			mix := "single-keyset-content"
			if hasInactive {
				for _, p := range set {
					if !p.Inactive {
						mix = "mixed-keyset-content"
					}
				}
				if mix != "mixed-keyset-content" {
					mix = "inactive-only-content"
				}
			}
			if sendErr != nil {
				res.Refused++
				// liveness: sufficient condition of the statement
				need := amount + feeAll
				if fees {
					need += ceilFee(uint(bits.OnesCount64(amount)+3) * maxPpk)
				}
				if need <= balance {
					// the known selection defect: rounding the fee up per keyset group makes the wallet believe it is short
					if mix == "mixed-keyset-content" && need-feeAll+feeGroups > balance {
						mix += "/short-only-by-per-group-fee-rounding"
					} else if mix == "mixed-keyset-content" && inactiveSum >= amount && inactiveSum < need {
						// ... and the inactive-first selection stops once the inactive proofs cover the bare amount, then finds the
						// fees uncovered instead of adding active proofs
						mix += "/inactive-proofs-cover-amount-but-not-fees"
					}
					res.V = append(res.V, rt.Violation{Property: "C18", Key: "C18/send-refused-although-funds-suffice/" + mix, What: fmt.Sprintf("%s failed (%v) although amount %d + fee of spending every proof held %d (+ fee bound of the proofs sent) <= balance %d", ctx, sendErr, amount, feeAll, balance), Replay: rp})
				}
				continue
			}
			res.Sent++
			var sum uint64
			var sentPpk uint
			seen := map[string]bool{}
			for _, p := range sent {
				sum += p.Amount
				sentPpk += ppk[p.Id]
				if seen[p.Secret] {
					res.V = append(res.V, rt.Violation{Property: "C18", Key: "C18/sent-proofs-not-distinct", What: ctx + ": the same proof is handed out twice", Replay: rp})
				}
				seen[p.Secret] = true
			}
			sentFee := ceilFee(sentPpk)
			want := amount
			if fees {
				want = amount + sentFee
			}
			if sum != want {
				k := "less"
				if sum > want {
					k = "more"
				}
				// how the value differs: the known fee fix-point defect hands out exactly amount + fee of (popcount(amount)+1)
				// proofs (the wallet's estimate); anything else is a different deviation
				how := fmt.Sprintf("off-by=%d", int64(sum)-int64(want))
				if fees && sum == amount+ceilFee(uint(bits.OnesCount64(amount)+1)*feeA) {
					how = "value=amount+fee-of-(split+1)-proofs"
				}
				cls += "/" + how
				res.V = append(res.V, rt.Violation{Property: "C18", Key: "C18/sent-value-differs/" + k + "/" + cls, What: fmt.Sprintf("%s handed out %d proofs worth %d; exactly %d is due (amount %d%s)", ctx, len(sent), sum, want, amount, map[bool]string{true: fmt.Sprintf(" + input fee %d of those %d proofs", sentFee, len(sent)), false: ""}[fees]), Replay: rp})
			}
			// sender bookkeeping
			t1, _ := w.Truth("a")
			burnt := out0 - (t1.Issued - t1.Redeemed)
			spend := map[string]bool{}
			for _, p := range w1.DB.Inner.GetProofs() {
				spend[p.Secret] = true
			}
			pend := map[string]bool{}
			for _, p := range w1.DB.Inner.GetPendingProofs() {
				pend[p.Secret] = true
			}
			for _, p := range sent {
				y := world.Y(p.Secret)
				if t1.Spent[y] || t1.Pending[y] {
					res.V = append(res.V, rt.Violation{Property: "C18", Key: "C18/sent-proof-not-unspent", What: ctx + ": a handed-out proof is not UNSPENT at the mint", Replay: rp})
				}
				if spend[p.Secret] {
					res.V = append(res.V, rt.Violation{Property: "C18", Key: "C18/sent-proof-still-spendable", What: ctx + ": a handed-out proof is still in the sender's spendable balance", Replay: rp})
				}
				if !pend[p.Secret] {
					res.V = append(res.V, rt.Violation{Property: "C18", Key: "C18/sent-proof-not-pending", What: ctx + ": a handed-out proof is not in the sender's pending set", Replay: rp})
				}
			}
			if nb := w1.W.GetBalance(); nb+sum+burnt != balance {
				res.V = append(res.V, rt.Violation{Property: "C18", Key: "C18/sender-balance", What: fmt.Sprintf("%s: new balance %d + sent %d + swap fee burnt %d != old balance %d", ctx, nb, sum, burnt, balance), Replay: rp})
			}
			// the recipient redeems: nets exactly the requested amount (with fees) / sum - fee (without)
			// (the token carries the DLEQ proofs, as a token made by the wallet's own front end does)
			tok, err := cashu.NewTokenV4(sent, wworld.URL("a"), cashu.Sat, true)
			if err != nil {
				tok, err = cashu.NewTokenV4(sent, wworld.URL("a"), cashu.Sat, false)
			}
			var got uint64
			if err == nil {
				func() {
					defer func() {
						if r := recover(); r != nil {
							err = fmt.Errorf("panic: %v", r)
						}
					}()
					w.R.Cur = "W2"
					got, err = w2.W.Receive(tok, false)
				}()
			}
			expNet := sum - sentFee
			if sum < sentFee {
				expNet = 0
			}
			if err != nil {
				if sum > sentFee {
					res.V = append(res.V, rt.Violation{Property: "C18", Key: "C18/recipient-cannot-redeem/" + cls, What: fmt.Sprintf("%s: a fresh wallet cannot redeem the %d proofs worth %d (fee %d): %v", ctx, len(sent), sum, sentFee, err), Replay: rp})
				}
			} else {
				if got != expNet {
					res.V = append(res.V, rt.Violation{Property: "C18", Key: "C18/harness-fee-formula", What: fmt.Sprintf("%s: recipient got %d, harness fee formula predicts %d", ctx, got, expNet), Replay: rp})
				}
				if fees && got != amount {
					k := "less"
					if got > amount {
						k = "more"
					}
					how := fmt.Sprintf("off-by=%d", int64(got)-int64(amount))
					if sum == amount+ceilFee(uint(bits.OnesCount64(amount)+1)*feeA) {
						how = "value=amount+fee-of-(split+1)-proofs"
					}
					res.V = append(res.V, rt.Violation{Property: "C18", Key: "C18/recipient-nets-" + k + "-than-requested/" + ppkCls + "/" + how, What: fmt.Sprintf("%s: the recipient nets %d after redeeming %d proofs worth %d (mint fee %d), not the requested %d", ctx, got, len(sent), sum, sentFee, amount), Replay: rp})
				}
			}
			if len(res.Samples) < 2 {
				res.Samples = append(res.Samples, map[string]any{"case": ctx, "sent": sum, "proofs": len(sent), "recipient_net": got})
			}
		}
	}
	return nil
}

func runC18(c *rt.Ctx) {
	type fc struct{ a, i uint }
	var cfgs []fc
	var sets [][]c18Proof
	if c.Quick() {
		cfgs = []fc{{0, 0}, {100, 100}, {1000, 1000}}
		sets = c18Multisets(3, 2)
	} else {
		for _, f := range []uint{0, 100, 250, 500, 1000, 2000} {
			cfgs = append(cfgs, fc{f, f})
			if f != 0 {
				cfgs = append(cfgs, fc{f, 0})
			}
		}
		sets = c18Multisets(4, 3)
	}
	// order: smallest multisets first so that a budget cut completes whole sizes
	sort.SliceStable(sets, func(i, j int) bool { return len(sets[i]) < len(sets[j]) })
	var jobs []any
	var jobSize []int
	for size := 1; size <= 5; size++ {
		var ofSize [][]c18Proof
		for _, s := range sets {
			if len(s) == size {
				ofSize = append(ofSize, s)
			}
		}
		for _, cf := range cfgs {
			for i := 0; i < len(ofSize); i += 4 {
				e := i + 4
				if e > len(ofSize) {
					e = len(ofSize)
				}
				jobs = append(jobs, c18Job{FeeActive: cf.a, FeeInactive: cf.i, Sets: ofSize[i:e]})
				jobSize = append(jobSize, size)
			}
		}
	}
	// run size by size so that a deadline leaves complete sizes
	completed := 0
	var sent, refused int
	for size := 1; size <= 5; size++ {
		var batch []any
		for i, j := range jobs {
			if jobSize[i] == size {
				batch = append(batch, j)
			}
		}
		if len(batch) == 0 {
			continue
		}
		if c.Expired() {
			c.Exhaustive = false
			break
		}
		c.Pool.Map(batch, func(i int, r rt.JobResult) {
			if r.Died {
				rt.HarnessError("C18 worker died: %s", r.Stderr)
			}
			var res c18Res
			if err := json.Unmarshal(r.Out, &res); err != nil {
				rt.HarnessError("bad result: %v", err)
			}
			if res.Err != "" {
				rt.HarnessError("C18: %s", res.Err)
			}
			c.Count("evaluations", int64(res.Evals))
			sent += res.Sent
			refused += res.Refused
			for _, k := range res.Keys {
				c.Distinct(k)
			}
			for _, v := range res.V {
				c.AddViolation(v)
			}
			for _, s := range res.Samples {
				c.Sample(s)
			}
		})
		completed = size
	}
	c.Cov["multiset_size_completed"] = completed
	c.Cov["multisets"] = len(sets)
	c.Cov["fee_configurations"] = len(cfgs)
	c.Cov["sends_succeeded"], c.Cov["sends_refused"] = sent, refused
	c.Cov["rule"] = "wallet contents = every multiset of at most N proofs over denominations {1,2,4,8,16} x {active, inactive keyset} (quick N=3 with at most 2 proofs when inactive ones are present; thorough N=4 / 3), constructed by minting at the real mint and storing through the wallet's store; for each content every amount 1..balance x includeFees x input_fee_ppk configuration (quick {0,100,1000}; thorough {0,100,250,500,1000,2000} x inactive keyset fee {same, 0}) is sent from a restored snapshot of (mint SQLite file, wallet bbolt files); oracle: handed-out value == amount (+ ceil(sum ppk of the sent proofs/1000) with fees), a fresh wallet redeeming the token nets exactly the amount, sent proofs unspent / distinct / removed from spendable / present in pending, sender balance accounts for the swap fee burnt at the mint, and a send within balance - fee(all proofs held) (- fee bound of the proofs sent) must succeed. A case is distinct by (fee configuration, content, amount, includeFees)"
}

func replayC18(path string) int {
	b, err := os.ReadFile(path)
	if err != nil {
		return 2
	}
	var v struct {
		Replay struct {
			FeeActive   uint       `json:"fee_active"`
			FeeInactive uint       `json:"fee_inactive"`
			Set         []c18Proof `json:"set"`
			Amount      int        `json:"amount"`
			Fees        bool       `json:"fees"`
		}
	}
	json.Unmarshal(b, &v)
	var res c18Res
	if err := c18RunSet(&res, v.Replay.FeeActive, v.Replay.FeeInactive, v.Replay.Set, v.Replay.Amount, v.Replay.Fees); err != nil {
		fmt.Println("error:", err)
		return 2
	}
	for _, x := range res.V {
		fmt.Println(x.Key, x.What)
	}
	if len(res.V) > 0 {
		fmt.Printf("VIOLATION property=C18 replay=%s\n", path)
		return 1
	}
	fmt.Println("no violation on replay")
	return 0
}

func init() {
	register(&Prop{ID: "C18", Level: "exploration", QuickBudget: 300 * time.Second, ThoroughBudget: 30 * time.Minute,
		Run: runC18, Worker: c18Worker, Replay: replayC18})
}
