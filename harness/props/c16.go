package props

import (
	"fmt"
	"time"

	"github.com/elnosh/gonuts/mint"

	"verif/harness/bfs"
	"verif/harness/mintops"
	"verif/harness/rt"
)

// C16 — balances exact, limits enforced. One search per limits configuration; the limit predicates are evaluated in
// unbounded integers inside the operation oracles (mintops.opMintQuote / opMeltQuote), balances in Invariants().

var c16Amounts = []string{"1", "7", "8", "9", "9223372036854775807", "9223372036854775808", "18446744073709551615", "18446744073709551608"}

func c16Menu(w *mintops.W) []string {
	var ops []string
	if len(w.Quotes) < 5 {
		for _, a := range c16Amounts {
			ops = append(ops, "mq|"+a)
		}
	}
	for qi, q := range w.Quotes {
		if qi < 2 || q.Q.Amount > 64 {
			continue
		}
		if q.Payments == 0 {
			ops = append(ops, fmt.Sprintf("settle|%d", qi))
		}
		if q.Successes == 0 {
			ops = append(ops, fmt.Sprintf("mint|%d|exact", qi), fmt.Sprintf("mint|%d|less", qi))
		}
	}
	for _, i := range w.UnspentIdx(2) {
		ops = append(ops, fmt.Sprintf("swap|%d|exact", i))
	}
	if len(w.Melts) < 2 {
		ops = append(ops, "meltq|3", "meltq|4", "meltq|5")
		// the mint's own invoices (internal settlement) are melt quotes like any other
		for qi, q := range w.Quotes {
			if qi >= 2 && q.Payments == 0 && q.Q.Amount <= 64 {
				ops = append(ops, fmt.Sprintf("meltqi|%d", qi))
			}
		}
		if m := w.Cfg.Limits.MeltingSettings.MaxAmount; m > 0 {
			// amounts with sub-sat precision around the maximum
			ops = append(ops, fmt.Sprintf("meltqm|%d", m*1000-1), fmt.Sprintf("meltqm|%d", m*1000+1), fmt.Sprintf("meltqm|%d", m*1000+999))
			if w.Cfg.MPP {
				ops = append(ops, fmt.Sprintf("meltqpm|%d", m*1000), fmt.Sprintf("meltqpm|%d", m*1000+500))
			}
		}
	}
	for j, m := range w.Melts {
		if m.Known == "" || m.Known == "failure" {
			if in := w.PickMeltInputs(m, 0, 6); in != "" {
				ops = append(ops, fmt.Sprintf("melt|%d|%s|S", j, in), fmt.Sprintf("melt|%d|%s|F|F", j, in))
			} else if u := w.UnspentIdx(1); len(u) > 0 && w.Proofs[u[0]].P.Amount >= 8 {
				ops = append(ops, fmt.Sprintf("melt|%d|%d|S", j, u[0]))
			}
		}
	}
	if len(w.Keysets) < 2 {
		ops = append(ops, "rotate|100")
	}
	ops = append(ops, "info")
	ops = append(ops, "restart") // what is enforced must not depend on state that only lives in memory
	return ops
}

func c16Probe(w *mintops.W) {
	w.ProbeInfo()
	w.ProbeLimitsUnderReadFaults()
}

func c16OwnSpecs(quick bool) []*bfs.Spec {
	d := 3
	if !quick {
		d = 5
	}
	type lc struct {
		name string
		l    mint.MintLimits
		fee  uint
	}
	// balance after init fund|8,4,2,1,1 is 16; quote amount a = 8
	cfgs := []lc{
		{"unset", mint.MintLimits{}, 100},
		{"mintmax8", mint.MintLimits{MintingSettings: mint.MintMethodSettings{MaxAmount: 8}}, 0},
		{"meltmax4", mint.MintLimits{MeltingSettings: mint.MeltMethodSettings{MaxAmount: 4}}, 0},
		{"maxbal16", mint.MintLimits{MaxBalance: 16}, 0},
		{"maxbal24", mint.MintLimits{MaxBalance: 24}, 0},
	}
	if !quick {
		cfgs = append(cfgs,
			lc{"mintmax7", mint.MintLimits{MintingSettings: mint.MintMethodSettings{MaxAmount: 7}}, 0},
			lc{"mintmax9", mint.MintLimits{MintingSettings: mint.MintMethodSettings{MaxAmount: 9}}, 100},
			lc{"meltmax3", mint.MintLimits{MeltingSettings: mint.MeltMethodSettings{MaxAmount: 3}}, 0},
			lc{"meltmax5", mint.MintLimits{MeltingSettings: mint.MeltMethodSettings{MaxAmount: 5}}, 100},
			lc{"maxbal8", mint.MintLimits{MaxBalance: 8}, 0},
			lc{"maxbal23", mint.MintLimits{MaxBalance: 23}, 0},
			lc{"maxbal25", mint.MintLimits{MaxBalance: 25}, 100},
			lc{"maxbalmax", mint.MintLimits{MaxBalance: 1<<64 - 1}, 0},
			lc{"all", mint.MintLimits{MaxBalance: 24, MintingSettings: mint.MintMethodSettings{MaxAmount: 8}, MeltingSettings: mint.MeltMethodSettings{MaxAmount: 4}}, 100},
		)
	}
	var specs []*bfs.Spec
	sfx0 := map[bool]string{true: "-q", false: ""}[quick]
	// two quotes granted below the maximum and both paid: minting them lifts the balance ABOVE the maximum (the limit is
	// only checked at quote time); every further quote must then be refused
	specs = append(specs, &bfs.Spec{Prop: "C16", Name: "C16-overshoot" + sfx0, Cfg: mintops.Config{Fee: 0, Limits: mint.MintLimits{MaxBalance: 24}},
		Init: []string{"fund|8", "fund|4,2,1,1", "mq|8", "mq|8", "settle|2", "settle|3"}, Menu: c16Menu, Probe: c16Probe, Depth: d})
	// balance exactly at the maximum with a melt quote ready: info is read, the balance drops, info is read again
	specs = append(specs, &bfs.Spec{Prop: "C16", Name: "C16-info-after-drop" + sfx0, Cfg: mintops.Config{Fee: 100, Limits: mint.MintLimits{MaxBalance: 16}},
		Init: []string{"fund|8", "fund|4,2,1,1", "meltq|4"}, Menu: c16Menu, Probe: c16Probe, Depth: d - 1})
	specs = append(specs, &bfs.Spec{Prop: "C16", Name: "C16-meltmax4-mpp" + sfx0, Cfg: mintops.Config{Fee: 0, MPP: true, Limits: mint.MintLimits{MeltingSettings: mint.MeltMethodSettings{MaxAmount: 4}}},
		Init: []string{"fund|8", "fund|4,2,1,1"}, Menu: c16Menu, Probe: c16Probe, Depth: d - 1})
	// totals beyond 2^53 (where a sum made in double precision stops being exact): 2^53 + 1 + 2 issued, the limit one above
	specs = append(specs, &bfs.Spec{Prop: "C16", Name: "C16-above-2pow53" + sfx0, Cfg: mintops.Config{Fee: 0, Limits: mint.MintLimits{MaxBalance: 1<<53 + 4}},
		Init: []string{"fund|9007199254740992", "fund|1", "fund|2"}, Menu: c16Menu, Probe: c16Probe, Depth: 1})
	for _, c := range cfgs {
		specs = append(specs, &bfs.Spec{Prop: "C16", Name: "C16-" + c.name + map[bool]string{true: "-q", false: ""}[quick], Cfg: mintops.Config{Fee: c.fee, Limits: c.l},
			Init: []string{"fund|8", "fund|4,2,1,1"}, Menu: c16Menu, Probe: c16Probe, Depth: d})
	}
	return specs
}

var c16All = specMap(c16Specs(true), c16Specs(false))

func init() {
	register(&Prop{ID: "C16", Level: "model_checking", QuickBudget: 300 * time.Second, ThoroughBudget: 25 * time.Minute,
		Run: func(c *rt.Ctx) {
			c.Cov["rule"] = "E3, one search per limits configuration (unset / mint max {7,8,9} / melt max {3,4,5} / max balance {8, exactly the balance 16, 23, 24, 25, 2^64-1} / all three), fees 0 and 100: every history up to the depth bound over {mint quote for x in {1,7,8,9,2^63-1,2^63,2^64-1,2^64-8}, settle, mint (exact, less), swap (fee burns value), melt quote x {3,4,5}, melt quote on the invoice of an own mint quote (internal) and, with a melt maximum M, invoices / MPP parts of M*1000-1, +1, +500, +999 msat, melt x {Succeeded, Failed}, rotate}; in every state IssuedEcash/RedeemedEcash/TotalBalance are compared per keyset with the model's sums of signatures handed out / proofs consumed, the info endpoint with the exact predicate, and every quote request with the limit predicates evaluated in math/big; in every state the balance figures, the info flag and the refusal of the smallest over-balance mint quote are repeated with a storage error injected at each read call of the request: the answer must be an error or unchanged"
			c.Cov["limit_configurations"] = len(c16Specs(c.Quick()))
			runSpecs(c, c16Specs(c.Quick()))
		},
		Worker: bfs.Worker(c16All),
		Replay: func(p string) int { return bfs.ReplayFile("C16", c16All, p) },
	})
}

// c16Specs: the property's own searches plus the shallow search over the union of all mint-level menus (seqcommon.go).
func c16Specs(quick bool) []*bfs.Spec {
	return append(c16OwnSpecs(quick), unionSpecs("C16", c16Probe, quick)...)
}
