package props

import (
	"fmt"
	"time"

	"verif/harness/bfs"
	"verif/harness/mintops"
	"verif/harness/rt"
)

// C05 — melt inputs follow the Lightning outcome. E3 over every script of backend answers: pay in {Succeeded, Pending,
// Failed, error} followed by status answers in {NotFound, error, Failed, Pending, Succeeded}, resolved through melt
// itself, melt-quote polls, proof-state checks, a second melt on the same quote and a swap of the same inputs.
// The decision table lives in mintops (applyLN / meltExpect); it is compared with the store in every state.

var c05Status = []string{"N", "E", "F", "P", "S"}

func c05Menu(twoInputs bool) func(w *mintops.W) []string {
	return func(w *mintops.W) []string {
		var ops []string
		ins := "0"
		if twoInputs {
			ins = "0,1"
		}
		for j, m := range w.Melts {
			switch m.Known {
			case "", "failure":
				ops = append(ops, fmt.Sprintf("melt|%d|%s|S", j, ins), fmt.Sprintf("melt|%d|%s|P", j, ins))
				for _, s := range c05Status {
					ops = append(ops, fmt.Sprintf("melt|%d|%s|F|%s", j, ins, s), fmt.Sprintf("melt|%d|%s|E|%s", j, ins, s))
				}
			case "none":
				for _, s := range c05Status {
					ops = append(ops, fmt.Sprintf("pollm|%d|%s", j, s), fmt.Sprintf("check|%s|%s", ins, s))
				}
				// resolvers that must not consult the backend and must be refused
				ops = append(ops, fmt.Sprintf("melt|%d|%s|S", j, ins), fmt.Sprintf("swap|%s|exact", ins))
				if len(w.Melts) > 1 && j == 0 {
					ops = append(ops, fmt.Sprintf("melt|1|%s|S", ins))
				}
			case "success":
				ops = append(ops, fmt.Sprintf("pollm|%d|F", j), fmt.Sprintf("melt|%d|%s|S", j, ins), fmt.Sprintf("swap|%s|exact", ins), fmt.Sprintf("check|%s|F", ins))
			}
		}
		ops = append(ops, "restart")
		return ops
	}
}

// c05Probe: in every state, the expectation of the decision table is confirmed operationally: locked or spent inputs
// cannot be swapped, released inputs can (honest swap accepted) — run last because an accepted swap consumes them.
func c05Probe(ins string) func(w *mintops.W) {
	return func(w *mintops.W) {
		w.Exec("swap|" + ins + "|exact")
	}
}

func c05OwnSpecs(quick bool) []*bfs.Spec {
	d := 5
	if !quick {
		d = 7
	}
	sfx := map[bool]string{true: "-q", false: ""}[quick]
	specs := []*bfs.Spec{
		{Prop: "C05", Name: "C05-1in-fee0" + sfx, Cfg: mintops.Config{Fee: 0}, Init: []string{"fund|8,8", "meltq|4", "meltq|4"}, Menu: c05Menu(false), Probe: c05Probe("0"), Depth: d},
		{Prop: "C05", Name: "C05-2in-fee100" + sfx, Cfg: mintops.Config{Fee: 100}, Init: []string{"fund|4,4", "meltq|4", "meltq|4"}, Menu: c05Menu(true), Probe: c05Probe("0,1"), Depth: d},
	}
	if !quick {
		specs = append(specs,
			&bfs.Spec{Prop: "C05", Name: "C05-1in-fee100", Cfg: mintops.Config{Fee: 100}, Init: []string{"fund|8,8", "meltq|4", "meltq|4"}, Menu: c05Menu(false), Probe: c05Probe("0"), Depth: d},
			&bfs.Spec{Prop: "C05", Name: "C05-2in-fee0", Cfg: mintops.Config{Fee: 0}, Init: []string{"fund|4,4", "meltq|4", "meltq|4"}, Menu: c05Menu(true), Probe: c05Probe("0,1"), Depth: d})
	}
	return specs
}

var c05All = specMap(c05Specs(true), c05Specs(false))

func init() {
	register(&Prop{ID: "C05", Level: "model_checking", QuickBudget: 300 * time.Second, ThoroughBudget: 25 * time.Minute,
		Run: func(c *rt.Ctx) {
			c.Cov["rule"] = "E3 over Lightning answer scripts: from a state with two melt quotes, every sequence up to the depth bound of {melt with pay answer in {Succeeded, Pending, Failed, error} x first status answer in {NotFound, error, Failed, Pending, Succeeded}; then polls and proof-state checks each with status answer in {NotFound, error, Failed, Pending, Succeeded}; a second melt on the same quote; a melt of the same inputs on the other quote; a swap of the same inputs; restart}, one- and two-input melts, fee 0 and 100. Reference decision table: known in {none, success, failure} is updated only by answers the mint has seen; in every state the store's quote state / input states and an operational swap of the inputs are compared with it"
			runSpecs(c, c05Specs(c.Quick()))
			c.Cov["rule_schedules"] = "E1: the resolution of an in-flight melt (quote poll or proof-state check, backend outcome Succeeded or Failed) racing a swap of the same inputs / a melt of them on another quote / a second resolver: every interleaving at MintDB / Lightning call granularity with at most B preemptions (iterative bounding 0..B); oracle per execution: inputs of a paid melt accepted nowhere else, released inputs accepted at most once, quote and inputs follow the outcome after one more poll"
			if c.Quick() {
				runSched(c, "C05", []string{"L1-success-poll-vs-swap", "L2-success-check-vs-swap", "L3-success-poll-vs-melt", "L4-failure-poll-vs-swap-swap", "S10-melt-poll-swap", "S11-failedmelt-poll-remelt-swap", "S12f-meltfails-remelt-swap"}, 2)
			} else {
				runSchedAll(c, "C05", []string{"L1-success-poll-vs-swap", "L2-success-check-vs-swap", "L3-success-poll-vs-melt", "L4-failure-poll-vs-swap-swap", "L5-success-poll-vs-check-vs-swap"}, 3)
				runSchedAll(c, "C05", []string{"S10-melt-poll-swap", "S11-failedmelt-poll-remelt-swap", "S12f-meltfails-remelt-swap", "S12n-meltnotfound-remelt-swap"}, 2)
			}
		},
		Worker: dispatchWorker(bfs.Worker(c05All)),
		Replay: func(p string) int {
			if code, ok := replaySched("C05", p); ok {
				return code
			}
			return bfs.ReplayFile("C05", c05All, p)
		},
	})
}

// c05Specs: the property's own searches plus the shallow search over the union of all mint-level menus (seqcommon.go).
func c05Specs(quick bool) []*bfs.Spec {
	return append(c05OwnSpecs(quick), unionSpecs("C05", c05Probe("0"), quick)...)
}
