package props

import (
	"fmt"
	"strconv"
	"strings"
	"time"

	"verif/harness/bfs"
	"verif/harness/mintops"
	"verif/harness/rt"
)

// C01 — no double spend. Sequential part (E3): all histories over two colliding proofs and two melt quotes.
// Concurrent part (E1): see c01_sched.go.

func c01Menu(w *mintops.W) []string {
	var ops []string
	np := cap2(len(w.Proofs), 2)
	for i := 0; i < np; i++ {
		ops = append(ops, fmt.Sprintf("swap|%d|exact", i), fmt.Sprintf("swap|%d,%d|exact", i, i),
			fmt.Sprintf("swap|%dw|exact", i), fmt.Sprintf("swap|%dd|exact", i), fmt.Sprintf("swap|%da|exact", i))
	}
	if np == 2 {
		ops = append(ops, "swap|0,1|exact", "swap|0,0w|exact")
	}
	if len(w.Melts) < 2 {
		ops = append(ops, "meltq|4")
	}
	for j, m := range w.Melts {
		for i := 0; i < np; i++ {
			ops = append(ops, fmt.Sprintf("melt|%d|%d|S", j, i), fmt.Sprintf("melt|%d|%d|P", j, i), fmt.Sprintf("melt|%d|%d|F|N", j, i))
		}
		if np == 2 {
			ops = append(ops, fmt.Sprintf("melt|%d|0,0|S", j), fmt.Sprintf("melt|%d|0,1|P", j), fmt.Sprintf("melt|%d|0,1|S", j))
			// the same secret twice in one melt, the copies differing in the witness field
			ops = append(ops, fmt.Sprintf("melt|%d|0,0w|S", j), fmt.Sprintf("melt|%d|0,0w|P", j))
		}
		if m.Known == "none" {
			ops = append(ops, fmt.Sprintf("pollm|%d|S", j), fmt.Sprintf("pollm|%d|F", j), fmt.Sprintf("pollm|%d|P", j))
			// the state check itself is the first to learn the outcome
			ops = append(ops, "check|0,1|S", "check|0,1|F")
		}
	}
	if np > 0 {
		ops = append(ops, "check|0,1|P")
	}
	ops = append(ops, "restart")
	return ops
}

func c01OwnSpecs(quick bool) []*bfs.Spec {
	d := 4
	if !quick {
		d = 6
	}
	specs := []*bfs.Spec{
		{Prop: "C01", Name: "C01-seq-fee0", Cfg: mintops.Config{Fee: 0}, Init: []string{"fund|8,8"}, Menu: c01Menu, Probe: probeRespend(2), Depth: d},
	}
	// requests with 1000 inputs: the re-presented secret sits behind 999 fresh ones (a spent one in a melt, one locked by
	// an in-flight melt in a swap, both in a state check); one scripted history, judged by the same transition oracles
	specs = append(specs, &bfs.Spec{Prop: "C01", Name: "C01-large-requests", Cfg: mintops.Config{Fee: 0}, Init: largeRequestHistory(), Depth: 0})
	if !quick {
		specs = append(specs, &bfs.Spec{Prop: "C01", Name: "C01-seq-fee100", Cfg: mintops.Config{Fee: 100}, Init: []string{"fund|8,8"}, Menu: c01Menu, Probe: probeRespend(2), Depth: d})
	}
	return specs
}

var c01All = specMap(c01Specs(true), c01Specs(false))

func init() {
	register(&Prop{ID: "C01", Level: "model_checking", QuickBudget: 300 * time.Second, ThoroughBudget: 25 * time.Minute,
		Run: func(c *rt.Ctx) {
			c.Cov["rule"] = "E3: every operation sequence up to the depth bound over the alphabet {swap of p0/p1 (plain, duplicated in one request, changed witness / DLEQ pointer / amount field, both), melt quote, melt x {Succeeded, Pending, Failed->NotFound}, poll x {Succeeded, Failed, Pending}, state check x {Pending, Succeeded, Failed} (the check itself learning the outcome), restart}; a state is distinct by its canonical form (proof states in store and model, quote states, Lightning payment states); in every state each used proof is re-presented and the state-check endpoint compared with the model"
			runSpecs(c, c01Specs(c.Quick()))
			c.Cov["rule_schedules"] = "E1: for each scenario every interleaving of the concurrent API calls at MintDB / Lightning call granularity with at most B preemptions (iterative bounding 0..B), followed (thorough tier, and S13 in both tiers) by ALL interleavings without a preemption bound, as a graph search over state keys (store tables, backend ledger, per thread its position and everything it has observed): the first execution reaching a state expands every alternative there, later ones are cut at it; oracle per execution: each secret consumed by at most one successful operation (swap returned signatures / melt's payment succeeded or is in flight at the backend), consumed proofs end SPENT or PENDING, state checks monotone, no value created"
			if c.Quick() {
				runSched(c, "C01", []string{"S1-swap-swap", "S2-swap-melt", "S3-melt-melt", "S5-swap-swapvariant", "S6-pendingmelt-poll-swap", "S8p-swap-melt-pending", "S8f-swap-melt-failed", "S10-melt-poll-swap", "S11-failedmelt-poll-remelt-swap", "S12f-meltfails-remelt-swap"}, 2)
				runSchedAll(c, "C01", []string{"S13-failedmelt-poll-poll-remelt-swap"}, 1)
				runSchedAll(c, "C01", []string{"S14-internalmelt-swap"}, 2)
			} else {
				runSchedAll(c, "C01", []string{"S1-swap-swap", "S2-swap-melt", "S3-melt-melt", "S4-swap-melt-check", "S5-swap-swapvariant", "S6-pendingmelt-poll-swap", "S6f-pendingmelt-failed-poll-swap", "S8p-swap-melt-pending", "S8f-swap-melt-failed", "S9-two-input-overlap", "S10-melt-poll-swap"}, 3)
				runSchedAll(c, "C01", []string{"S11-failedmelt-poll-remelt-swap", "S12f-meltfails-remelt-swap", "S12n-meltnotfound-remelt-swap"}, 2)
				runSchedAll(c, "C01", []string{"S7-swap-swap-melt"}, 2)
				runSchedAll(c, "C01", []string{"S3c-melt-melt-check", "S1c-swap-swap-check-check"}, 1)
				runSchedAll(c, "C01", []string{"S13-failedmelt-poll-poll-remelt-swap"}, 1)
				runSchedAll(c, "C01", []string{"S14-internalmelt-swap"}, 2)
			}
		},
		Worker: dispatchWorker(bfs.Worker(c01All)),
		Replay: func(p string) int {
			if code, ok := replaySched("C01", p); ok {
				return code
			}
			return bfs.ReplayFile("C01", c01All, p)
		},
	})
}

// c01Specs: the property's own searches plus the shallow search over the union of all mint-level menus (seqcommon.go).
func c01Specs(quick bool) []*bfs.Spec {
	return append(c01OwnSpecs(quick), unionSpecs("C01", probeRespend(2), quick)...)
}

// largeRequestHistory: requests with 1000 inputs / state checks with 1003 Ys in which the used secret sits behind 999
// fresh ones (second batch of a store that looks Ys up in batches) and, at the end, in front of them (first batch).
func largeRequestHistory() []string {
	seq := func(lo, hi int) string {
		var p []string
		for i := lo; i <= hi; i++ {
			p = append(p, strconv.Itoa(i))
		}
		return strings.Join(p, ",")
	}
	return []string{"fund|" + strings.TrimSuffix(strings.Repeat("1,", 1003), ","), "swap|1002|exact", "meltq|1", "melt|0|1000,1001|P", "meltq|900",
		"melt|1|" + seq(0, 998) + ",1002|S", "swap|" + seq(0, 998) + ",1000|exact", "check|" + seq(0, 998) + ",1002,1000,1001|P",
		"check|1002,1000," + seq(0, 998) + ",1001|P", "melt|1|" + seq(0, 999) + "|S", "check|" + seq(0, 1002) + "|P"}
}
