package props

import (
	"encoding/hex"
	"encoding/json"
	"fmt"
	"github.com/decred/dcrd/dcrec/secp256k1/v4"
	"github.com/elnosh/gonuts/cashu/nuts/nut20"
	"time"
	"verif/harness/world"

	"verif/harness/bfs"
	"verif/harness/mintops"
	"verif/harness/rt"
)

// C03 — a mint quote is issued at most once per payment, never before it is paid.
// Sequential part (E3) here; concurrent part (E1) in c03_sched.go; NUT-20 tampering matrix (E4) in c03_nut20.go.

func c03Menu(w *mintops.W) []string {
	var ops []string
	nUser := len(w.Quotes) - 1
	if nUser < 2 {
		ops = append(ops, "mq|8", "mq|8|k")
	}
	for qi, q := range w.Quotes {
		if qi == 0 {
			continue
		}
		if q.Payments == 0 || !w.LN.Invoices[q.Q.PaymentHash].Settled {
			ops = append(ops, fmt.Sprintf("settle|%d", qi))
		}
		ops = append(ops, fmt.Sprintf("pollq|%d", qi), fmt.Sprintf("mint|%d|exact", qi), fmt.Sprintf("mint|%d|same", qi), fmt.Sprintf("mint|%d|over", qi))
		if q.Key != nil {
			ops = append(ops, fmt.Sprintf("mint|%d|nosig", qi), fmt.Sprintf("mint|%d|badsig", qi))
			// a genuine signature that does not cover exactly the submitted outputs of this quote, and (honest) several
			// outputs in an unsorted order
			// (sig-cut ... sig-doubled: the genuine signature as well-formed hex of 63 / 65 / 1 / 128 bytes)
			for _, v := range []string{"sig-reordered", "sig-sorted", "sig-added", "sig-removed", "sig-otherquote", "unsorted", "sig-cut", "sig-padded", "sig-onebyte", "sig-doubled"} {
				ops = append(ops, fmt.Sprintf("mint|%d|%s", qi, v))
			}
		}
		if w.LN.Invoices[q.Q.PaymentHash].Settled && !q.Fired {
			ops = append(ops, fmt.Sprintf("fire|%d", qi))
		}
		hasMelt := false
		for _, m := range w.Melts {
			if m.Internal == qi {
				hasMelt = true
			}
		}
		if !hasMelt && len(w.Melts) < 2 {
			ops = append(ops, fmt.Sprintf("meltqi|%d", qi))
			if w.Cfg.MPP {
				// a 1 sat multi-path part of the quote's own invoice: must never settle the whole quote
				ops = append(ops, fmt.Sprintf("meltqpi|%d", qi))
			}
		}
	}
	for j, m := range w.Melts {
		if m.Known == "" {
			if u := w.UnspentIdx(1); len(u) > 0 {
				ops = append(ops, fmt.Sprintf("melt|%d|%d|S", j, u[0]))
			}
		}
	}
	ops = append(ops, "restart")
	return ops
}

// c03Probe: in every state every quote is asked for fresh signatures once more. The operation oracle decides:
// unpaid or already-issued quotes must refuse, a paid and not yet issued quote must accept.
func c03Probe(w *mintops.W) {
	for qi := range w.Quotes {
		if qi == 0 {
			continue
		}
		w.Exec(fmt.Sprintf("mint|%d|exact", qi))
	}
	c03HTTPProbe(w)
}

// c03HTTPProbe: the same rule through the HTTP handler (which keeps a NUT-19 response cache): a fresh quote, plain and
// NUT-20 locked, is paid and issued over HTTP; every further, different request for it — other outputs, and for the
// locked quote other outputs with a signature by another key or none — must be refused, not answered 200.
func c03HTTPProbe(w *mintops.W) {
	x := &c20{w: w}
	x.act = w.M.ActiveID()
	key := secp256k1.PrivKeyFromBytes([]byte("c03 http probe nut20 key 32bytes"))
	other := secp256k1.PrivKeyFromBytes([]byte("c03 http probe OTHER key 32bytes"))
	for _, locked := range []bool{false, true} {
		pub := ""
		if locked {
			pub = fmt.Sprintf(`,"pubkey":%q`, hex.EncodeToString(key.PubKey().SerializeCompressed()))
		}
		qid, qh := x.mintQuote(8, pub)
		if qid == "" {
			continue
		}
		w.LN.Settle(qh)
		body := func(outs []world.Out, signer *secp256k1.PrivateKey) string {
			m := map[string]any{"quote": qid, "outputs": json.RawMessage(outsJSON(outs))}
			if signer != nil {
				sg, _ := nut20.SignMintQuote(signer, qid, world.Msgs(outs))
				m["signature"] = hex.EncodeToString(sg.Serialize())
			}
			return jsonStr(m)
		}
		var signer *secp256k1.PrivateKey
		if locked {
			signer = key
		}
		first := x.call("POST", "/v1/mint/bolt11", body(w.U.Outputs(x.act, 8), signer))
		if first.code != 200 {
			continue
		}
		kind := map[bool]string{false: "plain", true: "nut20"}[locked]
		again := []struct {
			name   string
			signer *secp256k1.PrivateKey
		}{{"other-outputs", signer}}
		if locked {
			again = append(again, struct {
				name   string
				signer *secp256k1.PrivateKey
			}{"other-outputs-signed-by-another-key", other}, struct {
				name   string
				signer *secp256k1.PrivateKey
			}{"other-outputs-unsigned", nil})
		}
		for _, a := range again {
			r := x.call("POST", "/v1/mint/bolt11", body(w.U.Outputs(x.act, 8), a.signer))
			if r.code == 200 {
				w.Viol("C03,C20", "http/issued-quote-answered-200/"+kind+"/"+a.name, "POST /v1/mint/bolt11 for the already issued %s quote with %s was answered 200: %.160q", kind, a.name, r.raw)
			}
		}
	}
}

func c03OwnSpecs(quick bool) []*bfs.Spec {
	d := 4
	if !quick {
		d = 6
	}
	sfx := map[bool]string{true: "-q", false: ""}[quick]
	return []*bfs.Spec{
		{Prop: "C03", Name: "C03-seq" + sfx, Cfg: mintops.Config{Fee: 0}, Init: []string{"fund|8,8"}, Menu: c03Menu, Probe: c03Probe, Depth: d},
		// multi-path payments enabled: partial melt quotes on the quote's own invoice join the menu
		{Prop: "C03", Name: "C03-mpp" + sfx, Cfg: mintops.Config{Fee: 0, MPP: true}, Init: []string{"fund|8,8", "mq|8"}, Menu: c03Menu, Probe: c03Probe, Depth: d - 1},
	}
}

var c03All = specMap(c03Specs(true), c03Specs(false))

func init() {
	register(&Prop{ID: "C03", Level: "model_checking", QuickBudget: 300 * time.Second, ThoroughBudget: 25 * time.Minute,
		Run: func(c *rt.Ctx) {
			c.Cov["rule"] = "E3: every history up to the depth bound over {mint quote (plain, NUT-20 locked), settle (user pays), poll, mint x {fresh exact, same outputs again, over amount, without / with foreign NUT-20 signature}, delivery of the backend's asynchronous 'invoice settled' notification to the mint's watcher goroutine, internal melt of the quote's own invoice, restart}, at most 2 quotes; the Lightning model is the truth about payments; in every state every quote is asked for fresh signatures once more (must refuse unless paid and not yet issued)"
			runSpecs(c, c03Specs(c.Quick()))
			c.Cov["rule_schedules"] = "E1: for each scenario every interleaving of concurrent MintTokens calls (different outputs), quote-state polls, the user's payment and the backend's asynchronous notification (the mint's own watcher goroutine is adopted as a thread parked before its store write) at MintDB / Lightning call granularity with at most B preemptions, followed by a sequential tail mint; oracle: successful issuances <= payments, total <= amount, none before settlement, final state ISSUED iff issued, a paid unissued quote stays usable"
			if c.Quick() {
				runSched(c, "C03", []string{"M1-mint-mint", "M3-mint-poll-watcher", "M5-mint-poll-settlement", "M6-nut20-mint-mint", "M7-mint-badmint"}, 2)
			} else {
				runSchedAll(c, "C03", []string{"M1-mint-mint", "M3-mint-poll-watcher", "M4-mint-mint-watcher", "M5-mint-poll-settlement", "M6-nut20-mint-mint", "M7-mint-badmint"}, 3)
				runSchedAll(c, "C03", []string{"M2-mint-mint-mint"}, 2)
			}
		},
		Worker: dispatchWorker(bfs.Worker(c03All)),
		Replay: func(p string) int {
			if code, ok := replaySched("C03", p); ok {
				return code
			}
			return bfs.ReplayFile("C03", c03All, p)
		},
	})
}

// c03Specs: the property's own searches plus the shallow search over the union of all mint-level menus (seqcommon.go).
func c03Specs(quick bool) []*bfs.Spec {
	return append(c03OwnSpecs(quick), unionSpecs("C03", c03Probe, quick)...)
}
