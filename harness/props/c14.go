package props

// C14 — "Tokens survive serialisation exactly; decoding arbitrary text never crashes".
//
// Engine E4 (bounded-exhaustive enumeration, DESIGN.md §3.5 and "### C14"):
//
//   (a) round trip: every proof list of length 0..3 over 16 representative proof variants
//       (a strength-2 orthogonal array over id × secret × amount × DLEQ × witness), one
//       structured list (and its DLEQ-completed twin) per length 4..40, hand-built multi-entry
//       V3 tokens; × {V3,V4} × includeDLEQ × 2 mint URLs; compared by an evaluator written
//       from the property statement (not from the code);
//   (b) totality: DecodeToken and every accessor under recover() over explicit string families.
//
// Nothing here is random; every family is a nested loop over an explicit finite set.

import (
	"bytes"
	"crypto/sha256"
	"encoding/base64"
	"encoding/hex"
	"encoding/json"
	"fmt"
	"os"
	"sort"
	"strings"
	"sync"
	"time"

	"github.com/elnosh/gonuts/cashu"
	"github.com/fxamacker/cbor/v2"

	"verif/harness/rt"
)

func init() {
	register(&Prop{ID: "C14", Level: "exploration", QuickBudget: 90 * time.Second, ThoroughBudget: 15 * time.Minute,
		Run: runC14, Replay: replayC14})
}

// Stable keys of the two defects known from reading the code.
const (
	c14KeyShortPanic = "C14/totality/DecodeToken-panics/len<6"
	c14KeyMintEmpty  = "C14/totality/Mint()-panics/empty-token-list"
)

type c14Fail struct {
	Key  string
	What string
}

// c14Safe runs f and converts a panic into a message.
func c14Safe(f func()) (msg string, panicked bool) {
	defer func() {
		if r := recover(); r != nil {
			panicked = true
			msg = fmt.Sprint(r)
		}
	}()
	f()
	return
}

// c14Class: first 60 chars of a panic message with digits replaced by '#'.
func c14Class(msg string) string {
	b := []byte(msg)
	if len(b) > 60 {
		b = b[:60]
	}
	for i, ch := range b {
		if ch >= '0' && ch <= '9' {
			b[i] = '#'
		} else if ch < 0x20 || ch > 0x7e {
			b[i] = '?'
		}
	}
	return string(b)
}

func c14Trunc(s string, n int) string {
	if len(s) <= n {
		return fmt.Sprintf("%q", s)
	}
	return fmt.Sprintf("%q…(%d bytes)", s[:n], len(s))
}

// ---------------------------------------------------------------------------------------------
// Round-trip alphabet
// ---------------------------------------------------------------------------------------------

func c14Hex32(label string) string {
	h := sha256.Sum256([]byte("c14/" + label))
	return hex.EncodeToString(h[:])
}

var (
	c14IDs = []string{"00ad268c4d1f5826", "00ffd48b8f5ecf80", "009a1f293253e41e", "00c074b96c7e2b0e"}

	c14Secrets = []string{
		"9a6dbb847bd232ba76db0df197216b29d3b8cc14553cd27827fc1cc942fedb4e",
		`["P2PK",{"nonce":"da62796403af76c80cd6ce9153ed3746","data":"033281c37677ea273eb7183b783067f5244933ef78d8c3f15b1a77cb246099c26e","tags":[["sigflag","SIG_ALL"],["n_sigs","2"]]}]`,
		"ünï✓ \"q\" \\ </&>   日本",
		"",
	}

	c14Amounts = []uint64{1, 8, 1 << 62, 1 << 63}

	c14Witnesses = []string{
		"",
		`{"signatures":["` + c14Hex32("sig-a") + c14Hex32("sig-b") + `"]}`,
		"",
		`{"preimage":"` + c14Hex32("preimage") + `","signatures":["` + c14Hex32("sig-c") + c14Hex32("sig-d") + `"]}`,
	}

	c14Mints = []string{"http://localhost:3338", "https://8333.space:3338/ünï/path?x=1&y=<\"z\">"}
)

// c14DLEQ level: 0 nil, 1 (e,s) without r, 2 (e,s,r), 3 (e',s',r').
func c14DLEQ(level int) *cashu.DLEQProof {
	switch level {
	case 1:
		return &cashu.DLEQProof{E: c14Hex32("e1"), S: c14Hex32("s1")}
	case 2:
		return &cashu.DLEQProof{E: c14Hex32("e2"), S: c14Hex32("s2"), R: c14Hex32("r2")}
	case 3:
		// scalars that begin with zero bytes (about one scalar in 256 does): every hex digit must survive
		return &cashu.DLEQProof{E: "00" + c14Hex32("e3")[2:], S: "0000" + c14Hex32("s3")[4:], R: "00000000" + c14Hex32("r3")[8:]}
	}
	return nil
}

// GF(4) multiplication (0,1,x,x+1 as 0,1,2,3); addition is XOR.
var c14gf4mul = [4][4]int{{0, 0, 0, 0}, {0, 1, 2, 3}, {0, 2, 3, 1}, {0, 3, 1, 2}}

type c14Variant struct {
	Levels [5]int // id, secret, amount, dleq, witness
	Proof  cashu.Proof
}

// c14Variants builds the 16 rows of OA(16,5,4,2): (i, j, i+j, i+2j, i+3j) over GF(4). Every pair of
// levels of every two factors occurs exactly once, so all pairs id×secret, amount×dleq, … are covered.
func c14Variants() []c14Variant {
	out := make([]c14Variant, 0, 16)
	for i := 0; i < 4; i++ {
		for j := 0; j < 4; j++ {
			lv := [5]int{i, j, i ^ j, i ^ c14gf4mul[2][j], i ^ c14gf4mul[3][j]}
			n := len(out)
			pfx := "02"
			if n%2 == 1 {
				pfx = "03"
			}
			p := cashu.Proof{
				Amount:  c14Amounts[lv[2]],
				Id:      c14IDs[lv[0]],
				Secret:  c14Secrets[lv[1]],
				C:       pfx + c14Hex32(fmt.Sprintf("C-%d", n)),
				Witness: c14Witnesses[lv[4]],
				DLEQ:    c14DLEQ(lv[3]),
			}
			out = append(out, c14Variant{Levels: lv, Proof: p})
		}
	}
	return out
}

// c14PairwiseOK verifies the covering property of the variant table (harness self-validation).
func c14PairwiseOK(vs []c14Variant) bool {
	for a := 0; a < 5; a++ {
		for b := a + 1; b < 5; b++ {
			seen := map[[2]int]bool{}
			for _, v := range vs {
				seen[[2]int{v.Levels[a], v.Levels[b]}] = true
			}
			if len(seen) != 16 {
				return false
			}
		}
	}
	return len(vs) == 16
}

func c14CopyProofs(ps cashu.Proofs) cashu.Proofs {
	out := make(cashu.Proofs, len(ps))
	for i, p := range ps {
		out[i] = p
		if p.DLEQ != nil {
			d := *p.DLEQ
			out[i].DLEQ = &d
		}
	}
	return out
}

func c14Sum(ps cashu.Proofs) uint64 {
	var s uint64
	for _, p := range ps {
		s += p.Amount // uint64 arithmetic, wraps at 2^64 by definition
	}
	return s
}

func c14DLEQEq(a, b *cashu.DLEQProof) bool {
	if a == nil || b == nil {
		return a == nil && b == nil
	}
	return *a == *b
}

func c14DLEQStr(d *cashu.DLEQProof) string {
	if d == nil {
		return "nil"
	}
	sh := func(s string) string {
		if len(s) > 8 {
			return s[:8] + "…"
		}
		return s
	}
	return fmt.Sprintf("{e:%s s:%s r:%q}", sh(d.E), sh(d.S), sh(d.R))
}

func c14ProofStr(p cashu.Proof) string {
	return fmt.Sprintf("{amount:%d id:%s secret:%s C:%s witness:%s dleq:%s}", p.Amount, p.Id, c14Trunc(p.Secret, 24),
		c14Trunc(p.C, 10), c14Trunc(p.Witness, 24), c14DLEQStr(p.DLEQ))
}

func c14Group(ps cashu.Proofs) (ids []string, groups map[string]cashu.Proofs) {
	groups = map[string]cashu.Proofs{}
	for _, p := range ps {
		if _, ok := groups[p.Id]; !ok {
			ids = append(ids, p.Id)
		}
		groups[p.Id] = append(groups[p.Id], p)
	}
	sort.Strings(ids)
	return
}

// ---------------------------------------------------------------------------------------------
// Round-trip case and its evaluator (written from the property statement)
// ---------------------------------------------------------------------------------------------

type c14RTCase struct {
	Kind        string       `json:"kind"`   // "roundtrip"
	Format      string       `json:"format"` // V3 | V4 | V3-multi (hand-built TokenV3 with several mint entries)
	IncludeDLEQ bool         `json:"include_dleq"`
	Mint        string       `json:"mint"`
	Proofs      cashu.Proofs `json:"proofs"`
	Split       []int        `json:"split,omitempty"`      // V3-multi: number of proofs per entry
	Variants    []int        `json:"variants,omitempty"`   // indices into the 16-variant table (information)
	MustBuild   bool         `json:"must_build,omitempty"` // the plainest one-proof list: a refusal is a failure (anti-vacuity)
}

type c14RTResult struct {
	Outcome       string // ok | refused-empty | refused-dleq-without-r | refused-other | failed
	RefusalErr    string
	Token         string
	CallerMutated bool
	Fails         []c14Fail
}

func c14MultiMint(base string, k int) string {
	if k == 0 {
		return base
	}
	return fmt.Sprintf("%s/entry%d", base, k)
}

func c14RoundTrip(cs c14RTCase) c14RTResult {
	res := c14RTResult{Outcome: "ok"}
	pristine := c14CopyProofs(cs.Proofs)
	input := c14CopyProofs(cs.Proofs)
	pre := "C14/roundtrip/" + cs.Format + "/"

	var lst []string
	for i, p := range pristine {
		if i == 4 {
			lst = append(lst, fmt.Sprintf("…(%d proofs)", len(pristine)))
			break
		}
		lst = append(lst, c14ProofStr(p))
	}
	desc := fmt.Sprintf("format=%s includeDLEQ=%v mint=%q split=%v proofs=[%s]", cs.Format, cs.IncludeDLEQ, cs.Mint, cs.Split, strings.Join(lst, " "))
	fail := func(k, what string) {
		res.Outcome = "failed"
		res.Fails = append(res.Fails, c14Fail{Key: pre + k, What: what + " — case: " + desc})
	}

	// 1. build
	var tok cashu.Token
	var err error
	keepDLEQ := cs.IncludeDLEQ
	msg, pan := c14Safe(func() {
		switch cs.Format {
		case "V3":
			t, e := cashu.NewTokenV3(input, cs.Mint, cashu.Sat, cs.IncludeDLEQ)
			tok, err = t, e
		case "V4":
			t, e := cashu.NewTokenV4(input, cs.Mint, cashu.Sat, cs.IncludeDLEQ)
			tok, err = t, e
		case "V3-multi":
			keepDLEQ = true
			entries := []cashu.TokenV3Proof{}
			off := 0
			for k, n := range cs.Split {
				entries = append(entries, cashu.TokenV3Proof{Mint: c14MultiMint(cs.Mint, k), Proofs: input[off : off+n]})
				off += n
			}
			tok = cashu.TokenV3{Token: entries, Unit: "sat"}
		default:
			err = fmt.Errorf("harness: unknown format %q", cs.Format)
		}
	})
	if pan {
		fail("constructor-panics/"+c14Class(msg), "expected: constructor returns a token or an error; observed: panic "+msg)
		return res
	}
	if err != nil {
		res.RefusalErr = err.Error()
		partial := false
		for _, p := range pristine {
			if p.DLEQ != nil && p.DLEQ.R == "" {
				partial = true
			}
		}
		switch {
		case len(pristine) == 0:
			res.Outcome = "refused-empty"
		case cs.Format == "V4" && cs.IncludeDLEQ && partial:
			res.Outcome = "refused-dleq-without-r"
		default:
			res.Outcome = "refused-other"
		}
		if cs.MustBuild {
			fail("plain-proof-refused", "expected: a token is built from one plain proof (amount 1, hex id, hex secret, hex C, no witness, no DLEQ); observed: error "+err.Error())
		}
		return res
	}
	for i := range pristine {
		a, b := input[i], pristine[i]
		if a.Amount != b.Amount || a.Id != b.Id || a.Secret != b.Secret || a.C != b.C || a.Witness != b.Witness || !c14DLEQEq(a.DLEQ, b.DLEQ) {
			res.CallerMutated = true // information only: the statement does not forbid it
		}
	}

	want := c14CopyProofs(pristine)
	if !keepDLEQ {
		for i := range want {
			want[i].DLEQ = nil
		}
	}
	sum := c14Sum(pristine)

	// 2. amount of the built token
	var got uint64
	if msg, pan = c14Safe(func() { got = tok.Amount() }); pan {
		fail("built-Amount()-panics/"+c14Class(msg), "expected: Amount() of the built token returns; observed: panic "+msg)
	} else if got != sum {
		fail("amount-of-built-token", fmt.Sprintf("expected: Amount() of the built token == Σ amounts = %d (uint64); observed: %d", sum, got))
	}

	// 3. serialise
	var s string
	if msg, pan = c14Safe(func() { s, err = tok.Serialize() }); pan {
		fail("Serialize()-panics/"+c14Class(msg), "expected: Serialize() of the built token returns; observed: panic "+msg)
		return res
	}
	if err != nil {
		fail("serialize-error", "expected: a built token serialises; observed error: "+err.Error())
		return res
	}
	res.Token = s

	// 4. decode
	var dec cashu.Token
	if msg, pan = c14Safe(func() { dec, err = cashu.DecodeToken(s) }); pan {
		fail("decode-panics/"+c14Class(msg), "expected: DecodeToken(serialised token) returns the token; observed: panic "+msg+" token="+c14Trunc(s, 80))
		return res
	}
	if err != nil || dec == nil {
		fail("decode-error", fmt.Sprintf("expected: DecodeToken(serialised token) returns the token; observed: token=%v err=%v token=%s", dec, err, c14Trunc(s, 80)))
		return res
	}

	// 5. mint URL, unit, amount
	if cs.Format != "V3-multi" {
		var m string
		if msg, pan = c14Safe(func() { m = dec.Mint() }); pan {
			fail("decoded-Mint()-panics/"+c14Class(msg), "expected: Mint() returns the mint URL; observed: panic "+msg)
		} else if m != cs.Mint {
			fail("mint-url", fmt.Sprintf("expected: Mint() == %q; observed: %q", cs.Mint, m))
		}
	} else {
		// several mints in one V3 token: Mint() is only required not to panic when there is at least one entry
		if msg, pan = c14Safe(func() { _ = dec.Mint() }); pan && len(cs.Split) > 0 {
			fail("decoded-Mint()-panics/"+c14Class(msg), "expected: Mint() returns; observed: panic "+msg)
		}
	}
	switch t := dec.(type) {
	case *cashu.TokenV3:
		if t.Unit != "sat" {
			fail("unit", fmt.Sprintf("expected: unit \"sat\"; observed: %q", t.Unit))
		}
		if cs.Format == "V4" {
			fail("decoded-as-other-format", "expected: a cashuB string decodes as V4; observed: *TokenV3")
		}
	case *cashu.TokenV4:
		if t.Unit != "sat" {
			fail("unit", fmt.Sprintf("expected: unit \"sat\"; observed: %q", t.Unit))
		}
		if cs.Format != "V4" {
			fail("decoded-as-other-format", "expected: a cashuA string decodes as V3; observed: *TokenV4")
		}
	}
	if msg, pan = c14Safe(func() { got = dec.Amount() }); pan {
		fail("decoded-Amount()-panics/"+c14Class(msg), "expected: Amount() of the decoded token returns; observed: panic "+msg)
	} else if got != sum {
		fail("amount-of-decoded-token", fmt.Sprintf("expected: Amount() of the decoded token == Σ amounts = %d (uint64); observed: %d", sum, got))
	}

	// 6. proofs: same multiset, order kept inside each keyset group
	var have cashu.Proofs
	if msg, pan = c14Safe(func() { have = dec.Proofs() }); pan {
		fail("decoded-Proofs()-panics/"+c14Class(msg), "expected: Proofs() of the decoded token returns; observed: panic "+msg)
		return res
	}
	if len(have) != len(want) {
		fail("proof-count", fmt.Sprintf("expected: %d proofs; observed: %d", len(want), len(have)))
		return res
	}
	wids, wg := c14Group(want)
	hids, hg := c14Group(have)
	if strings.Join(wids, ",") != strings.Join(hids, ",") {
		fail("proof-keyset-ids", fmt.Sprintf("expected keyset ids %v; observed %v", wids, hids))
		return res
	}
	for _, id := range wids {
		w, h := wg[id], hg[id]
		if len(w) != len(h) {
			fail("proof-keyset-grouping", fmt.Sprintf("keyset %s: expected %d proofs; observed %d", id, len(w), len(h)))
			return res
		}
		for i := range w {
			a, b := w[i], h[i]
			field := ""
			switch {
			case a.Amount != b.Amount:
				field = "amount"
			case a.Secret != b.Secret:
				field = "secret"
			case a.C != b.C:
				field = "C"
			case a.Witness != b.Witness:
				field = "witness"
			}
			if field != "" {
				fail("proof-field-"+field, fmt.Sprintf("keyset %s position %d: expected %s; observed %s", id, i, c14ProofStr(a), c14ProofStr(b)))
				return res
			}
			if !c14DLEQEq(a.DLEQ, b.DLEQ) {
				k := "dleq-changed"
				switch {
				case a.DLEQ != nil && b.DLEQ == nil:
					k = "dleq-lost"
				case a.DLEQ == nil && !keepDLEQ:
					k = "dleq-present-when-not-requested"
				case a.DLEQ == nil:
					k = "dleq-fabricated"
				}
				fail(k, fmt.Sprintf("keyset %s position %d: expected dleq %s; observed %s", id, i, c14DLEQStr(a.DLEQ), c14DLEQStr(b.DLEQ)))
				return res
			}
		}
	}
	return res
}

// ---------------------------------------------------------------------------------------------
// Totality case
// ---------------------------------------------------------------------------------------------

type c14StrCase struct {
	Kind     string `json:"kind"` // "totality"
	Family   string `json:"family"`
	Input    string `json:"input,omitempty"` // printable rendering (information)
	InputHex string `json:"input_hex"`       // exact bytes
}

type c14StrResult struct {
	Outcome    string // error | V3 | V4 | other | panic
	NonTrivial bool   // decoder got past the prefix check (own evaluation) or something panicked
	Panics     int
	NProofs    int
	Fails      []c14Fail
}

func c14CheckString(s string) c14StrResult {
	res := c14StrResult{}
	res.NonTrivial = len(s) >= 6 && (s[:6] == "cashuA" || s[:6] == "cashuB")
	in := c14Trunc(s, 96)
	var tok cashu.Token
	var err error
	msg, pan := c14Safe(func() { tok, err = cashu.DecodeToken(s) })
	if pan {
		res.Outcome, res.NonTrivial, res.Panics = "panic", true, 1
		key := "C14/totality/DecodeToken-panics/" + c14Class(msg)
		if len(s) < 6 && strings.Contains(msg, "slice bounds out of range") {
			key = c14KeyShortPanic
		}
		res.Fails = append(res.Fails, c14Fail{key, fmt.Sprintf("expected: DecodeToken(%s) returns an error or a token; observed: panic %q", in, msg)})
		return res
	}
	if err != nil {
		res.Outcome = "error"
		return res
	}
	if tok == nil {
		res.Outcome, res.NonTrivial = "other", true
		res.Fails = append(res.Fails, c14Fail{"C14/totality/DecodeToken-returns-nil-without-error",
			fmt.Sprintf("expected: DecodeToken(%s) returns an error or a token; observed: (nil, nil)", in)})
		return res
	}
	res.NonTrivial = true
	emptyV3 := false
	switch t := tok.(type) {
	case *cashu.TokenV3:
		res.Outcome = "V3"
		emptyV3 = t != nil && len(t.Token) == 0
	case *cashu.TokenV4:
		res.Outcome = "V4"
	default:
		res.Outcome = "other"
	}
	accPanic := func(acc, msg string) {
		res.Panics++
		key := "C14/totality/" + acc + "-panics/" + c14Class(msg)
		if acc == "Mint()" && emptyV3 && strings.Contains(msg, "index out of range") {
			key = c14KeyMintEmpty
		}
		res.Fails = append(res.Fails, c14Fail{key, fmt.Sprintf("expected: %s on the token decoded from %s returns; observed: panic %q", acc, in, msg)})
	}
	var ps cashu.Proofs
	var amt uint64
	okP, okA := true, true
	if msg, pan = c14Safe(func() { ps = tok.Proofs() }); pan {
		okP = false
		accPanic("Proofs()", msg)
	}
	if msg, pan = c14Safe(func() { _ = tok.Mint() }); pan {
		accPanic("Mint()", msg)
	}
	if msg, pan = c14Safe(func() { amt = tok.Amount() }); pan {
		okA = false
		accPanic("Amount()", msg)
	}
	if msg, pan = c14Safe(func() { _, _ = tok.Serialize() }); pan {
		accPanic("Serialize()", msg)
	}
	if okP && okA {
		res.NProofs = len(ps)
		if sum := c14Sum(ps); sum != amt {
			res.Fails = append(res.Fails, c14Fail{"C14/decoded/" + res.Outcome + "/amount-differs-from-sum-of-proofs",
				fmt.Sprintf("expected: Amount() == Σ Proofs()[i].Amount = %d (uint64, %d proofs); observed: %d; input %s", sum, len(ps), amt, in)})
		}
	}
	return res
}

// ---------------------------------------------------------------------------------------------
// String families
// ---------------------------------------------------------------------------------------------

type c14Family struct {
	Name string
	N    int
	At   func(i int) string
}

// c14AllStrings: every string over alpha with minLen <= length <= maxLen, shortest first.
func c14AllStrings(name, alpha string, minLen, maxLen int) c14Family {
	k := len(alpha)
	var offs []int // offs[l-minLen] = index of the first string of length l
	total, pow := 0, 1
	for l := 0; l <= maxLen; l++ {
		if l >= minLen {
			offs = append(offs, total)
			total += pow
		}
		pow *= k
	}
	return c14Family{Name: name, N: total, At: func(i int) string {
		l := minLen
		for l < maxLen && i >= offs[l-minLen+1] {
			l++
		}
		i -= offs[l-minLen]
		b := make([]byte, l)
		for p := l - 1; p >= 0; p-- {
			b[p] = alpha[i%k]
			i /= k
		}
		return string(b)
	}}
}

const c14B64 = "ABCDEFGHIJKLMNOPQRSTUVWXYZabcdefghijklmnopqrstuvwxyz0123456789-_"
const c14B64Eq = c14B64 + "="

var c14Prefixes = []string{"cashuA", "cashuB", "cashuC", "CASHUA"}

func c14PrefixFamily(maxSuffix int) c14Family {
	suf := c14AllStrings("", c14B64Eq, 0, maxSuffix)
	return c14Family{Name: fmt.Sprintf("prefix×suffix0..%d", maxSuffix), N: len(c14Prefixes) * suf.N, At: func(i int) string {
		return c14Prefixes[i%len(c14Prefixes)] + suf.At(i/len(c14Prefixes))
	}}
}

func c14ListFamily(name string, l []string) c14Family {
	return c14Family{Name: name, N: len(l), At: func(i int) string { return l[i] }}
}

// c14SubstChars: the substitution values for byte b at the token-string level.
func c14SubstChars(b byte, all bool) []byte {
	if all {
		out := make([]byte, 0, 64)
		for i := 0; i < len(c14B64Eq); i++ {
			if c14B64Eq[i] != b {
				out = append(out, c14B64Eq[i])
			}
		}
		return out
	}
	idx := strings.IndexByte(c14B64, b)
	cand := []byte{c14B64[(idx+1+64)%64], 'A', '_', '=', '-'}
	out := make([]byte, 0, 3)
	for _, c := range cand {
		if c != b && !bytes.Contains(out, []byte{c}) && len(out) < 3 {
			out = append(out, c)
		}
	}
	return out
}

// c14TokenMutations: every prefix and every single-byte substitution of the token strings.
func c14TokenMutations(tokens []string, all bool) (prefixes, substs c14Family) {
	type pos struct{ t, p int }
	var pp []pos
	for t, s := range tokens {
		for p := 0; p <= len(s); p++ {
			pp = append(pp, pos{t, p})
		}
	}
	prefixes = c14Family{Name: "token-prefixes", N: len(pp), At: func(i int) string { return tokens[pp[i].t][:pp[i].p] }}
	var sp []pos
	for t, s := range tokens {
		for p := 0; p < len(s); p++ {
			sp = append(sp, pos{t, p})
		}
	}
	per := 3
	if all {
		per = 64
	}
	substs = c14Family{Name: fmt.Sprintf("token-byte-substitutions(%d per position)", per), N: len(sp) * per, At: func(i int) string {
		q := sp[i/per]
		s := tokens[q.t]
		cs := c14SubstChars(s[q.p], all)
		c := cs[(i%per)%len(cs)]
		return s[:q.p] + string(c) + s[q.p+1:]
	}}
	return
}

func c14DecodePayload(tok string) []byte {
	b, err := base64.URLEncoding.DecodeString(tok[6:])
	if err != nil {
		b, err = base64.RawURLEncoding.DecodeString(tok[6:])
		if err != nil {
			return nil
		}
	}
	return b
}

// c14PayloadMutations: truncations and single-byte substitutions of the decoded payload, re-encoded.
func c14PayloadMutations(tokens []string, all bool) (trunc, substs c14Family) {
	type pos struct{ t, p int }
	payloads := make([][]byte, len(tokens))
	var tp, sp []pos
	for t, s := range tokens {
		payloads[t] = c14DecodePayload(s)
		for p := 0; p < len(payloads[t]); p++ {
			tp = append(tp, pos{t, p})
			sp = append(sp, pos{t, p})
		}
	}
	enc := func(t int, b []byte) string { return tokens[t][:6] + base64.RawURLEncoding.EncodeToString(b) }
	trunc = c14Family{Name: "payload-truncations", N: len(tp), At: func(i int) string { return enc(tp[i].t, payloads[tp[i].t][:tp[i].p]) }}
	per := 6
	if all {
		per = 255
	}
	substs = c14Family{Name: fmt.Sprintf("payload-byte-substitutions(%d per position)", per), N: len(sp) * per, At: func(i int) string {
		q := sp[i/per]
		b := append([]byte(nil), payloads[q.t]...)
		k := i % per
		if all {
			b[q.p] = b[q.p] + byte(k+1) // every other byte value
		} else {
			switch k {
			case 0:
				b[q.p] ^= 0x01
			case 1:
				b[q.p] ^= 0x20
			case 2:
				b[q.p] ^= 0x80
			case 3:
				b[q.p]++
			case 4:
				b[q.p] = 0xff - b[q.p]
			case 5:
				b[q.p] ^= 0x40
			}
		}
		return enc(q.t, b)
	}}
	return
}

// ---------------------------------------------------------------------------------------------
// Seed tokens (encoded by the harness, not by the code under test) and payload families
// ---------------------------------------------------------------------------------------------

var c14DetEnc = func() cbor.EncMode {
	m, err := cbor.CoreDetEncOptions().EncMode()
	if err != nil {
		panic(err)
	}
	return m
}()

func c14CBOR(v any) []byte {
	b, err := c14DetEnc.Marshal(v)
	if err != nil {
		rt.HarnessError("C14: cannot CBOR-encode a harness payload: %v", err)
	}
	return b
}

func c14JSON(v any) []byte {
	var buf bytes.Buffer
	e := json.NewEncoder(&buf)
	e.SetEscapeHTML(false)
	if err := e.Encode(v); err != nil {
		rt.HarnessError("C14: cannot JSON-encode a harness payload: %v", err)
	}
	return bytes.TrimRight(buf.Bytes(), "\n")
}

type c14M = map[string]any

func c14MustHex(s string) []byte {
	b, err := hex.DecodeString(s)
	if err != nil {
		rt.HarnessError("C14: bad hex in harness alphabet: %v", err)
	}
	return b
}

// c14V3JSON / c14V4CBOR encode a proof list per NUT-00 with the harness's own encoders.
func c14V3Entry(mint string, ps cashu.Proofs) c14M {
	l := []any{}
	for _, p := range ps {
		m := c14M{"amount": p.Amount, "id": p.Id, "secret": p.Secret, "C": p.C}
		if p.Witness != "" {
			m["witness"] = p.Witness
		}
		if p.DLEQ != nil {
			d := c14M{"e": p.DLEQ.E, "s": p.DLEQ.S}
			if p.DLEQ.R != "" {
				d["r"] = p.DLEQ.R
			}
			m["dleq"] = d
		}
		l = append(l, m)
	}
	return c14M{"mint": mint, "proofs": l}
}

func c14V4Map(mint, memo string, ps cashu.Proofs) c14M {
	ids, groups := c14Group(ps)
	t := []any{}
	for _, id := range ids {
		pl := []any{}
		for _, p := range groups[id] {
			m := c14M{"a": p.Amount, "s": p.Secret, "c": c14MustHex(p.C)}
			if p.Witness != "" {
				m["w"] = p.Witness
			}
			if p.DLEQ != nil && p.DLEQ.R != "" {
				m["d"] = c14M{"e": c14MustHex(p.DLEQ.E), "s": c14MustHex(p.DLEQ.S), "r": c14MustHex(p.DLEQ.R)}
			}
			pl = append(pl, m)
		}
		t = append(t, c14M{"i": c14MustHex(id), "p": pl})
	}
	out := c14M{"t": t, "m": mint, "u": "sat"}
	if memo != "" {
		out["d"] = memo
	}
	return out
}

// Spec vectors (NUT-00; the same strings /repo's own tests use).
const c14SpecV3 = "cashuAeyJ0b2tlbiI6W3sibWludCI6Imh0dHBzOi8vODMzMy5zcGFjZTozMzM4IiwicHJvb2ZzIjpbeyJhbW91bnQiOjIsImlkIjoiMDA5YTFmMjkzMjUzZTQxZSIsInNlY3JldCI6IjQwNzkxNWJjMjEyYmU2MWE3N2UzZTZkMmFlYjRjNzI3OTgwYmRhNTFjZDA2YTZhZmMyOWUyODYxNzY4YTc4MzciLCJDIjoiMDJiYzkwOTc5OTdkODFhZmIyY2M3MzQ2YjVlNDM0NWE5MzQ2YmQyYTUwNmViNzk1ODU5OGE3MmYwY2Y4NTE2M2VhIn0seyJhbW91bnQiOjgsImlkIjoiMDA5YTFmMjkzMjUzZTQxZSIsInNlY3JldCI6ImZlMTUxMDkzMTRlNjFkNzc1NmIwZjhlZTBmMjNhNjI0YWNhYTNmNGUwNDJmNjE0MzNjNzI4YzcwNTdiOTMxYmUiLCJDIjoiMDI5ZThlNTA1MGI4OTBhN2Q2YzA5NjhkYjE2YmMxZDVkNWZhMDQwZWExZGUyODRmNmVjNjlkNjEyOTlmNjcxMDU5In1dfV0sInVuaXQiOiJzYXQiLCJtZW1vIjoiVGhhbmsgeW91IHZlcnkgbXVjaC4ifQ"
const c14SpecV4 = "cashuBpGF0gaJhaUgArSaMTR9YJmFwgaNhYQFhc3hAOWE2ZGJiODQ3YmQyMzJiYTc2ZGIwZGYxOTcyMTZiMjlkM2I4Y2MxNDU1M2NkMjc4MjdmYzFjYzk0MmZlZGI0ZWFjWCEDhhhUP_trhpXfStS6vN6So0qWvc2X3O4NfM-Y1HISZ5JhZGlUaGFuayB5b3VhbXVodHRwOi8vbG9jYWxob3N0OjMzMzhhdWNzYXQ="

// c14SeedTokens returns 4 valid V3 and 4 valid V4 token strings.
func c14SeedTokens(vs []c14Variant) []string {
	pick := func(idx ...int) cashu.Proofs {
		var ps cashu.Proofs
		for _, i := range idx {
			ps = append(ps, vs[i].Proof)
		}
		return c14CopyProofs(ps)
	}
	// variants that carry witness / complete DLEQ / NUT-10 / unicode secrets / 2^63; found by scanning the table
	rich := []int{}
	for i, v := range vs {
		if v.Levels[3] >= 2 || v.Levels[4]%2 == 1 {
			rich = append(rich, i)
		}
	}
	v3 := func(enc *base64.Encoding, unit any, memo string, entries ...c14M) string {
		m := c14M{"token": entries, "unit": unit}
		if memo != "" {
			m["memo"] = memo
		}
		return "cashuA" + enc.EncodeToString(c14JSON(m))
	}
	v4 := func(enc *base64.Encoding, m c14M) string { return "cashuB" + enc.EncodeToString(c14CBOR(m)) }
	return []string{
		c14SpecV3,
		v3(base64.URLEncoding, "sat", "", c14V3Entry(c14Mints[0], pick(0))),
		v3(base64.URLEncoding, "sat", "mémo \"x\"", c14V3Entry(c14Mints[0], pick(rich[0], rich[1])), c14V3Entry(c14Mints[1], pick(rich[2]))),
		v3(base64.RawURLEncoding, "sat", "", c14V3Entry(c14Mints[1], pick(15, 10, 5, 3))),
		c14SpecV4,
		v4(base64.RawURLEncoding, c14V4Map(c14Mints[0], "", pick(0))),
		v4(base64.URLEncoding, c14V4Map(c14Mints[0], "mémo \"x\"", pick(rich[0], rich[1], rich[2]))),
		v4(base64.RawURLEncoding, c14V4Map(c14Mints[1], "", pick(15, 10, 5, 3))),
	}
}

// c14JSONPayloads: `{}`, `null`, `[]`, empty/odd token lists, wrong-typed fields, … as a product
// token-member × unit-member × memo-member plus hand-written odd documents.
func c14JSONPayloads() [][]byte {
	P := `{"amount":2,"id":"009a1f293253e41e","secret":"407915bc212be61a77e3e6d2aeb4c727980bda51cd06a6afc29e2861768a7837","C":"02bc9097997d81afb2cc7346b5e4345a9346bd2a506eb7958598a72f0cf85163ea"}`
	P8 := strings.Replace(P, `"amount":2`, `"amount":8`, 1)
	withAmount := func(a string) string { return strings.Replace(P, `"amount":2`, `"amount":`+a, 1) }
	with := func(member string) string { return P[:len(P)-1] + "," + member + "}" }
	one := func(p string) string { return `"token":[{"mint":"http://m","proofs":[` + p + `]}]` }
	tokenVals := []string{
		"", `"token":null`, `"token":[]`, `"token":[{}]`, `"token":[null]`, `"token":[1]`, `"token":"x"`, `"token":1`, `"token":{}`, `"token":[[]]`,
		`"token":[{"mint":"http://m"}]`, `"token":[{"mint":1}]`, `"token":[{"mint":null,"proofs":null}]`,
		`"token":[{"proofs":null}]`, `"token":[{"proofs":[]}]`, `"token":[{"proofs":[{}]}]`, `"token":[{"proofs":[null]}]`,
		`"token":[{"proofs":{}}]`, `"token":[{"proofs":"x"}]`, `"token":[{"proofs":[1]}]`,
		one(P), one(P + "," + P8),
		one(withAmount("-1")), one(withAmount("1.5")), one(withAmount(`"1"`)), one(withAmount("18446744073709551615")),
		one(withAmount("18446744073709551616")), one(withAmount("1e3")), one(withAmount("null")), one(withAmount("9223372036854775808") + "," + withAmount("9223372036854775808")),
		one(with(`"dleq":null`)), one(with(`"dleq":{}`)), one(with(`"dleq":{"e":1}`)), one(with(`"dleq":"x"`)), one(with(`"dleq":[]`)), one(with(`"dleq":{"e":"","s":""}`)),
		one(with(`"witness":1`)), one(with(`"witness":null`)), one(with(`"witness":{}`)), one(with(`"witness":"{\"signatures\":[]}"`)),
		one(`{"amount":1,"id":1}`), one(`{"amount":1,"id":null,"secret":null,"C":null}`), one(`{"amount":1,"secret":1}`), one(`{"secret":"\ud800"}`),
		`"token":[{"mint":"a","proofs":[` + P + `]},{"mint":"b","proofs":[` + P8 + `]}]`,
		`"token":[{"mint":"a","proofs":[]},{"mint":"b","proofs":[` + P + `]}]`,
		`"token":[{},{"proofs":[` + P + `,` + P8 + `]}]`,
		`"token":[{"mint":"a","proofs":[` + P + `]},null]`,
		`"token":[],"token":[{"mint":"a","proofs":[` + P + `]}]`,
		`"TOKEN":[{"MINT":"a","PROOFS":[` + P + `]}]`,
	}
	units := []string{"", `"unit":"sat"`, `"unit":1`, `"unit":null`}
	memos := []string{"", `"memo":"m"`, `"memo":1`}
	var out [][]byte
	for _, t := range tokenVals {
		for _, u := range units {
			for _, m := range memos {
				var parts []string
				for _, x := range []string{t, u, m} {
					if x != "" {
						parts = append(parts, x)
					}
				}
				out = append(out, []byte("{"+strings.Join(parts, ",")+"}"))
			}
		}
	}
	for _, s := range []string{
		"", " ", "null", "[]", "1", `"s"`, "true", "{", "}", `{"token"`, `{"token":`, `{"token":[`, `{"token":[{"proofs":[{"amount":`,
		"{} x", " \n\t{} ", "\xef\xbb\xbf{}", "{\"token\":[]}\x00", "\x00", "\xff\xfe", `{"token":[{"mint":"` + "\xff" + `"}]}`,
		`[{"token":[]}]`, `{"token":[{"proofs":[` + strings.Repeat(P+",", 40) + P + `]}]}`,
		strings.Repeat("[", 20000), strings.Repeat("[", 9000) + strings.Repeat("]", 9000),
		`{"token":` + strings.Repeat("[", 12000) + `}`, strings.Repeat(`{"token":`, 3000),
	} {
		out = append(out, []byte(s))
	}
	return out
}

// c14CBORPayloads: maps `{}`, `{t:[]}`, `{t:[{i:h”,p:[]}]}`, `{t:1}`, wrong-typed members, as a product
// t-member × m-member × u-member × d-member, plus hand-written truncated / indefinite-length / odd items.
func c14CBORPayloads() [][]byte {
	id1, id2 := c14MustHex(c14IDs[0]), c14MustHex(c14IDs[1])
	C := c14MustHex("02bc9097997d81afb2cc7346b5e4345a9346bd2a506eb7958598a72f0cf85163ea")
	pv := func(kv ...any) c14M {
		m := c14M{"a": uint64(2), "s": "407915bc212be61a", "c": C}
		for i := 0; i+1 < len(kv); i += 2 {
			m[kv[i].(string)] = kv[i+1]
		}
		return m
	}
	one := func(p any) any { return []any{c14M{"i": id1, "p": []any{p}}} }
	type absent struct{}
	tVals := []any{
		absent{}, nil, []any{}, []any{c14M{}}, []any{nil}, []any{1}, 1, "x", c14M{}, []any{[]any{}},
		[]any{c14M{"i": []byte{}, "p": []any{}}}, []any{c14M{"i": id1, "p": nil}}, []any{c14M{"i": "text", "p": []any{}}}, []any{c14M{"i": 1, "p": []any{}}},
		[]any{c14M{"i": nil}}, []any{c14M{"p": []any{c14M{}}}}, []any{c14M{"p": []any{nil}}}, []any{c14M{"p": []any{1}}}, []any{c14M{"p": c14M{}}}, []any{c14M{"p": "x"}},
		one(pv()), []any{c14M{"i": id1, "p": []any{pv(), pv("a", uint64(8))}}},
		one(pv("a", -1)), one(pv("a", 1.5)), one(pv("a", "1")), one(pv("a", ^uint64(0))), one(pv("a", nil)), one(pv("a", cbor.Tag{Number: 2, Content: []byte{1, 0, 0, 0, 0, 0, 0, 0, 0}})),
		[]any{c14M{"i": id1, "p": []any{pv("a", uint64(1)<<63), pv("a", uint64(1)<<63)}}},
		one(pv("s", 1)), one(pv("s", []byte{0})), one(pv("s", nil)),
		one(pv("c", "text")), one(pv("c", nil)), one(pv("c", 1)), one(pv("c", []any{})), one(pv("c", []byte{})),
		one(pv("w", 1)), one(pv("w", nil)), one(pv("w", `{"signatures":[]}`)), one(pv("w", []byte("w"))),
		one(pv("d", nil)), one(pv("d", c14M{})), one(pv("d", c14M{"e": []byte{}, "s": []byte{}, "r": []byte{}})), one(pv("d", c14M{"e": "x"})),
		one(pv("d", c14M{"e": nil, "s": nil, "r": nil})), one(pv("d", 1)), one(pv("d", []any{})), one(pv("d", c14M{"e": []byte{1}, "s": []byte{2}})),
		// DLEQ byte strings of every length class around 32 (shorter, exactly, longer), each member in turn
		one(pv("d", c14M{"e": bytes.Repeat([]byte{7}, 31), "s": bytes.Repeat([]byte{7}, 32), "r": bytes.Repeat([]byte{7}, 32)})),
		one(pv("d", c14M{"e": bytes.Repeat([]byte{7}, 33), "s": bytes.Repeat([]byte{7}, 32), "r": bytes.Repeat([]byte{7}, 32)})),
		one(pv("d", c14M{"e": bytes.Repeat([]byte{7}, 32), "s": bytes.Repeat([]byte{7}, 33), "r": bytes.Repeat([]byte{7}, 32)})),
		one(pv("d", c14M{"e": bytes.Repeat([]byte{7}, 32), "s": bytes.Repeat([]byte{7}, 32), "r": bytes.Repeat([]byte{7}, 33)})),
		one(pv("d", c14M{"e": bytes.Repeat([]byte{7}, 40), "s": bytes.Repeat([]byte{7}, 64), "r": bytes.Repeat([]byte{7}, 65)})),
		one(pv("d", c14M{"e": bytes.Repeat([]byte{7}, 1000), "s": []byte{}, "r": bytes.Repeat([]byte{0}, 32)})),
		[]any{c14M{"i": id1, "p": []any{pv()}}, c14M{"i": id2, "p": []any{pv("a", uint64(8))}}},
		[]any{c14M{"i": id1, "p": []any{pv()}}, c14M{"i": id1, "p": []any{pv("a", uint64(8))}}},
		[]any{c14M{"i": id1, "p": []any{}}, c14M{"i": id2, "p": []any{pv()}}},
		[]any{c14M{"i": id1, "p": []any{pv()}}, nil},
	}
	mVals := []any{absent{}, "http://m", 1, nil}
	uVals := []any{absent{}, "sat", 1}
	dVals := []any{absent{}, 1}
	var out [][]byte
	for _, t := range tVals {
		for _, m := range mVals {
			for _, u := range uVals {
				for _, d := range dVals {
					doc := c14M{}
					for k, v := range map[string]any{"t": t, "m": m, "u": u, "d": d} {
						if _, skip := v.(absent); !skip {
							doc[k] = v
						}
					}
					out = append(out, c14CBOR(doc))
				}
			}
		}
	}
	// other top-level items
	for _, v := range []any{nil, []any{}, []any{1, 2, 3}, 1, "s", true, 1.5, map[int]any{1: 2}, c14M{"T": []any{}, "M": "m"},
		cbor.Tag{Number: 55799, Content: c14M{"t": []any{}}}, []any{c14M{"t": []any{}}}} {
		out = append(out, c14CBOR(v))
	}
	rep := func(b byte, n int, tail ...byte) []byte { return append(bytes.Repeat([]byte{b}, n), tail...) }
	hand := [][]byte{
		{},                       // empty
		{0xa1},                   // map(1), nothing follows
		{0xa1, 0x61, 0x74},       // {"t": <missing>
		{0xa1, 0x61, 0x74, 0x81}, // {"t": [ <missing>
		{0xa1, 0x61, 0x74, 0x81, 0xa2, 0x61, 0x69, 0x48, 0x00}, // byte string of 8, one byte present
		{0xa1, 0x61, 0x74, 0x9f},                               // indefinite array, no break
		{0xbf, 0xff},                                           // {_ }
		{0xbf},                                                 // {_  unterminated
		{0xbf, 0x61, 0x74, 0x9f, 0xff, 0xff},                   // {_ "t": [_ ]}
		{0xbf, 0x61, 0x74, 0x9f, 0xbf, 0x61, 0x69, 0x5f, 0x41, 0x00, 0xff, 0x61, 0x70, 0x9f, 0xff, 0xff, 0xff, 0xff},                                                                                           // {_ t:[_ {_ i:(_ h'00'), p:[_ ]}]}
		{0xbf, 0x61, 0x74, 0x9f, 0xbf, 0x61, 0x69, 0x5f, 0x41, 0x00, 0xff, 0x61, 0x70, 0x9f, 0xbf, 0x61, 0x61, 0x01, 0x61, 0x73, 0x7f, 0x61, 0x78, 0xff, 0x61, 0x63, 0x5f, 0xff, 0xff, 0xff, 0xff, 0xff, 0xff}, // all indefinite, one proof
		{0xa1, 0x61, 0x6d, 0x7f, 0x61, 0x61, 0x61, 0x62, 0xff},     // {"m": (_ "a","b")}
		{0xa1, 0x61, 0x6d, 0x7f, 0x41, 0x61, 0xff},                 // indefinite text with a byte-string chunk
		{0xa1, 0x7f, 0x61, 0x74, 0xff, 0x80},                       // indefinite-length key "t"
		{0x5f, 0x5f, 0xff, 0xff},                                   // nested indefinite byte strings
		{0xff},                                                     // lone break
		{0x1c}, {0x1f}, {0x3f}, {0xfc}, {0xf8, 0x00}, {0xf8, 0x1f}, // reserved additional information / simple values
		{0xf4}, {0xf5}, {0xf6}, {0xf7}, {0xf8, 0xff}, {0xf9, 0x7e, 0x00}, {0xfb, 0x7f, 0xf0, 0, 0, 0, 0, 0, 0},
		{0xa1, 0x61, 0x74, 0x9b, 0xff, 0xff, 0xff, 0xff, 0xff, 0xff, 0xff, 0xff}, // {"t": array(2^64-1)}
		{0xa1, 0x61, 0x74, 0x9a, 0x80, 0x00, 0x00, 0x00},                         // {"t": array(2^31)}
		{0xa1, 0x61, 0x6d, 0x7b, 0xff, 0xff, 0xff, 0xff, 0xff, 0xff, 0xff, 0xff}, // {"m": text(2^64-1)}
		{0xa1, 0x61, 0x6d, 0x7a, 0x7f, 0xff, 0xff, 0xff, 0x61},                   // {"m": text(2^31-1) "a"
		{0x5b, 0xff, 0xff, 0xff, 0xff, 0xff, 0xff, 0xff, 0xff},                   // bytes(2^64-1)
		{0xbb, 0xff, 0xff, 0xff, 0xff, 0xff, 0xff, 0xff, 0xff},                   // map(2^64-1)
		{0xbb, 0x00, 0x00, 0x00, 0x01, 0x00, 0x00, 0x00, 0x00},                   // map(2^32)
		rep(0x81, 40, 0x00), rep(0x81, 31, 0x00), rep(0xc0, 40, 0x00), rep(0x9f, 40), rep(0xbf, 40), rep(0xa1, 40, 0x00),
		append([]byte{0xa1, 0x61, 0x74}, rep(0x81, 40, 0xa0)...), // {"t": [[[…{}…]]]}
		{0xa1, 0x61, 0x6d, 0x62, 0xff, 0xfe},                     // invalid UTF-8 text
		{0xa2, 0x61, 0x74, 0x80, 0x61, 0x74, 0x01},               // duplicate key t
		{0xa0, 0x00}, {0xa0, 0xa0}, // trailing bytes
		{0xa1, 0x01, 0x02}, {0xa1, 0x80, 0x80}, {0xa1, 0xa0, 0xa0}, {0xa1, 0xf6, 0xf6}, {0xa1, 0x41, 0x74, 0x80}, // odd key types
		{0xa1, 0x61, 0x74, 0x81, 0xa2, 0x61, 0x69, 0x40, 0x61, 0x70, 0x81, 0xa1, 0x61, 0x61, 0x3b, 0xff, 0xff, 0xff, 0xff, 0xff, 0xff, 0xff, 0xff}, // a = -2^64
		{0xa1, 0x61, 0x74, 0x81, 0xa2, 0x61, 0x69, 0x40, 0x61, 0x70, 0x81, 0xa1, 0x61, 0x61, 0xc3, 0x49, 1, 0, 0, 0, 0, 0, 0, 0, 0},                // a = negative bignum
		{0xa1, 0x61, 0x74, 0x81, 0xa2, 0x61, 0x69, 0x40, 0x61, 0x70, 0x81, 0xa1, 0x61, 0x61, 0x18},                                                 // uint8 head without its byte
	}
	return append(out, hand...)
}

// c14PayloadStrings wraps every payload with both real prefixes and three base64 flavours.
func c14PayloadStrings(payloads [][]byte) []string {
	var out []string
	for _, p := range payloads {
		for _, pre := range []string{"cashuA", "cashuB"} {
			out = append(out, pre+base64.URLEncoding.EncodeToString(p))
			if r := base64.RawURLEncoding.EncodeToString(p); len(p)%3 != 0 {
				out = append(out, pre+r)
			}
			if s := base64.StdEncoding.EncodeToString(p); strings.ContainsAny(s, "+/") {
				out = append(out, pre+s)
			}
		}
	}
	return out
}

// ---------------------------------------------------------------------------------------------
// Run
// ---------------------------------------------------------------------------------------------

type c14FamStat struct {
	Cases      int64 `json:"cases"`
	Planned    int64 `json:"planned"`
	Errors     int64 `json:"decode_error"`
	V3         int64 `json:"decoded_v3"`
	V4         int64 `json:"decoded_v4"`
	Other      int64 `json:"decoded_other"`
	PanicCases int64 `json:"cases_with_panic"`
	NonTrivial int64 `json:"non_trivial"`
	WithProofs int64 `json:"decoded_with_proofs"`
	Complete   bool  `json:"complete"`
}

type c14Stats struct {
	mu        sync.Mutex
	rt        map[string]map[string]int64 // config → outcome → count
	mutated   int64
	fams      map[string]*c14FamStat
	famOrder  []string
	panicKeys map[string]int64
	failKeys  map[string]int64
	panics    int64
	rtSamples int
	first     map[string]c14First
}

// violate records a failure; the example kept per key is the one with the smallest enumeration order, so the
// replay file is the same on every run regardless of how the workers interleave. flush hands them to rt.Ctx.
func (st *c14Stats) violate(order uint64, f c14Fail, replay any) {
	st.mu.Lock()
	st.failKeys[f.Key]++
	if strings.Contains(f.Key, "-panics/") {
		st.panicKeys[f.Key]++
		st.panics++
	}
	if cur, ok := st.first[f.Key]; !ok || order < cur.order {
		st.first[f.Key] = c14First{order: order, fail: f, replay: replay}
	}
	st.mu.Unlock()
}

func (st *c14Stats) flush(c *rt.Ctx) {
	for k, n := range st.failKeys {
		fst := st.first[k]
		for i := int64(0); i < n; i++ {
			c.Violate(k, fst.fail.What, fst.replay)
		}
	}
}

type c14First struct {
	order  uint64
	fail   c14Fail
	replay any
}

type c14ListSpec struct {
	Label    string
	Variants []int
	Proofs   cashu.Proofs
}

func c14ListByIndex(vs []c14Variant, idx int) c14ListSpec {
	l, pow, off := 0, 1, 0
	for idx >= off+pow {
		off += pow
		pow *= 16
		l++
	}
	idx -= off
	v := make([]int, l)
	ps := make(cashu.Proofs, l)
	for p := l - 1; p >= 0; p-- {
		v[p] = idx % 16
		idx /= 16
	}
	for i, k := range v {
		ps[i] = vs[k].Proof
	}
	return c14ListSpec{Label: fmt.Sprint(v), Variants: v, Proofs: c14CopyProofs(ps)}
}

// c14Structured: list of length n cycling through the variants (stride 5), keyset ids overridden so that
// exactly 1+(n mod 4) ids occur; the twin completes every (e,s) DLEQ with an r so that V4+DLEQ accepts it.
func c14Structured(vs []c14Variant, n int, completeDLEQ bool) c14ListSpec {
	nIDs := 1 + n%4
	ps := make(cashu.Proofs, n)
	v := make([]int, n)
	for k := 0; k < n; k++ {
		v[k] = (k*5 + n) % 16
		ps[k] = vs[v[k]].Proof
		ps[k].Id = c14IDs[k%nIDs]
		if completeDLEQ && vs[v[k]].Levels[3] == 1 {
			ps[k].DLEQ = c14DLEQ(2)
		}
	}
	return c14ListSpec{Label: fmt.Sprintf("structured(n=%d,ids=%d,completeDLEQ=%v)", n, nIDs, completeDLEQ), Variants: v, Proofs: c14CopyProofs(ps)}
}

func runC14(c *rt.Ctx) {
	vs := c14Variants()
	if !c14PairwiseOK(vs) {
		rt.HarnessError("C14: the 16-variant table is not a pairwise covering array")
	}
	st := &c14Stats{rt: map[string]map[string]int64{}, fams: map[string]*c14FamStat{}, panicKeys: map[string]int64{}, failKeys: map[string]int64{}, first: map[string]c14First{}}

	// ---------------- (a) round trip ----------------
	maxLen := 3
	if !c.Quick() {
		maxLen = 4
	}
	nLists := 0
	for l, pow := 0, 1; l <= maxLen; l, pow = l+1, pow*16 {
		nLists += pow
	}
	type cfg struct {
		format string
		dleq   bool
	}
	cfgs := []cfg{{"V3", false}, {"V3", true}, {"V4", false}, {"V4", true}}
	var rtEvals, rtCompleted int64
	rtDone := true

	runList := func(order uint64, ls c14ListSpec, splits [][]int, local map[string]map[string]int64, evals *int64, mutated *int64) {
		sub := uint64(0)
		if splits != nil {
			sub = 16
		}
		one := func(cs c14RTCase) {
			*evals++
			sub++
			res := c14RoundTrip(cs)
			k := fmt.Sprintf("%s/includeDLEQ=%v", cs.Format, cs.IncludeDLEQ)
			if local[k] == nil {
				local[k] = map[string]int64{}
			}
			local[k][res.Outcome]++
			if res.CallerMutated {
				*mutated++
			}
			if len(cs.Proofs) > 0 {
				c.Distinct(fmt.Sprintf("rt|%s|%v|%s|%s|%v", cs.Format, cs.IncludeDLEQ, cs.Mint, ls.Label, cs.Split))
			}
			for _, f := range res.Fails {
				st.violate(order<<8|sub, f, cs)
			}
			if len(cs.Proofs) == 2 && cs.Mint == c14Mints[0] && (res.Outcome != "ok" || cs.Format == "V4") {
				st.mu.Lock()
				take := st.rtSamples < 3 && (st.rtSamples == 0) == (res.Outcome == "ok")
				if take {
					st.rtSamples++
				}
				st.mu.Unlock()
				if take {
					c.Sample(map[string]any{"family": "roundtrip", "format": cs.Format, "include_dleq": cs.IncludeDLEQ, "mint": cs.Mint,
						"variants": cs.Variants, "proofs": cs.Proofs, "token": c14Trunc(res.Token, 120), "outcome": res.Outcome, "refusal": res.RefusalErr})
				}
			}
		}
		for _, mint := range c14Mints {
			if splits == nil {
				for _, cf := range cfgs {
					one(c14RTCase{Kind: "roundtrip", Format: cf.format, IncludeDLEQ: cf.dleq, Mint: mint, Proofs: c14CopyProofs(ls.Proofs), Variants: ls.Variants})
				}
			} else {
				for _, sp := range splits {
					one(c14RTCase{Kind: "roundtrip", Format: "V3-multi", IncludeDLEQ: true, Mint: mint, Proofs: c14CopyProofs(ls.Proofs), Variants: ls.Variants, Split: sp})
				}
			}
		}
	}
	merge := func(local map[string]map[string]int64, evals, mutated int64) {
		st.mu.Lock()
		for k, m := range local {
			if st.rt[k] == nil {
				st.rt[k] = map[string]int64{}
			}
			for o, n := range m {
				st.rt[k][o] += n
				if o == "ok" {
					rtCompleted += n
				}
			}
		}
		rtEvals += evals
		st.mutated += mutated
		st.mu.Unlock()
		c.Count("evaluations", evals)
	}

	const chunk = 64
	splits2 := [][]int{{1, 1}, {0, 2}, {2, 0}}
	splits3 := [][]int{{1, 2}, {2, 1}, {1, 1, 1}}
	rt.ParallelFor((nLists+chunk-1)/chunk, func(ci int) {
		if c.Expired() {
			st.mu.Lock()
			rtDone = false
			st.mu.Unlock()
			return
		}
		local := map[string]map[string]int64{}
		var evals, mutated int64
		for idx := ci * chunk; idx < (ci+1)*chunk && idx < nLists; idx++ {
			ls := c14ListByIndex(vs, idx)
			runList(uint64(idx), ls, nil, local, &evals, &mutated)
			switch len(ls.Variants) {
			case 2:
				runList(uint64(idx), ls, splits2, local, &evals, &mutated)
			case 3:
				runList(uint64(idx), ls, splits3, local, &evals, &mutated)
			}
		}
		merge(local, evals, mutated)
	})
	// structured long lists 4..40 and their DLEQ-completed twins
	rt.ParallelFor(37, func(i int) {
		n := 4 + i
		local := map[string]map[string]int64{}
		var evals, mutated int64
		for _, twin := range []bool{false, true} {
			ls := c14Structured(vs, n, twin)
			order := uint64(nLists + 2*n)
			if twin {
				order++
			}
			runList(order, ls, nil, local, &evals, &mutated)
			if n%9 == 0 { // a few long multi-entry V3 tokens
				runList(order, ls, [][]int{{n / 2, n - n/2}, {1, n - 2, 1}, {n / 3, 0, n - n/3}}, local, &evals, &mutated)
			}
		}
		merge(local, evals, mutated)
	})
	// anti-vacuity: the plainest proof must be accepted by every constructor
	{
		local := map[string]map[string]int64{}
		var evals int64
		for _, cf := range cfgs {
			cs := c14RTCase{Kind: "roundtrip", Format: cf.format, IncludeDLEQ: cf.dleq, Mint: c14Mints[0], Proofs: cashu.Proofs{vs[0].Proof}, Variants: []int{0}, MustBuild: true}
			evals++
			res := c14RoundTrip(cs)
			for _, f := range res.Fails {
				st.violate(uint64(nLists+100)<<8, f, cs)
			}
		}
		merge(local, evals, 0)
	}
	if st.mutated > 0 {
		c.Info(fmt.Sprintf("C14: a token constructor changed the caller's proof slice in %d cases (NewTokenV3 with includeDLEQ=false clears DLEQ in place); information only, the statement does not forbid it", st.mutated))
	}
	for k, m := range st.rt {
		if m["refused-other"] > 0 {
			c.Info(fmt.Sprintf("C14: %s refused %d non-empty lists for a reason other than a DLEQ without r (not a round-trip failure; see coverage.roundtrip_outcomes)", k, m["refused-other"]))
		}
	}

	// ---------------- (b) totality ----------------
	seeds := c14SeedTokens(vs)
	seedsOK := 0
	for _, s := range seeds {
		r := c14CheckString(s)
		if (r.Outcome == "V3" || r.Outcome == "V4") && r.NProofs > 0 && len(r.Fails) == 0 {
			seedsOK++
		}
	}
	if seedsOK != len(seeds) {
		c.Info(fmt.Sprintf("C14: only %d of %d harness-encoded seed tokens decode to a token with proofs (mutation families are weaker)", seedsOK, len(seeds)))
	}
	all := !c.Quick()
	var fams []c14Family
	fams = append(fams, c14AllStrings("len0..5 over {c,a,s,h,u,A,B,e,=,_}", "cashuABe=_", 0, 5))
	// whitespace and lengths just above the 6-byte prefix: strings whose raw length passes a length check while their
	// trimmed / significant part does not
	fams = append(fams, c14AllStrings("len0..8 over {space,newline,tab,c,A}", " \n\tcA", 0, 8))
	var padded []string
	for _, core := range []string{"", "c", "cashu", "cashuA", "cashuB", "cashuAe30=", "cashuBo2F0"} {
		for _, l := range []string{"", " ", "\n", "\t", "   ", "\r\n", "\x00", "\u00a0", "\u2028"} {
			for _, r := range []string{"", " ", "\n", "\t", "      ", "\r\n", "\x00", "\u00a0"} {
				padded = append(padded, l+core+r)
			}
		}
	}
	fams = append(fams, c14ListFamily("padded cores (7 cores × 9 left × 8 right whitespace / control paddings)", padded))
	if all {
		fams = append(fams, c14AllStrings("len6..8 over {c,a,A,=}", "caA=", 6, 8))
		fams = append(fams, c14PrefixFamily(3))
	} else {
		fams = append(fams, c14PrefixFamily(2))
	}
	tp, ts := c14TokenMutations(seeds, all)
	pt, psub := c14PayloadMutations(seeds, all)
	jsonP, cborP := c14JSONPayloads(), c14CBORPayloads()
	fams = append(fams,
		c14ListFamily(fmt.Sprintf("base64(JSON payloads) (%d payloads × 2 prefixes × base64 flavours)", len(jsonP)), c14PayloadStrings(jsonP)),
		c14ListFamily(fmt.Sprintf("base64(CBOR payloads) (%d payloads × 2 prefixes × base64 flavours)", len(cborP)), c14PayloadStrings(cborP)),
		tp, ts, pt, psub)

	for fi, fam := range fams {
		fi, fam := fi, fam
		fs := &c14FamStat{Planned: int64(fam.N), Complete: true}
		st.fams[fam.Name] = fs
		st.famOrder = append(st.famOrder, fam.Name)
		const sc = 2048
		rt.ParallelFor((fam.N+sc-1)/sc, func(ci int) {
			if c.Expired() {
				st.mu.Lock()
				fs.Complete = false
				st.mu.Unlock()
				return
			}
			var l c14FamStat
			for i := ci * sc; i < (ci+1)*sc && i < fam.N; i++ {
				s := fam.At(i)
				r := c14CheckString(s)
				l.Cases++
				switch r.Outcome {
				case "error":
					l.Errors++
				case "V3":
					l.V3++
				case "V4":
					l.V4++
				case "other":
					l.Other++
				}
				if r.Panics > 0 {
					l.PanicCases++
				}
				if r.NProofs > 0 {
					l.WithProofs++
				}
				if r.NonTrivial {
					l.NonTrivial++
					c.Distinct("s|" + s)
				}
				for _, f := range r.Fails {
					st.violate(uint64(fi+1)<<40|uint64(i), f, c14StrCase{Kind: "totality", Family: fam.Name, Input: c14Trunc(s, 200), InputHex: hex.EncodeToString([]byte(s))})
				}
				if i == fam.N/2 {
					c.Sample(map[string]any{"family": fam.Name, "input": c14Trunc(s, 120), "outcome": r.Outcome, "panics": r.Panics, "proofs": r.NProofs})
				}
			}
			st.mu.Lock()
			fs.Cases += l.Cases
			fs.Errors += l.Errors
			fs.V3 += l.V3
			fs.V4 += l.V4
			fs.Other += l.Other
			fs.PanicCases += l.PanicCases
			fs.NonTrivial += l.NonTrivial
			fs.WithProofs += l.WithProofs
			st.mu.Unlock()
			c.Count("evaluations", l.Cases)
		})
	}

	st.flush(c)

	// ---------------- evidence ----------------
	famCov := []any{}
	var totCases int64
	for _, n := range st.famOrder {
		fs := st.fams[n]
		totCases += fs.Cases
		famCov = append(famCov, map[string]any{"family": n, "stats": fs})
	}
	var vtab []any
	for i, v := range vs {
		vtab = append(vtab, map[string]any{"variant": i, "levels(id,secret,amount,dleq,witness)": v.Levels, "proof": c14ProofStr(v.Proof)})
	}
	var refusedR, refusedEmpty, refusedOther, failed int64
	for _, m := range st.rt {
		refusedR += m["refused-dleq-without-r"]
		refusedEmpty += m["refused-empty"]
		refusedOther += m["refused-other"]
		failed += m["failed"]
	}
	c.Cov["rule"] = "Nested loops over explicit finite sets, nothing random. Round trip: every list of length 0.." + fmt.Sprint(maxLen) +
		" over the 16 proof variants (orthogonal array over 4 keyset ids × 4 secrets × 4 amounts × 4 DLEQ shapes × 4 witnesses, all pairs covered), " +
		"two structured lists (as is / every DLEQ completed with r) per length 4..40 with 1+(n mod 4) keyset ids, each × {V3,V4} × includeDLEQ{false,true} × 2 mint URLs, " +
		"plus hand-built multi-entry V3 tokens (every split of the length-2 and length-3 lists); each case is build → Serialize → DecodeToken → compare by the harness's own evaluator; " +
		"a round-trip case is non-trivial when the list has at least one proof and distinct by (format, includeDLEQ, mint, list, split). " +
		"Totality: every member of the listed string families goes through DecodeToken and, if a token comes back, Proofs(), Mint(), Amount(), Serialize(), each under recover(), " +
		"and Amount() is compared with the uint64 sum over Proofs(); a totality case is non-trivial when the string is at least 6 bytes long and starts with cashuA or cashuB " +
		"(so decoding went past the prefix check) or when anything panicked; distinct by the exact string (families overlap, e.g. prefixes of tokens and prefix×suffix)."
	c.Cov["alphabets"] = map[string]any{
		"short_strings":          "every string of length 0..5 over the 10 letters {c,a,s,h,u,A,B,e,=,_}",
		"short_strings_thorough": "thorough only: every string of length 6..8 over the 4 letters {c,a,A,=}",
		"prefixes":               c14Prefixes,
		"suffix_alphabet":        "base64url alphabet + '=' (65 letters), suffix length 0..2 (quick) / 0..3 (thorough)",
		"token_mutations":        "every prefix of 4 valid V3 and 4 valid V4 tokens (2 NUT-00 vectors, 6 encoded by the harness's own JSON/CBOR encoders); every position × 3 other characters (quick) / all 64 other characters of the 65-letter alphabet (thorough)",
		"payload_mutations":      "decoded payload of the same 8 tokens: every truncation; every byte position × 6 substitutions (quick) / all 255 other byte values (thorough); re-encoded base64url",
		"roundtrip_variants":     vtab,
		"mint_urls":              c14Mints,
		"keyset_ids":             c14IDs,
		"amounts":                c14Amounts,
	}
	c.Cov["roundtrip_evaluations"] = rtEvals
	c.Cov["roundtrip_lists_0..maxlen"] = nLists
	c.Cov["roundtrip_max_full_length"] = maxLen
	c.Cov["roundtrip_completed_ok"] = rtCompleted
	c.Cov["roundtrip_failed"] = failed
	c.Cov["roundtrip_outcomes"] = st.rt
	c.Cov["refusals_dleq_without_r"] = refusedR
	c.Cov["refusals_empty_list"] = refusedEmpty
	c.Cov["refusals_other"] = refusedOther
	c.Cov["caller_slice_changed_by_constructor"] = st.mutated
	c.Cov["totality_evaluations"] = totCases
	c.Cov["totality_families"] = famCov
	c.Cov["seed_tokens_decoding_with_proofs"] = fmt.Sprintf("%d/%d", seedsOK, len(seeds))
	c.Cov["panics_seen"] = st.panics
	c.Cov["panic_keys"] = st.panicKeys
	c.Cov["failure_keys"] = st.failKeys
	if !rtDone {
		c.Cov["roundtrip_complete"] = false
	}
	c.Assume("The 16 proof variants, 2 mint URLs and the listed string families stand for the property's unbounded domain; exhaustive:true refers to these finite sets only.")
	c.Assume("V4 carries keyset id, C and DLEQ as bytes, so the round-trip alphabet uses lower-case even-length hex for them; non-hex values cannot be represented in V4 and are not demanded.")
	c.Assume("Refusals by a constructor (error returned) are counted, not failed — except for the plainest one-proof list, which every constructor must accept.")
}

// ---------------------------------------------------------------------------------------------
// Replay
// ---------------------------------------------------------------------------------------------

func replayC14(path string) int {
	b, err := os.ReadFile(path)
	if err != nil {
		fmt.Println("HARNESS-ERROR: cannot read replay file:", err)
		return 2
	}
	var v struct {
		Property string          `json:"property"`
		Key      string          `json:"key"`
		What     string          `json:"what"`
		Replay   json.RawMessage `json:"replay"`
	}
	if err := json.Unmarshal(b, &v); err != nil {
		fmt.Println("HARNESS-ERROR: replay file is not JSON:", err)
		return 2
	}
	var kind struct {
		Kind string `json:"kind"`
	}
	if err := json.Unmarshal(v.Replay, &kind); err != nil {
		fmt.Println("HARNESS-ERROR: replay file has no replay object:", err)
		return 2
	}
	var fails []c14Fail
	switch kind.Kind {
	case "roundtrip":
		var cs c14RTCase
		if err := json.Unmarshal(v.Replay, &cs); err != nil {
			fmt.Println("HARNESS-ERROR: bad round-trip replay:", err)
			return 2
		}
		n := 0
		for _, k := range cs.Split {
			n += k
		}
		if cs.Format == "V3-multi" && n != len(cs.Proofs) {
			fmt.Println("HARNESS-ERROR: split does not match the proof list")
			return 2
		}
		res := c14RoundTrip(cs)
		fmt.Printf("REPLAY C14 round trip: format=%s includeDLEQ=%v mint=%q proofs=%d split=%v → outcome=%s refusal=%q token=%s\n",
			cs.Format, cs.IncludeDLEQ, cs.Mint, len(cs.Proofs), cs.Split, res.Outcome, res.RefusalErr, c14Trunc(res.Token, 100))
		fails = res.Fails
	case "totality":
		var sc c14StrCase
		if err := json.Unmarshal(v.Replay, &sc); err != nil {
			fmt.Println("HARNESS-ERROR: bad totality replay:", err)
			return 2
		}
		raw, err := hex.DecodeString(sc.InputHex)
		if err != nil {
			fmt.Println("HARNESS-ERROR: bad input_hex:", err)
			return 2
		}
		res := c14CheckString(string(raw))
		fmt.Printf("REPLAY C14 totality: input=%s (%d bytes) → outcome=%s panics=%d proofs=%d\n", c14Trunc(string(raw), 100), len(raw), res.Outcome, res.Panics, res.NProofs)
		fails = res.Fails
	default:
		fmt.Printf("HARNESS-ERROR: unknown replay kind %q\n", kind.Kind)
		return 2
	}
	same := false
	for _, f := range fails {
		fmt.Printf("  VIOLATION key=%s\n    %s\n", f.Key, f.What)
		if f.Key == v.Key {
			same = true
		}
	}
	if len(fails) == 0 {
		fmt.Printf("REPLAY C14: key=%s no longer violates\n", v.Key)
		return 0
	}
	fmt.Printf("REPLAY C14: still violates (recorded key %s reproduced: %v)\n", v.Key, same)
	return 1
}
