package props

import (
	"encoding/hex"
	"encoding/json"
	"fmt"
	"os"
	"path/filepath"
	"sort"
	"strings"
	"time"

	"github.com/decred/dcrd/dcrec/secp256k1/v4"
	"github.com/elnosh/gonuts/crypto"
	"github.com/elnosh/gonuts/wallet"
	"github.com/elnosh/gonuts/wallet/storage"

	"verif/harness/bfs"
	"verif/harness/rt"
	"verif/harness/world"
	"verif/harness/wworld"
)

// C19 — seed backup is complete: no counter is reused (fault-free, E3) and restore recovers all funds (E3 in every
// state; E2: wallet killed between any two storage / HTTP calls).

type detOut struct {
	Wallet  int
	Keyset  string
	Counter uint32
	Secret  string
}

// c19Index maps B_ -> deterministic output of some wallet seed for counters 0..limit of every keyset of every mint.
func c19Index(w *wworld.World, extra uint32) map[string]detOut {
	idx := map[string]detOut{}
	for _, ww := range w.Wallets {
		// keysets of all mints of the world (a restored wallet knows them all)
		for _, n := range []string{"a", "b"} {
			m := w.Mints[n]
			if m == nil {
				continue
			}
			for _, k := range m.M.ListKeysets().Keysets {
				limit := extra
				if ww.DB != nil {
					limit += ww.DB.Inner.GetKeysetCounter(k.Id)
				}
				for c := uint32(0); c < limit; c++ {
					s, rhex := nut13Pair(ww.Mnemonic, k.Id, c)
					if s == "" {
						continue
					}
					b := c19B(s, rhex)
					idx[b] = detOut{Wallet: ww.Idx, Keyset: k.Id, Counter: c, Secret: s}
				}
			}
		}
	}
	return idx
}

var c19BCache = map[string]string{}

func c19B(secret, rhex string) string {
	derivMu.Lock()
	if b, ok := c19BCache[secret]; ok {
		derivMu.Unlock()
		return b
	}
	derivMu.Unlock()
	rb, _ := hex.DecodeString(rhex)
	B_, _, err := crypto.BlindMessage(secret, secp256k1.PrivKeyFromBytes(rb))
	if err != nil {
		return ""
	}
	b := hex.EncodeToString(B_.SerializeCompressed())
	derivMu.Lock()
	c19BCache[secret] = b
	derivMu.Unlock()
	return b
}

// c19Counters: scan the whole transport log: which deterministic outputs were submitted for signing and signed.
func c19Counters(w *wworld.World) {
	idx := c19Index(w, 80)
	signed := map[string]bool{}      // B_ signed
	maxSigned := map[string]uint32{} // wallet|keyset -> max signed counter
	hasSigned := map[string]bool{}
	untrustedAt := func(li int) bool {
		for _, r := range w.UntrustedSwaps {
			if li >= r[0] && li < r[1] {
				return true
			}
		}
		return false
	}
	signedUntrusted := map[string]bool{} // B_ first signed during a swap for a mint the wallet did not trust then
	maxUntrusted := map[string]bool{}    // wallet|keyset -> the highest signed counter was signed that way
	for li, ex := range w.R.Log {
		if ex.Method != "POST" {
			continue
		}
		if ex.Path != "/v1/mint/bolt11" && ex.Path != "/v1/swap" && ex.Path != "/v1/melt/bolt11" {
			continue
		}
		var req struct {
			Outputs []struct {
				B string `json:"B_"`
			} `json:"outputs"`
		}
		if json.Unmarshal([]byte(ex.ReqBody), &req) != nil {
			continue
		}
		for _, o := range req.Outputs {
			d, det := idx[o.B]
			if det && signed[o.B] {
				sfx := ""
				if ww := w.Wallets[d.Wallet]; ww.DB != nil && !c19KeysetStored(ww, d.Keyset) {
					sfx = "/keyset-of-untrusted-mint-not-stored"
				} else if signedUntrusted[o.B] {
					sfx = "/first-signed-for-a-then-untrusted-mint"
				}
				w.Viol("C19", "signed-counter-submitted-again/"+ex.Path+sfx, "%s submitted for signing (%s) the output of keyset %s counter %d which it already had signed", w.Wallets[d.Wallet].Name, ex.Path, d.Keyset, d.Counter)
			}
		}
		if ex.Status != 200 {
			continue
		}
		var resp struct {
			Signatures []json.RawMessage `json:"signatures"`
			Change     []json.RawMessage `json:"change"`
		}
		json.Unmarshal([]byte(ex.RespBody), &resp)
		n := len(resp.Signatures)
		if ex.Path == "/v1/melt/bolt11" {
			n = len(resp.Change)
		}
		for i, o := range req.Outputs {
			if i >= n {
				break
			}
			if !signed[o.B] && untrustedAt(li) {
				signedUntrusted[o.B] = true
			}
			signed[o.B] = true
			if d, det := idx[o.B]; det {
				k := fmt.Sprintf("%d|%s", d.Wallet, d.Keyset)
				if !hasSigned[k] || d.Counter > maxSigned[k] {
					maxSigned[k] = d.Counter
					maxUntrusted[k] = untrustedAt(li)
				}
				hasSigned[k] = true
			}
		}
	}
	for k, mx := range maxSigned {
		var wi int
		var ks string
		fmt.Sscanf(strings.Replace(k, "|", " ", 1), "%d %s", &wi, &ks)
		ww := w.Wallets[wi]
		if ww.DB == nil {
			continue
		}
		if c := ww.DB.Inner.GetKeysetCounter(ks); c <= mx {
			key := "stored-counter-not-past-signed-counter"
			if !c19KeysetStored(ww, ks) {
				// the wallet derived outputs for a keyset it keeps no record of (a mint it does not trust): there is no counter
				// to advance at all
				key += "/keyset-of-untrusted-mint-not-stored"
			} else if maxUntrusted[k] {
				key += "/signed-for-a-then-untrusted-mint"
			}
			w.Viol("C19", key, "%s: stored counter of keyset %s is %d, but counter %d of that keyset has been signed", ww.Name, ks, c, mx)
		}
	}
}

func c19KeysetStored(ww *wworld.WalletW, ks string) bool {
	for _, l := range ww.DB.Inner.GetKeysets() {
		for _, k := range l {
			if k.Id == ks {
				return true
			}
		}
	}
	return false
}

// c19MintSide: value of a seed's deterministic outputs at the mints: sum of amounts of signed outputs whose proof is
// UNSPENT / PENDING (read directly from the mint stores).
func c19MintSide(w *wworld.World, wi int) (unspent, pending uint64, detail string) {
	unspent, pending, detail, _ = c19MintSideMax(w, wi)
	return
}

// c19MintSideMax additionally returns, per keyset, the highest counter of that seed the mint has signed.
func c19MintSideMax(w *wworld.World, wi int) (unspent, pending uint64, detail string, maxSigned map[string]uint32) {
	maxSigned = map[string]uint32{}
	ww := w.Wallets[wi]
	for _, n := range []string{"a", "b"} {
		m := w.Mints[n]
		if m == nil {
			continue
		}
		t, err := w.Truth(n)
		if err != nil {
			continue
		}
		for _, k := range t.Keysets {
			gap := 0
			// the live wallet knows how far it has counted: scan at least that far (a restore that left a hole of more than
			// 300 counters behind must not hide what was created after the hole)
			var known uint32
			if ww.DB != nil {
				known = ww.DB.Inner.GetKeysetCounter(k)
			}
			for c := uint32(0); c < 20000; c++ {
				s, rhex := nut13Pair(ww.Mnemonic, k, c)
				if s == "" {
					break
				}
				b := c19B(s, rhex)
				amt, ok := t.Signed[b]
				if !ok {
					gap++
					if gap > 350 && c >= known {
						break // past the wallet's own counter and 350 unsigned counters in a row: nothing of this seed is further out
					}
					continue
				}
				gap = 0
				maxSigned[k] = c
				y := world.Y(s)
				switch {
				case t.Spent[y]:
				case t.Pending[y]:
					pending += amt
					detail += fmt.Sprintf(" %s/%d:%dP", k[:6], c, amt)
				default:
					unspent += amt
					detail += fmt.Sprintf(" %s/%d:%d", k[:6], c, amt)
				}
			}
		}
	}
	return
}

// c19RestoreCheck restores wallet wi's mnemonic into an empty directory and compares with the mint side.
func c19RestoreCheck(w *wworld.World, wi int, tag string) {
	ww := w.Wallets[wi]
	dir := filepath.Join(w.Dir, fmt.Sprintf("restore-%d-%s-%d", wi, tag, len(w.R.Log)))
	var urls []string
	for _, n := range []string{"a", "b"} {
		if w.Mints[n] != nil {
			urls = append(urls, wworld.URL(n))
		}
	}
	prev := w.R.Cur
	w.R.Cur = ww.Name + "-restore"
	var err error
	func() {
		defer func() {
			if r := recover(); r != nil {
				err = fmt.Errorf("panic: %v", r)
			}
		}()
		// the backup is what the wallet itself shows its user, not the harness' copy of the words
		backup := ww.Mnemonic
		if ww.W != nil {
			if m := ww.W.Mnemonic(); m != "" {
				backup = m
			}
		}
		_, err = wallet.Restore(dir, backup, urls)
	}()
	w.R.Cur = prev
	if err != nil {
		w.Viol("C19", "restore-fails/"+tag, "Restore of %s's mnemonic into an empty directory failed: %v", ww.Name, err)
		return
	}
	db, err := storage.InitBolt(dir)
	if err != nil {
		w.Viol("HARNESS", "open-restored", "%v", err)
		return
	}
	var rs, rp uint64
	for _, p := range db.GetProofs() {
		rs += p.Amount
	}
	for _, p := range db.GetPendingProofs() {
		rp += p.Amount
	}
	mu, mp, detail, maxSigned := c19MintSideMax(w, wi)
	// the restored wallet must continue past everything the mint has already signed for this seed, whether or not
	// those outputs are still worth anything
	for ks, mx := range maxSigned {
		if c := db.GetKeysetCounter(ks); c <= mx {
			w.Viol("C19", "restored-counter-not-past-signed-counter/"+tag, "after restoring %s's mnemonic the stored counter of keyset %s is %d, but the mint has signed counter %d of that seed: the next output would be one that is already signed", ww.Name, ks[:8], c, mx)
		}
	}
	db.Close()
	os.RemoveAll(dir)
	if rs+rp != mu+mp {
		cls := "too-little"
		if rs+rp > mu+mp {
			cls = "too-much"
		}
		w.Viol("C19", "restore-incomplete/"+tag+"/"+cls, "restoring %s's mnemonic yields %d spendable + %d pending, the mint side holds %d unspent + %d pending of that seed's outputs (%s)", ww.Name, rs, rp, mu, mp, strings.TrimSpace(detail))
	}
}

func c19Probe(all bool) func(w *wworld.World) {
	return func(w *wworld.World) {
		c19Counters(w)
		for _, ww := range w.Wallets {
			if !all && ww.Idx > 0 {
				break
			}
			c19RestoreCheck(w, ww.Idx, "fault-free")
		}
	}
}

func c19Menu(w *wworld.World) []string {
	ops := c17Menu(w)
	for _, ww := range w.Wallets {
		i := ww.Idx
		bal := ww.W.GetBalance()
		if bal >= 5 && len(w.Tokens) < 2 {
			for _, o := range w.Wallets {
				if o.Idx != i && o.Default == ww.Default {
					ops = append(ops, fmt.Sprintf("sendpk|%d|%d|2", i, o.Idx))
					break
				}
			}
		}
		if ww.Gen == 0 && (bal > 0 || ww.W.PendingBalance() > 0) && i == 0 {
			ops = append(ops, fmt.Sprintf("restore|%d", i))
		}
	}
	return ops
}

func c19OwnSpecs(quick bool) []*wSpec {
	two := wworld.Config{FeeA: 100, Wallets: []wworld.WalletCfg{{Default: "a"}, {Default: "a"}}}
	if quick {
		return []*wSpec{
			{Prop: "C19", Name: "C19-2w1m-fee100-q", Cfg: two, Init: []string{"mint|0|16"}, Menu: c19Menu, Probe: c19Probe(false), Depth: 2, NoInvariants: true},
			// constructed content (a single 16-sat proof, not derived from the seed): every send needs a swap
			{Prop: "C19", Name: "C19-bigcoin-q", Cfg: two, Init: []string{"give|0|16"}, Menu: c19Menu, Probe: c19Probe(false), Depth: 2, NoInvariants: true},
			// a drained wallet: every output of the seed is spent; restore, then go on using the wallet
			{Prop: "C19", Name: "C19-drained-q", Cfg: wworld.Config{FeeA: 0, Wallets: []wworld.WalletCfg{{Default: "a"}, {Default: "a"}}}, Init: []string{"mint|0|4", "send|0|4|0", "recv|1|0|0"},
				Menu: func(w *wworld.World) []string {
					if w.Wallets[0].Gen == 0 {
						return []string{"restore|0"}
					}
					return []string{"mint|0|8"}
				}, Probe: c19Probe(false), Depth: 2, NoInvariants: true},
			// more than 200 outputs on ONE keyset (three restore batches), restore, go on, restore again (probe)
			{Prop: "C19", Name: "C19-three-batches-q", Cfg: two, Init: c19ThreeBatches(), Menu: func(*wworld.World) []string { return nil }, Probe: c19Probe(false), Depth: 0, NoInvariants: true},
			{Prop: "C19", Name: "C19-crossmint-p2pk-q", Cfg: crossMintCfg, Init: []string{"mint|2|16", "mint|0|8"}, Menu: crossMintP2PKMenu, Probe: c19Probe(false), Depth: 3, NoInvariants: true},
			// ... the same with a mint the wallet already trusts (it has received a plain token from it)
			{Prop: "C19", Name: "C19-crossmint-trusted-q", Cfg: crossMintCfg, Init: []string{"mint|2|16", "mint|0|8", "sendpk|2|0|2", "recv|0|0|0"}, Menu: crossMintP2PKMenu, Probe: c19Probe(false), Depth: 2, NoInvariants: true},
			// a wallet created by restoring from a differently spelled (extra blanks) mnemonic, used, backed up, restored
			{Prop: "C19", Name: "C19-respelled-mnemonic-q", Cfg: two, Init: []string{"mint|0|16", "restorews|0", "mint|0|8"}, Menu: func(w *wworld.World) []string {
				return []string{"send|0|3|0", "mint|0|4", "restore|0"}
			}, Probe: c19Probe(false), Depth: 1, NoInvariants: true},
			{Prop: "C19", Name: "C19-over300-q", Cfg: two, Init: c19Over300(), Menu: func(*wworld.World) []string { return nil }, Probe: c19Probe(false), Depth: 0, NoInvariants: true},
			// every kind of operation that derives outputs, started at a counter beyond 300 (what an operation adds to the
			// stored counter must not depend on how large the counter already is)
			{Prop: "C19", Name: "C19-high-counter-q", Cfg: two, Init: c19HighCounter(), Menu: c19HighCounterMenu(false), Probe: c19Probe(false), Depth: 2, NoInvariants: true},
			// proofs handed out, the mint rotates, the wallet notices, the proofs are reclaimed (outputs on the new keyset)
			{Prop: "C19", Name: "C19-reclaim-after-rotation-q", Cfg: two, Init: []string{"mint|0|8", "send|0|3|0", "rotate|a|0", "mint|0|4", "reclaim|0"}, Menu: c19Menu, Probe: c19Probe(false), Depth: 1, NoInvariants: true},
			{Prop: "C19", Name: "C19-long-q", Cfg: two, Init: c19LongN(11), Menu: func(*wworld.World) []string { return nil }, Probe: c19Probe(false), Depth: 0, NoInvariants: true},
		}
	}
	three := wworld.Config{FeeA: 0, FeeB: 0, TwoMints: true, Wallets: []wworld.WalletCfg{{Default: "a"}, {Default: "a"}, {Default: "b"}}}
	return []*wSpec{
		{Prop: "C19", Name: "C19-2w1m-fee100", Cfg: two, Init: []string{"mint|0|16"}, Menu: c19Menu, Probe: c19Probe(true), Depth: 3, NoInvariants: true},
		{Prop: "C19", Name: "C19-3w2m-fee0", Cfg: three, Init: []string{"mint|0|16"}, Menu: c19Menu, Probe: c19Probe(false), Depth: 3, NoInvariants: true},
		{Prop: "C19", Name: "C19-bigcoin", Cfg: two, Init: []string{"give|0|16,8"}, Menu: c19Menu, Probe: c19Probe(false), Depth: 3, NoInvariants: true},
		{Prop: "C19", Name: "C19-drained", Cfg: wworld.Config{FeeA: 0, Wallets: []wworld.WalletCfg{{Default: "a"}, {Default: "a"}}}, Init: []string{"mint|0|7", "send|0|7|0", "recv|1|0|0"},
			Menu: func(w *wworld.World) []string {
				if w.Wallets[0].Gen == 0 {
					return []string{"restore|0", "mint|0|8"}
				}
				return []string{"mint|0|8", "send|0|3|0"}
			}, Probe: c19Probe(false), Depth: 3, NoInvariants: true},
		{Prop: "C19", Name: "C19-three-batches", Cfg: two, Init: c19ThreeBatches(), Menu: func(w *wworld.World) []string {
			if w.Wallets[0].Gen < 3 {
				return []string{"restore|0", "mint|0|7"}
			}
			return nil
		}, Probe: c19Probe(false), Depth: 4, NoInvariants: true},
		{Prop: "C19", Name: "C19-crossmint-p2pk", Cfg: crossMintCfg, Init: []string{"mint|2|16", "mint|0|8"}, Menu: crossMintP2PKMenu, Probe: c19Probe(true), Depth: 4, NoInvariants: true},
		{Prop: "C19", Name: "C19-respelled-mnemonic", Cfg: two, Init: []string{"mint|0|16", "restorews|0", "mint|0|8"}, Menu: func(w *wworld.World) []string {
			return []string{"send|0|3|0", "mint|0|4", "restore|0", "melt|0|4|P"}
		}, Probe: c19Probe(false), Depth: 3, NoInvariants: true},
		{Prop: "C19", Name: "C19-over300", Cfg: two, Init: c19Over300(), Menu: func(w *wworld.World) []string {
			if w.Wallets[0].Gen < 4 {
				return []string{"restore|0", "mint|0|7", "rotate|a|100"}
			}
			return nil
		}, Probe: c19Probe(false), Depth: 3, NoInvariants: true},
		{Prop: "C19", Name: "C19-high-counter", Cfg: two, Init: c19HighCounter(), Menu: c19HighCounterMenu(true), Probe: c19Probe(false), Depth: 3, NoInvariants: true},
		{Prop: "C19", Name: "C19-reclaim-after-rotation", Cfg: two, Init: []string{"mint|0|8", "send|0|3|0", "rotate|a|0", "mint|0|4", "reclaim|0"}, Menu: c19Menu, Probe: c19Probe(true), Depth: 2, NoInvariants: true},
		{Prop: "C19", Name: "C19-long", Cfg: two, Init: c19Long(), Menu: func(*wworld.World) []string { return nil }, Probe: c19Probe(true), Depth: 0, NoInvariants: true},
	}
}

// c19Over300: more than 300 outputs on ONE keyset, restore, go on, restore again, go on (the probe restores once more).
func c19Over300() []string {
	var ops []string
	for i := 0; i < 21; i++ {
		ops = append(ops, "mint|0|32767") // 315 outputs on one keyset
	}
	// ... and a rotation after all that: the new keyset's outputs must be found from counter 0
	return append(ops, "restore|0", "mint|0|255", "send|0|100|1", "recv|1|0|0", "restore|0", "mint|0|7", "rotate|a|100", "mint|0|7")
}

// c19HighCounter: 420 outputs on one keyset (21 x 20) and no restore yet.
func c19HighCounter() []string {
	var ops []string
	for i := 0; i < 21; i++ {
		ops = append(ops, "mint|0|1048575")
	}
	return ops
}

// c19HighCounterMenu: one operation of every kind that makes the wallet derive outputs (plain / fee-including / locked
// sends, HTLC, melt with change, mint, receive), all on wallet 0.
func c19HighCounterMenu(full bool) func(w *wworld.World) []string {
	return func(w *wworld.World) []string {
		ops := []string{"mint|0|7"}
		if len(w.Tokens) < 2 {
			ops = append(ops, "send|0|3|0", "sendpk|0|1|2", "htlc|0|2")
			if full {
				ops = append(ops, "send|0|5|1", "sendpk|0|1|2|A")
			}
		}
		if len(w.Wallets[0].Melts) < 1 {
			ops = append(ops, "melt|0|4|S")
			if full {
				ops = append(ops, "melt|0|4|P")
			}
		}
		for ti, t := range w.Tokens {
			if t.Kind == "htlc" || t.Kind == "plain" {
				ops = append(ops, fmt.Sprintf("recv|0|%d|0", ti))
			}
		}
		return ops
	}
}

func c19ThreeBatches() []string {
	var ops []string
	for i := 0; i < 14; i++ {
		ops = append(ops, "mint|0|32767") // 15 outputs each: 210 on one keyset
	}
	return append(ops, "restore|0", "mint|0|7")
}

// c19Long: more than 300 outputs on one keyset, a rotation in the middle, restore -> continue -> restore.
func c19Long() []string { return c19LongN(20) }

func c19LongN(n int) []string {
	var ops []string
	for i := 0; i < n; i++ {
		ops = append(ops, "mint|0|32767") // 15 outputs each
		if i == n/2-1 {
			ops = append(ops, "rotate|a|100")
		}
		if i%4 == 3 {
			ops = append(ops, "send|0|1000|0", "recv|1|0|0")
		}
	}
	ops = append(ops, "restore|0", "mint|0|255", "send|0|100|1", "recv|1|0|0", "restore|0", "mint|0|7")
	return ops
}

var c19All = wSpecMap(c19Specs(true), c19Specs(false))

// ---------------- E2: wallet crash at every boundary call ----------------

type c19CrashScn struct {
	Name string
	Prep []string
	Op   string
	Next string // operation after re-loading the crashed directory
}

func c19CrashScns() []c19CrashScn {
	return []c19CrashScn{
		{"mint", []string{"mint|0|16"}, "mint|0|16", "send|0|3|0"},
		{"send-offline", []string{"mint|0|16"}, "send|0|4|0", "mint|0|16"},
		{"send-swap", []string{"mint|0|16"}, "send|0|3|0", "mint|0|16"},
		{"send-swap-fees", []string{"mint|0|16"}, "send|0|5|1", "send|0|1|0"},
		{"receive", []string{"mint|1|16", "send|1|5|0"}, "recv|0|0|0", "mint|0|16"},
		{"receive-own", []string{"mint|0|16", "send|0|5|0"}, "recv|0|0|0", "mint|0|16"},
		{"melt-succeeded", []string{"mint|0|16"}, "melt|0|4|S", "mint|0|16"},
		{"melt-pending", []string{"mint|0|16"}, "melt|0|4|P", "checkmelt|0|0"},
		{"melt-failed", []string{"mint|0|16"}, "melt|0|4|F", "send|0|3|0"},
		{"reclaim", []string{"mint|0|16", "send|0|5|0"}, "reclaim|0", "mint|0|16"},
		{"checkmelt-succeeded", []string{"mint|0|16", "melt|0|4|P", "lnfinal|0|0|S"}, "checkmelt|0|0", "send|0|3|0"},
		{"checkmelt-failed", []string{"mint|0|16", "melt|0|4|P", "lnfinal|0|0|F"}, "checkmelt|0|0", "send|0|3|0"},
		{"sendpk", []string{"mint|0|16"}, "sendpk|0|1|2", "mint|0|16"},
	}
}

type c19Job struct {
	Scn string
	K   int
	// generated scenarios (Scn == "gen"): state reached by Prep, interrupted operation Op, continuation Next
	Prep []string `json:",omitempty"`
	Op   string   `json:",omitempty"`
	Next string   `json:",omitempty"`
}

type c19Res struct {
	Calls []string
	V     []rt.Violation
	Fault string
	Err   string
	Skip  bool
}

func c19CrashExec(j c19Job) (res c19Res) {
	var sc *c19CrashScn
	for _, s := range c19CrashScns() {
		if s.Name == j.Scn {
			s := s
			sc = &s
		}
	}
	if j.Scn == "gen" {
		sc = &c19CrashScn{Name: "gen:" + strings.SplitN(j.Op, "|", 2)[0], Prep: j.Prep, Op: j.Op, Next: j.Next}
	}
	if sc == nil {
		return c19Res{Err: "unknown scenario"}
	}
	dir, _ := os.MkdirTemp(rt.ScratchRoot(), "c19-")
	defer os.RemoveAll(dir)
	w, err := wworld.New(dir, wworld.Config{FeeA: 100, Wallets: []wworld.WalletCfg{{Default: "a"}, {Default: "a"}}})
	if err != nil {
		return c19Res{Err: err.Error()}
	}
	defer w.Close()
	for _, op := range sc.Prep {
		if err := w.Exec(op); err != nil {
			return c19Res{Err: fmt.Sprintf("prep %q: %v", op, err)}
		}
	}
	if len(w.V) > 0 {
		for _, v := range w.V {
			if v.Property == "HARNESS" {
				return c19Res{Err: "prep: " + v.What}
			}
		}
	}
	var wi int
	fmt.Sscanf(strings.Split(sc.Op, "|")[1], "%d", &wi)
	ww := w.Wallets[wi]
	n := 0
	var calls []string
	occ := map[string]int{}
	point := func(name string) {
		idx := n
		n++
		occ[name]++
		label := name
		if occ[name] > 1 {
			label = fmt.Sprintf("%s#%d", name, occ[name])
		}
		calls = append(calls, label)
		if j.K >= 0 && idx == j.K {
			res.Fault = label
			panic(wworld.CrashSentinel{})
		}
	}
	ww.DB.Before = func(name string) { point("db:" + name) }
	w.R.Before = func(ex *wworld.Exchange) {
		if ex.Wallet == ww.Name {
			point("http-before:" + ex.Method + " " + endpointClass(ex.Path))
		}
	}
	w.R.After = func(ex *wworld.Exchange) {
		if ex.Wallet == ww.Name {
			point("http-response-lost:" + ex.Method + " " + endpointClass(ex.Path))
		}
	}
	crashed := false
	func() {
		defer func() {
			if r := recover(); r != nil {
				if _, ok := r.(wworld.CrashSentinel); ok {
					crashed = true
					return
				}
				panic(r)
			}
		}()
		if err := w.Exec(sc.Op); err != nil {
			res.Err = err.Error()
		}
	}()
	ww.DB.Before = nil
	w.R.Before, w.R.After = nil, nil
	if res.Err != "" {
		return res
	}
	if j.K < 0 {
		res.Calls = calls
		return res
	}
	if !crashed {
		res.Skip = true
		return res
	}
	where := fmt.Sprintf("%s/crash-before:%s", sc.Name, res.Fault)
	w.V = nil
	// the wallet process is dead: release the store, restore the backup into an empty directory
	ww.W.Shutdown()
	c19RestoreCheck(w, wi, "after-crash")
	// re-load the crashed directory and continue, then restore again
	if err := w.LoadWallet(ww); err != nil {
		res.V = append(res.V, rt.Violation{Property: "C19,C17", Key: where + "/wallet-does-not-load", What: fmt.Sprintf("after a crash of %s before %s the wallet directory cannot be loaded: %v", sc.Op, res.Fault, err)})
		return res
	}
	w.Exec(sc.Next)
	c19RestoreCheck(w, wi, "after-crash-and-continue")
	for _, v := range w.V {
		if v.Property == "HARNESS" {
			res.Err = v.What
			continue
		}
		if !rt.HasProp(v.Property, "C19") {
			continue
		}
		res.V = append(res.V, rt.Violation{Property: "C19", Key: where + "/" + v.Key, What: fmt.Sprintf("[crash of %s before %s] %s", sc.Op, res.Fault, v.What)})
	}
	return res
}

// ---- generated crash scenarios: every state within L operations x every operation offered there x every boundary call ----

func c19GenMenu(w *wworld.World) []string {
	var ops []string
	ww := w.Wallets[0]
	bal := ww.W.GetBalance()
	if bal < 8 {
		ops = append(ops, "mint|0|16")
	}
	if bal >= 5 && len(w.Tokens) < 2 {
		ops = append(ops, "send|0|3|0", "send|0|4|1", "sendpk|0|1|2")
	}
	for ti, t := range w.Tokens {
		if t.Kind == "plain" {
			ops = append(ops, fmt.Sprintf("recv|0|%d|0", ti))
		}
	}
	if bal >= 6 && len(ww.Melts) < 1 {
		ops = append(ops, "melt|0|4|S", "melt|0|4|P", "melt|0|4|F")
	}
	for mi, m := range ww.Melts {
		if p := w.LN.Payments[m.Hash]; p != nil && p.Status.String() == "Pending" {
			ops = append(ops, fmt.Sprintf("lnfinal|0|%d|S", mi), fmt.Sprintf("lnfinal|0|%d|F", mi))
		}
		ops = append(ops, fmt.Sprintf("checkmelt|0|%d", mi))
	}
	if ww.W.PendingBalance() > 0 {
		ops = append(ops, "reclaim|0")
	}
	if len(w.Mints["a"].M.ListKeysets().Keysets) < 2 {
		ops = append(ops, "rotate|a|100")
	}
	return ops
}

var c19GenSpec = &wSpec{Prop: "C19", Name: "C19-gen", Cfg: wworld.Config{FeeA: 100, Wallets: []wworld.WalletCfg{{Default: "a"}, {Default: "a"}}},
	Init: []string{"mint|0|16"}, Menu: c19GenMenu, Depth: 9, NoInvariants: true}

func c19CrashableOp(op string) bool {
	switch strings.Split(op, "|")[0] {
	case "lnfinal", "rotate", "reload":
		return false // events outside the wallet process
	}
	return true
}

func runC19CrashGen(c *rt.Ctx, depth int) {
	// enumerate the distinct states (canonical form) with their shortest history, in job order
	seen := map[string]bool{}
	type state struct {
		hist []string
		next []string
	}
	var states []state
	frontier := [][]string{{}}
	for d := 0; d <= depth && len(frontier) > 0; d++ {
		jobs := make([]any, len(frontier))
		for i, h := range frontier {
			jobs[i] = bfs.Job{Spec: c19GenSpec.Name, Hist: h}
		}
		results := make([]bfs.Res, len(frontier))
		c.Pool.Map(jobs, func(i int, r rt.JobResult) {
			if r.Died {
				rt.HarnessError("C19 state enumeration %v died: %s", frontier[i], r.Stderr)
			}
			json.Unmarshal(r.Out, &results[i])
			if results[i].Err != "" {
				rt.HarnessError("C19 state enumeration %v: %s", frontier[i], results[i].Err)
			}
		})
		var next [][]string
		for i, r := range results {
			if seen[r.Canon] {
				continue
			}
			seen[r.Canon] = true
			states = append(states, state{frontier[i], r.Next})
			for _, op := range r.Next {
				next = append(next, append(append([]string{}, frontier[i]...), op))
			}
		}
		frontier = next
	}
	type cas struct {
		prep []string
		op   string
	}
	var cases []cas
	for _, st := range states {
		for _, op := range st.next {
			if c19CrashableOp(op) {
				cases = append(cases, cas{append(append([]string{}, c19GenSpec.Init...), st.hist...), op})
			}
		}
	}
	jobs := make([]any, len(cases))
	for i, cs := range cases {
		jobs[i] = c19Job{Scn: "gen", K: -1, Prep: cs.prep, Op: cs.op, Next: "mint|0|16"}
	}
	counts := make([]int, len(cases))
	c.Pool.Map(jobs, func(i int, r rt.JobResult) {
		if r.Died {
			rt.HarnessError("C19 counting run %v + %s died: %s", cases[i].prep, cases[i].op, r.Stderr)
		}
		var res c19Res
		json.Unmarshal(r.Out, &res)
		if res.Err != "" {
			rt.HarnessError("C19 counting run %v + %s: %s", cases[i].prep, cases[i].op, res.Err)
		}
		counts[i] = len(res.Calls)
	})
	var fj []c19Job
	for i, cs := range cases {
		for k := 0; k < counts[i]; k++ {
			fj = append(fj, c19Job{Scn: "gen", K: k, Prep: cs.prep, Op: cs.op, Next: "mint|0|16"})
		}
	}
	evals := 0
	const chunk = 3000
	for from := 0; from < len(fj); from += chunk {
		if c.Expired() {
			c.Exhaustive = false
			break
		}
		to := from + chunk
		if to > len(fj) {
			to = len(fj)
		}
		jobs = make([]any, to-from)
		for i := range jobs {
			jobs[i] = fj[from+i]
		}
		c.Pool.Map(jobs, func(i int, r rt.JobResult) {
			j := fj[from+i]
			if r.Died {
				c.Violate(fmt.Sprintf("C19/gen:%s/crash-at:%d/process-died", j.Op, j.K), "worker died: "+r.Stderr, j)
				return
			}
			var res c19Res
			json.Unmarshal(r.Out, &res)
			if res.Err != "" {
				rt.HarnessError("C19 crash %v + %s k=%d: %s", j.Prep, j.Op, j.K, res.Err)
			}
			if res.Skip {
				return
			}
			evals++
			c.Count("crash_points", 1)
			c.Count("transitions", 1)
			c.Distinct(fmt.Sprintf("gencrash|%v|%s|%s", j.Prep, j.Op, res.Fault))
			for _, v := range res.V {
				c.Violate("C19/"+v.Key, fmt.Sprintf("(after %v) %s", j.Prep[len(c19GenSpec.Init):], v.What), j)
			}
		})
	}
	fmt.Printf("  generated crash cases: prefix depth %d, states %d, (state, operation) cases %d, crash points %d of %d\n", depth, len(states), len(cases), evals, len(fj))
	c.Cov["generated_crash"] = map[string]any{"prefix_depth": depth, "states": len(states), "cases": len(cases), "crash_points": len(fj), "evaluated": evals}
	c.Cov["rule_crash_generated"] = "the same crash enumeration from every distinct state reachable by at most L operations (L = 1 quick, 3 thorough) over {mint, send x {3, 4 with fees}, send to pubkey, receive, melt x {Succeeded, Pending, Failed}, backend settles / fails, check melt, reclaim, rotation}, for every wallet operation offered in that state and every boundary call of it"
}

func c19Worker(job json.RawMessage) (any, error) {
	var sp struct{ Spec string }
	json.Unmarshal(job, &sp)
	if sp.Spec == c19GenSpec.Name {
		return wWorker(map[string]*wSpec{c19GenSpec.Name: c19GenSpec})(job)
	}
	var probe struct{ Scn string }
	json.Unmarshal(job, &probe)
	if probe.Scn != "" {
		var j c19Job
		json.Unmarshal(job, &j)
		return c19CrashExec(j), nil
	}
	return wWorker(c19All)(job)
}

func runC19Crash(c *rt.Ctx) {
	scns := c19CrashScns()
	jobs := make([]any, len(scns))
	for i, s := range scns {
		jobs[i] = c19Job{Scn: s.Name, K: -1}
	}
	counts := make([][]string, len(scns))
	c.Pool.Map(jobs, func(i int, r rt.JobResult) {
		if r.Died {
			rt.HarnessError("C19 counting run %s died: %s", scns[i].Name, r.Stderr)
		}
		var res c19Res
		json.Unmarshal(r.Out, &res)
		if res.Err != "" {
			rt.HarnessError("C19 counting run %s: %s", scns[i].Name, res.Err)
		}
		counts[i] = res.Calls
	})
	type item struct{ scn, k int }
	var items []item
	for i := range scns {
		for k := 0; k < len(counts[i]); k++ {
			items = append(items, item{i, k})
		}
	}
	jobs = make([]any, len(items))
	for i, it := range items {
		jobs[i] = c19Job{Scn: scns[it.scn].Name, K: it.k}
	}
	per := map[string]int{}
	c.Pool.Map(jobs, func(i int, r rt.JobResult) {
		it := items[i]
		if r.Died {
			c.Violate(fmt.Sprintf("C19/%s/crash-at:%d/process-died", scns[it.scn].Name, it.k), "worker died: "+r.Stderr, jobs[i])
			return
		}
		var res c19Res
		json.Unmarshal(r.Out, &res)
		if res.Err != "" {
			rt.HarnessError("C19 crash %s k=%d: %s", scns[it.scn].Name, it.k, res.Err)
		}
		if res.Skip {
			return
		}
		c.Count("crash_points", 1)
		c.Count("transitions", 1)
		c.Count("traces_validated_against_impl", 1)
		per[scns[it.scn].Name]++
		c.Distinct("crash|" + scns[it.scn].Name + "|" + res.Fault)
		for _, v := range res.V {
			c.Violate("C19/"+v.Key, v.What, jobs[i])
		}
	})
	c.Cov["crash_scenarios"] = per
	keys := make([]string, 0, len(per))
	for k := range per {
		keys = append(keys, k)
	}
	sort.Strings(keys)
	c.Cov["rule_crash"] = "E2: for each wallet operation (mint, offline send, send with swap, send with fees, receive, receive own token, melt x {Succeeded, Pending, Failed}, reclaim, check melt quote x {Succeeded, Failed}, send to pubkey) every boundary call k (WalletDB method through hook H3; HTTP round trip: before sending and after the mint processed it but before the response is seen) is hit by a crash; the store is released, the mnemonic is restored into an empty directory and compared with the mint-side value of the seed's deterministic outputs; then the crashed directory is loaded again, one more operation runs, and the restore comparison is repeated"
}

func init() {
	register(&Prop{ID: "C19", Level: "model_checking", QuickBudget: 300 * time.Second, ThoroughBudget: 30 * time.Minute,
		Run: func(c *rt.Ctx) {
			c.Cov["rule"] = "E3 on the wallet world: every history up to the depth bound over the C17 alphabet plus send-to-pubkey, receive of P2PK tokens and restore-then-continue (thorough adds a long scripted history with > 300 outputs on one keyset, a rotation in the middle and restore -> continue -> restore); the transport log yields every B_ submitted in the outputs of /v1/mint/bolt11, /v1/swap, /v1/melt/bolt11 and whether it was signed; with the NUT-13 outputs of every wallet seed derived by the harness: no (keyset, counter) that was already signed is submitted again, the stored counter is past every signed counter; in every state Restore(mnemonic) into an empty directory must yield spendable + pending == mint-side unspent + pending value of that seed's signed outputs (read from the mint stores)"
			runWSpecs(c, c19Specs(c.Quick()))
			runC19Crash(c)
			if c.Quick() {
				runC19CrashGen(c, 1)
			} else {
				runC19CrashGen(c, 3)
			}
		},
		Worker: c19Worker,
		Replay: func(p string) int {
			b, _ := os.ReadFile(p)
			var v struct{ Replay c19Job }
			json.Unmarshal(b, &v)
			if v.Replay.Scn != "" {
				res := c19CrashExec(v.Replay)
				for _, x := range res.V {
					fmt.Printf("  C19/%s: %s\n", x.Key, x.What)
				}
				if len(res.V) > 0 {
					fmt.Printf("VIOLATION property=C19 replay=%s\n", p)
					return 1
				}
				fmt.Println("no violation on replay")
				return 0
			}
			return wReplay("C19", c19All, p)
		},
	})
	_ = bfs.Job{}
}

func c19Specs(quick bool) []*wSpec {
	return append(c19OwnSpecs(quick), wUnionSpec("C19", quick, nil, c19Probe(false), true))
}
