package props

import (
	"encoding/json"
	"fmt"
	"os"
	"strings"

	"verif/harness/bfs"
	"verif/harness/rt"
	"verif/harness/wworld"
)

// Wallet-level searches reuse the BFS coordinator (bfs.Run); the worker side builds a wworld.World.

type wSpec struct {
	Prop  string
	Name  string
	Cfg   wworld.Config
	Init  []string
	Setup func(w *wworld.World) // installs monitors before any operation
	Menu  func(w *wworld.World) []string
	Probe func(w *wworld.World)
	Depth int
	// NoInvariants skips the C17 invariants (properties that do not need them)
	NoInvariants bool
}

func (s *wSpec) coord() *bfs.Spec { return &bfs.Spec{Prop: s.Prop, Name: s.Name, Depth: s.Depth} }

func wExec(s *wSpec, hist []string) (res bfs.Res) {
	dir, _ := os.MkdirTemp(rt.ScratchRoot(), "ww-")
	defer os.RemoveAll(dir)
	w, err := wworld.New(dir, s.Cfg)
	if err != nil {
		return bfs.Res{Err: "world: " + err.Error()}
	}
	defer w.Close()
	if s.Setup != nil {
		s.Setup(w)
	}
	all := append(append([]string{}, s.Init...), hist...)
	mark := 0
	for i, op := range all {
		if i == len(all)-1 && len(hist) > 0 {
			mark = len(w.V)
			w.Outcomes = map[string]int{}
		}
		if err := w.Exec(op); err != nil {
			return bfs.Res{Err: fmt.Sprintf("op %d %q: %v", i, op, err), V: w.V}
		}
	}
	if len(hist) == 0 {
		mark = 0
	}
	if !s.NoInvariants {
		w.Invariants()
	}
	res.Canon = w.Canon()
	if s.Menu != nil {
		res.Next = s.Menu(w)
	}
	if len(w.Obs) > 0 {
		res.LastObs = w.Obs[len(w.Obs)-1]
	}
	if s.Probe != nil {
		s.Probe(w)
	}
	res.V = append(res.V, w.V[mark:]...)
	res.Outcomes = w.Outcomes
	return res
}

func wWorker(specs map[string]*wSpec) func(job json.RawMessage) (any, error) {
	return func(job json.RawMessage) (any, error) {
		var j bfs.Job
		if err := json.Unmarshal(job, &j); err != nil {
			return nil, err
		}
		s := specs[j.Spec]
		if s == nil {
			return nil, fmt.Errorf("unknown spec %q", j.Spec)
		}
		return wExec(s, j.Hist), nil
	}
}

func wSpecMap(lists ...[]*wSpec) map[string]*wSpec {
	m := map[string]*wSpec{}
	for _, l := range lists {
		for _, s := range l {
			m[s.Name] = s
		}
	}
	return m
}

func runWSpecs(c *rt.Ctx, specs []*wSpec) {
	for _, s := range specs {
		if f := os.Getenv("VERIF_DEV_SPEC"); f != "" && !strings.Contains(s.Name, f) { // development aid
			continue
		}
		if c.Expired() {
			c.Exhaustive = false
			break
		}
		cs := s.coord()
		st := bfs.Run(c, cs)
		bfs.Report(c, cs, st)
		fmt.Printf("  scenario %-28s depth %d/%d states %d transitions %d complete=%v\n", s.Name, st.MaxDepth, s.Depth, st.States, st.Transitions, st.Complete)
	}
}

func wReplay(prop string, specs map[string]*wSpec, path string) int {
	b, err := os.ReadFile(path)
	if err != nil {
		fmt.Println(err)
		return 2
	}
	var v struct {
		Replay struct {
			Spec string
			Hist []string
		}
	}
	json.Unmarshal(b, &v)
	s := specs[v.Replay.Spec]
	if s == nil {
		fmt.Println("unknown spec", v.Replay.Spec)
		return 2
	}
	res := wExec(s, v.Replay.Hist)
	if res.Err != "" {
		fmt.Println("error:", res.Err)
		return 2
	}
	fmt.Println("history:", v.Replay.Hist)
	fmt.Println("state:  ", res.Canon)
	code := 0
	for _, x := range res.V {
		fmt.Printf("  %s/%s: %s\n", x.Property, x.Key, x.What)
		if rt.HasProp(x.Property, prop) {
			code = 1
		}
	}
	if code == 1 {
		fmt.Printf("VIOLATION property=%s replay=%s\n", prop, path)
	} else {
		fmt.Println("no violation of", prop, "on replay")
	}
	return code
}

// crossMintP2PKMenu: W3 (default mint b) locks ecash of mint b to W1 (default mint a), plain and SIG_ALL; W1 receives
// it at mint b or swaps it to its trusted mint a (for SIG_ALL that path first swaps at b with signed outputs, then
// melts at b and mints at a).
func crossMintP2PKMenu(w *wworld.World) []string {
	var ops []string
	if len(w.Tokens) < 2 && w.Wallets[2].W.GetBalance() >= 4 {
		ops = append(ops, "sendpk|2|0|2", "sendpk|2|0|2|A", "send|2|2|0")
	}
	for ti, t := range w.Tokens {
		if t.Kind == "plain" || t.To == 0 {
			ops = append(ops, fmt.Sprintf("recv|0|%d|0", ti), fmt.Sprintf("recv|0|%d|1", ti))
		}
	}
	if w.Wallets[0].W.GetBalance() >= 3 && len(w.Tokens) < 2 {
		ops = append(ops, "send|0|2|0")
	}
	return ops
}

// crossMintRotatedInit: mint b has rotated BEFORE wallet W1 learns of it; W3 still holds ecash of b's old keyset
var crossMintRotatedInit = []string{"mint|2|16", "mint|0|8", "rotate|b|0", "addmint|0|b"}

var crossMintCfg = wworld.Config{FeeA: 100, FeeB: 0, TwoMints: true, Wallets: []wworld.WalletCfg{{Default: "a"}, {Default: "a"}, {Default: "b"}}}

// wUnionMenu: the union of all wallet-level menus (see unionMenu in seqcommon.go for the idea).
func wUnionMenu(w *wworld.World) []string {
	seen := map[string]bool{}
	var ops []string
	menus := []func(*wworld.World) []string{c17Menu, c19Menu, c08Menu, c19GenMenu}
	if len(w.Wallets) >= 3 && w.Cfg.TwoMints {
		menus = append(menus, crossMintP2PKMenu)
	}
	for _, menu := range menus {
		for _, op := range menu(w) {
			if !seen[op] {
				seen[op] = true
				ops = append(ops, op)
			}
		}
	}
	return ops
}

// wUnionSpec: shallow search over the union menu on three wallets and two mints (W1, W2 at mint a with fees, W3 at b).
func wUnionSpec(prop string, quick bool, setup func(*wworld.World), probe func(*wworld.World), noInv bool) *wSpec {
	d := 2
	name := prop + "-union-q"
	if !quick {
		d = 3
		name = prop + "-union"
	}
	menu := wUnionMenu
	if !noInv {
		// C17's bookkeeping of what a wallet has handed out does not survive re-creating the wallet from its seed (the
		// restored wallet rightly holds unspent proofs that sit in tokens): restore is C19's subject, not part of this menu
		menu = func(w *wworld.World) []string {
			var ops []string
			for _, op := range wUnionMenu(w) {
				if !strings.HasPrefix(op, "restore|") {
					ops = append(ops, op)
				}
			}
			return ops
		}
	}
	return &wSpec{Prop: prop, Name: name, Cfg: crossMintCfg, Init: []string{"mint|0|16", "mint|2|16"}, Setup: setup, Menu: menu, Probe: probe, Depth: d, NoInvariants: noInv}
}
