package props

import (
	"encoding/hex"
	"fmt"
	"sort"
	"strings"

	"github.com/btcsuite/btcd/btcec/v2"
	"github.com/elnosh/gonuts/cashu/nuts/nut10"
	"github.com/elnosh/gonuts/cashu/nuts/nut11"

	"verif/harness/rt"
)

// lkLibSerializer: locks built the way the wallet builds them — nut11.P2PKTags -> nut11.SerializeP2PKTags ->
// nut10.SerializeSecret — must state the configuration the caller asked for. For every configuration the struct can
// express (n_sigs 0..3 x key lists x locktime x refund x sigflag) the library-made secret is parsed by the harness's
// own NUT-10 parser and compared, as a spending condition (who may sign, how many signatures, refund keys, locktime,
// SIG_ALL), with the hand-rendered secret of the same configuration; the library's own parser must give the struct back.
func lkLibSerializer(c *rt.Ctx, prop, kind string, now int64) {
	pub := func(label string) *btcec.PublicKey {
		b, _ := hex.DecodeString(lkK(label).Pub)
		k, err := btcec.ParsePubKey(b)
		if err != nil {
			rt.HarnessError("lk: key %s: %v", label, err)
		}
		return k
	}
	keySets := [][]string{nil, {"K2"}, {"K2", "K3"}, {"K2", "K3", "K4"}}
	n := 0
	for _, lt := range c12Locks {
		for _, rf := range c12Refunds {
			for _, sf := range []string{"", "SIG_ALL"} {
				for _, ns := range []int{0, 1, 2, 3} {
					for _, ks := range keySets {
						cfg := lkCfg{Kind: kind, Data: "K1", NSigs: ns, PubTag: len(ks) > 0, Pubkeys: ks, Lock: lt, Refund: rf, Sigflag: sf}
						if kind == "HTLC" {
							cfg.Data = "lower"
						}
						if ns == 0 {
							cfg.NSigs = -1 // the struct cannot say "n_sigs 0": it means no tag
						}
						tags := nut11.P2PKTags{Sigflag: sf, NSigs: ns}
						for _, l := range ks {
							tags.Pubkeys = append(tags.Pubkeys, pub(l))
						}
						for _, l := range rf {
							tags.Refund = append(tags.Refund, pub(l))
						}
						switch lt {
						case "past":
							tags.Locktime = now - lkOffset
						case "future":
							tags.Locktime = now + lkOffset
						}
						n++
						nonce := lkNonce("lib", cfg.ID())
						var libSecret string
						var err error
						if p := lkSafe(func() {
							k := nut10.P2PK
							if kind == "HTLC" {
								k = nut10.HTLC
							}
							libSecret, err = nut10.SerializeSecret(nut10.WellKnownSecret{Kind: k, Data: nut10.SecretData{Nonce: nonce, Data: cfg.dataField(), Tags: nut11.SerializeP2PKTags(tags)}})
						}); p != "" || err != nil {
							c.Violate(prop+"/library-serializer/fails", fmt.Sprintf("serialising %s: panic=%q err=%v", cfg.ID(), p, err), map[string]any{"cfg": cfg})
							continue
						}
						want, ok1 := lkParseSecret(cfg.Render(nonce, now))
						got, ok2 := lkParseSecret(libSecret)
						if !ok1 || !ok2 {
							c.Violate(prop+"/library-serializer/not-a-nut10-secret", fmt.Sprintf("%s: the library-made secret %s is not a NUT-10 secret", cfg.ID(), libSecret), map[string]any{"cfg": cfg})
							continue
						}
						var diffs []string
						wk, wt := want.authorised()
						gk, gt := got.authorised()
						sort.Strings(wk)
						sort.Strings(gk)
						if strings.Join(wk, ",") != strings.Join(gk, ",") {
							diffs = append(diffs, fmt.Sprintf("signers %d keys instead of %d", len(gk), len(wk)))
						}
						if wt != gt {
							diffs = append(diffs, fmt.Sprintf("threshold %d instead of %d", gt, wt))
						}
						if strings.Join(want.Refund, ",") != strings.Join(got.Refund, ",") {
							diffs = append(diffs, "refund keys")
						}
						if want.HasLock != got.HasLock || want.Locktime != got.Locktime {
							diffs = append(diffs, "locktime")
						}
						if want.SigAll != got.SigAll {
							diffs = append(diffs, "sigflag")
						}
						if want.Kind != got.Kind || want.Data != got.Data || got.Malformed != want.Malformed {
							diffs = append(diffs, "kind/data/malformed:"+got.Malformed)
						}
						if len(diffs) > 0 {
							what := "threshold"
							if !strings.HasPrefix(diffs[0], "threshold") {
								what = strings.Fields(diffs[0])[0]
							}
							c.Violate(prop+"/library-serializer/lock-differs-from-request/"+what, fmt.Sprintf("%s built through nut11.SerializeP2PKTags + nut10.SerializeSecret states another spending condition than asked for (%s): %s", cfg.ID(), strings.Join(diffs, "; "), libSecret), map[string]any{"cfg": cfg, "secret": libSecret})
							continue
						}
						// and the library's own parser gives back what went in (as a spending condition)
						ws, derr := nut10.DeserializeSecret(libSecret)
						if derr != nil {
							c.Violate(prop+"/library-serializer/own-secret-not-parsed", fmt.Sprintf("%s: %v", cfg.ID(), derr), map[string]any{"cfg": cfg})
							continue
						}
						back, perr := nut11.ParseP2PKTags(ws.Data.Tags)
						if perr != nil {
							c.Violate(prop+"/library-serializer/own-tags-not-parsed", fmt.Sprintf("%s: %v", cfg.ID(), perr), map[string]any{"cfg": cfg})
							continue
						}
						eff := func(x int) int {
							if kind == "P2PK" && len(ks) == 0 && x == 0 {
								return 0
							}
							return x
						}
						if back == nil || eff(back.NSigs) != eff(ns) || len(back.Pubkeys) != len(ks) || len(back.Refund) != len(rf) || back.Locktime != tags.Locktime || (back.Sigflag == "SIG_ALL") != (sf == "SIG_ALL") {
							c.Violate(prop+"/library-serializer/parse-of-serialize-differs", fmt.Sprintf("%s: nut11.ParseP2PKTags(SerializeP2PKTags(x)) = %+v", cfg.ID(), back), map[string]any{"cfg": cfg})
						}
					}
				}
			}
		}
	}
	c.Cov["library_serializer_configurations"] = n
}
