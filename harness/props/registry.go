// Package props holds one file per property: scenario lists, alphabets, oracles.
package props

import (
	"encoding/json"
	"time"

	"verif/harness/rt"
)

type Prop struct {
	ID             string
	Level          string // evidence level
	QuickBudget    time.Duration
	ThoroughBudget time.Duration
	Run            func(c *rt.Ctx)
	Worker         func(job json.RawMessage) (any, error)
	Replay         func(path string) int
}

var Registry = map[string]*Prop{}

func register(p *Prop) { Registry[p.ID] = p }
