package props

import (
	"encoding/json"
	"fmt"
	"os"
	"time"

	"verif/harness/rt"
	"verif/harness/wworld"
)

// C17 — wallet balance is truthful and no value is lost against an honest mint (E3 on the wallet world).

func c17Menu(w *wworld.World) []string {
	var ops []string
	for _, ww := range w.Wallets {
		i := ww.Idx
		bal := ww.W.GetBalance()
		if bal < 8 && ww.DB.Inner.GetKeysetCounter(w.Mints[ww.Default].ActiveID()) < 12 {
			ops = append(ops, fmt.Sprintf("mint|%d|16", i))
		}
		if bal > 0 && len(w.Tokens) < 2 {
			for _, x := range []int{1, 3, 5} {
				if uint64(x) <= bal {
					ops = append(ops, fmt.Sprintf("send|%d|%d|0", i, x), fmt.Sprintf("send|%d|%d|1", i, x))
				}
			}
		}
		for ti, t := range w.Tokens {
			if t.Kind == "plain" || (t.Kind == "p2pk" && t.To == i) || t.Kind == "htlc" {
				ops = append(ops, fmt.Sprintf("recv|%d|%d|0", i, ti))
				if t.Mint != ww.Default {
					ops = append(ops, fmt.Sprintf("recv|%d|%d|1", i, ti))
				}
			}
		}
		if bal >= 6 && len(ww.Melts) < 2 {
			ops = append(ops, fmt.Sprintf("melt|%d|4|S", i), fmt.Sprintf("melt|%d|4|F", i), fmt.Sprintf("melt|%d|4|P", i))
		}
		for mi, m := range ww.Melts {
			if p := w.LN.Payments[m.Hash]; p != nil && p.Status.String() == "Pending" {
				ops = append(ops, fmt.Sprintf("lnfinal|%d|%d|S", i, mi), fmt.Sprintf("lnfinal|%d|%d|F", i, mi))
			}
			ops = append(ops, fmt.Sprintf("checkmelt|%d|%d", i, mi))
			// a user retrying the quote: while the payment is in flight, after it failed, and after the mint refused the
			// request outright (no payment was ever attempted)
			if p := w.LN.Payments[m.Hash]; p == nil || p.Attempts < 2 {
				ops = append(ops, fmt.Sprintf("remelt|%d|%d", i, mi))
			}
		}
		if ww.W.PendingBalance() > 0 {
			ops = append(ops, fmt.Sprintf("reclaim|%d", i), fmt.Sprintf("rmspent|%d", i))
		}
		ops = append(ops, fmt.Sprintf("reload|%d", i))
		if w.Cfg.TwoMints && i == 0 {
			if len(ww.W.TrustedMints()) < 2 {
				ops = append(ops, "addmint|0|b")
			} else if bal >= 10 {
				ops = append(ops, "mintswap|0|8|a|b|S", "mintswap|0|8|a|b|F", "mintswap|0|8|a|b|P")
			}
		}
	}
	if len(w.Mints["a"].M.ListKeysets().Keysets) < 2 {
		ops = append(ops, "rotate|a|0")
		if w.Cfg.FeeA != 100 {
			ops = append(ops, "rotate|a|100")
		}
	}
	return ops
}

// c17RotMenu: a wallet that holds proofs of two keysets of the same mint (before / after a rotation) and spends
// amounts that need inputs from both.
func c17RotMenu(w *wworld.World) []string {
	var ops []string
	bal := w.Wallets[0].W.GetBalance()
	if len(w.Tokens) < 2 {
		for _, x := range []int{3, 6, 9, 13} {
			if uint64(x) <= bal {
				ops = append(ops, fmt.Sprintf("send|0|%d|0", x), fmt.Sprintf("send|0|%d|1", x))
			}
		}
	}
	for ti := range w.Tokens {
		ops = append(ops, fmt.Sprintf("recv|1|%d|0", ti))
	}
	if bal >= 12 && len(w.Wallets[0].Melts) < 1 {
		ops = append(ops, "melt|0|9|S", "melt|0|9|F")
	}
	if w.Wallets[0].W.PendingBalance() > 0 {
		ops = append(ops, "reclaim|0")
	}
	if w.Wallets[1].W.GetBalance() >= 3 && len(w.Tokens) < 3 {
		ops = append(ops, "send|1|3|1")
	}
	return ops
}

func c17OwnSpecs(quick bool) []*wSpec {
	two := wworld.Config{FeeA: 100, Wallets: []wworld.WalletCfg{{Default: "a"}, {Default: "a"}}}
	swapCfg := wworld.Config{FeeA: 100, FeeB: 0, TwoMints: true, Wallets: []wworld.WalletCfg{{Default: "a"}}}
	swapMenu := func(w *wworld.World) []string {
		ops := []string{"reclaim|0", "rmspent|0", "reload|0"}
		if w.Wallets[0].W.GetBalance() >= 10 {
			ops = append(ops, "mintswap|0|8|a|b|S", "mintswap|0|8|a|b|F", "mintswap|0|8|a|b|P")
		}
		return ops
	}
	if quick {
		return []*wSpec{
			{Prop: "C17", Name: "C17-2w1m-fee100-q", Cfg: two, Init: []string{"mint|0|16"}, Menu: c17Menu, Depth: 3},
			{Prop: "C17", Name: "C17-pendingmelt-q", Cfg: wworld.Config{FeeA: 0, Wallets: []wworld.WalletCfg{{Default: "a"}}}, Init: []string{"mint|0|16", "melt|0|4|P"}, Menu: c17Menu, Depth: 3},
			{Prop: "C17", Name: "C17-mintswap-q", Cfg: swapCfg, Init: []string{"mint|0|16", "addmint|0|b"}, Menu: swapMenu, Depth: 2},
			{Prop: "C17", Name: "C17-crossmint-rotated-q", Cfg: crossMintCfg, Init: crossMintRotatedInit, Menu: crossMintP2PKMenu, Depth: 2},
			{Prop: "C17", Name: "C17-crossmint-p2pk-q", Cfg: crossMintCfg, Init: []string{"mint|2|16", "mint|0|8"}, Menu: crossMintP2PKMenu, Depth: 3},
			// big coins of a fee-free keyset, then the mint rotates to a fee-bearing one: every spend has to swap old-keyset
			// coins while another keyset is active
			{Prop: "C17", Name: "C17-bigcoin-feechange-q", Cfg: wworld.Config{FeeA: 0, Wallets: []wworld.WalletCfg{{Default: "a"}, {Default: "a"}}}, Init: []string{"give|0|16,8", "rotate|a|100"}, Menu: c17RotMenu, Depth: 2},
			// two rotations noticed by the running wallet, then the wallet is closed and opened again
			{Prop: "C17", Name: "C17-rotated-twice-reload-q", Cfg: two, Init: []string{"mint|0|4", "rotate|a|100", "mint|0|4", "rotate|a|0", "mint|0|4", "reload|0"}, Menu: c17RotMenu, Depth: 1},
			// a wallet that trusts two mints holds proofs of a rotated-out keyset of one of them, notices the rotation, is closed
			// and opened again: per-mint balances, spends at either mint
			{Prop: "C17", Name: "C17-refused-melt-retried-fee1000-q", Cfg: wworld.Config{FeeA: 1000, Wallets: []wworld.WalletCfg{{Default: "a"}, {Default: "a"}}}, Init: []string{"give|0|16", "melt|0|4|S", "give|0|4,2,2", "remelt|0|0"}, Menu: c17RotMenu, Depth: 1},
			{Prop: "C17", Name: "C17-two-mints-rotation-reload-q", Cfg: wworld.Config{FeeA: 0, FeeB: 0, TwoMints: true, Wallets: []wworld.WalletCfg{{Default: "a"}, {Default: "a"}, {Default: "b"}}}, Init: []string{"mint|2|8", "mint|0|16", "send|0|3|0", "recv|2|0|0", "rotate|a|0", "send|0|5|0", "recv|2|0|0", "reload|2"}, Menu: c17RotMenu, Depth: 1},
			{Prop: "C17", Name: "C17-rotated-fee100-q", Cfg: two, Init: []string{"mint|0|7", "rotate|a|100", "mint|0|8"}, Menu: c17RotMenu, Depth: 3},
		}
	}
	three := func(fa uint) wworld.Config {
		return wworld.Config{FeeA: fa, FeeB: 0, TwoMints: true, Wallets: []wworld.WalletCfg{{Default: "a"}, {Default: "a"}, {Default: "b"}}}
	}
	return []*wSpec{
		{Prop: "C17", Name: "C17-2w1m-fee100", Cfg: two, Init: []string{"mint|0|16"}, Menu: c17Menu, Depth: 4},
		{Prop: "C17", Name: "C17-3w2m-fee0", Cfg: three(0), Init: []string{"mint|0|16"}, Menu: c17Menu, Depth: 3},
		{Prop: "C17", Name: "C17-3w2m-fee1000", Cfg: three(1000), Init: []string{"mint|0|16"}, Menu: c17Menu, Depth: 3},
		{Prop: "C17", Name: "C17-crossmint-p2pk", Cfg: crossMintCfg, Init: []string{"mint|2|16", "mint|0|8"}, Menu: crossMintP2PKMenu, Depth: 4},
		{Prop: "C17", Name: "C17-bigcoin-feechange", Cfg: wworld.Config{FeeA: 0, Wallets: []wworld.WalletCfg{{Default: "a"}, {Default: "a"}}}, Init: []string{"give|0|16,8", "rotate|a|100"}, Menu: c17RotMenu, Depth: 3},
		{Prop: "C17", Name: "C17-bigcoin-feedrop", Cfg: wworld.Config{FeeA: 1000, Wallets: []wworld.WalletCfg{{Default: "a"}, {Default: "a"}}}, Init: []string{"give|0|16,8", "rotate|a|0"}, Menu: c17RotMenu, Depth: 3},
		{Prop: "C17", Name: "C17-rotated-twice-reload", Cfg: two, Init: []string{"mint|0|4", "rotate|a|100", "mint|0|4", "rotate|a|0", "mint|0|4", "reload|0"}, Menu: c17RotMenu, Depth: 3},
		// 1000 ppk: a melt the mint refuses (the wallet's swap for the inputs comes out short), more coins arrive, the quote is retried
		{Prop: "C17", Name: "C17-refused-melt-retried-fee1000", Cfg: wworld.Config{FeeA: 1000, Wallets: []wworld.WalletCfg{{Default: "a"}, {Default: "a"}}}, Init: []string{"give|0|16", "melt|0|4|S", "give|0|4,2,2", "remelt|0|0"}, Menu: c17RotMenu, Depth: 1},
		{Prop: "C17", Name: "C17-two-mints-rotation-reload", Cfg: three(0), Init: []string{"mint|2|8", "mint|0|16", "send|0|3|0", "recv|2|0|0", "rotate|a|0", "send|0|5|0", "recv|2|0|0", "reload|2"}, Menu: c17RotMenu, Depth: 2},
		{Prop: "C17", Name: "C17-rotated-fee100", Cfg: two, Init: []string{"mint|0|7", "rotate|a|100", "mint|0|8"}, Menu: c17RotMenu, Depth: 4},
		{Prop: "C17", Name: "C17-rotated-fee1000to100", Cfg: wworld.Config{FeeA: 1000, Wallets: []wworld.WalletCfg{{Default: "a"}, {Default: "a"}}}, Init: []string{"mint|0|7", "rotate|a|100", "mint|0|8"}, Menu: c17RotMenu, Depth: 4},
	}
}

var c17All = wSpecMap(c17Specs(true), c17Specs(false))

func init() {
	register(&Prop{ID: "C17", Level: "model_checking", QuickBudget: 300 * time.Second, ThoroughBudget: 30 * time.Minute,
		Run: func(c *rt.Ctx) {
			c.Cov["rule"] = "E3 on the wallet world (real wallets on bbolt, real mints on SQLite, in-process transport, shared Lightning model): every history up to the depth bound over {mint 16, send x in {1,3,5} with / without fees, receive (same mint, other wallet, untrusted mint with and without swap-to-trusted), melt of an external 4-sat invoice x {Succeeded, Failed, Pending}, backend settles / fails the pending payment, check melt quote, reclaim, remove spent, add mint, mint-swap A->B x {payment succeeds, fails, stays in flight}, keyset rotation with fee 0 / 100, wallet reload}; in every state: GetBalance == sum of stored spendable proofs == sum of GetBalanceByMints, every spendable proof UNSPENT at its mint, PendingBalance == stored pending proofs which were all handed out or submitted to a melt, every plain-sent unspent proof still pending in its sender, no secret spendable twice, and for every mint outstanding ecash (issued - redeemed) == value of not-spent secrets held by wallets (spendable + pending) and tokens in flight; every swap / melt request a mint accepted gives up exactly the mint's input fee ceil(sum ppk/1000) beyond its outputs (amount + Lightning fee + change for melts), audited from the recorded HTTP exchanges; a further search starts from a wallet holding proofs of two keysets with the same fee (rotation mid-history) and spends amounts that need inputs from both"
			runWSpecs(c, c17Specs(c.Quick()))
			runC17Faults(c)
			c.Cov["rule_schedules"] = "E1 on one wallet object (beyond the statement's sequential quantifier): two / three concurrent Send, SendToPubkey and Receive calls, every interleaving at wallet-store-call and HTTP-request granularity with at most B preemptions (iterative bounding 0..B); per execution: no proof returned by two sends, every send returns at least the amount asked, then all C17 invariants"
			if c.Quick() {
				runSched(c, "C17", []string{"W1-send-send-same-proof", "W2-send-send-one-big-proof", "W3-send-sendpk", "W4-send-receive"}, 2)
			} else {
				runSched(c, "C17", []string{"W1-send-send-same-proof", "W2-send-send-one-big-proof", "W3-send-sendpk", "W4-send-receive"}, 3)
				runSched(c, "C17", []string{"W5-send-send-send"}, 2)
			}
		},
		Worker: func(job json.RawMessage) (any, error) {
			if r, ok := c17FaultWorker(job); ok {
				return r, nil
			}
			return dispatchWorker(wWorker(c17All))(job)
		},
		Replay: func(p string) int {
			if b, err := os.ReadFile(p); err == nil {
				var v struct{ Replay c17FaultJob }
				if json.Unmarshal(b, &v) == nil && v.Replay.FaultScn != "" {
					res := c17FaultExec(v.Replay)
					fmt.Println("fault at", res.Fault, res.Err)
					for _, x := range res.V {
						fmt.Printf("  C17/%s: %s\n", x.Key, x.What)
					}
					if len(res.V) > 0 {
						fmt.Printf("VIOLATION property=C17 replay=%s\n", p)
						return 1
					}
					return 0
				}
			}
			if code, ok := replaySched("C17", p); ok {
				return code
			}
			return wReplay("C17", c17All, p)
		},
	})
}

func c17Specs(quick bool) []*wSpec {
	return append(c17OwnSpecs(quick), wUnionSpec("C17", quick, nil, nil, false))
}
