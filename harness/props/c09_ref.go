package props

import (
	"bytes"
	"fmt"
	"sync"

	"github.com/decred/dcrd/dcrec/secp256k1/v4"

	"verif/harness/mintops"
	"verif/harness/ref"
	"verif/harness/world"
)

// Independent derivation for C09: keyset idx of the mint = BIP32 m/0'/0'/idx'/i' from the stored seed (package ref),
// id = NUT-02 derivation from the 60 public keys. Cached per process (math/big is slow).

var (
	refKsMu    sync.Mutex
	refKsCache = map[string]map[uint64][]byte{}
)

func refKeyset(seed []byte, idx uint32) map[uint64][]byte {
	k := fmt.Sprintf("%x/%d", seed, idx)
	refKsMu.Lock()
	defer refKsMu.Unlock()
	if v, ok := refKsCache[k]; ok {
		return v
	}
	v := ref.MintKeysetPubs(seed, idx)
	refKsCache[k] = v
	return v
}

func init() {
	mintops.RefCheckKeyset = func(w *mintops.W, idx int, id string, keys map[uint64]*secp256k1.PublicKey) {
		seed := world.FixedSeed("a")
		pubs := refKeyset(seed, uint32(idx))
		if want := ref.KeysetID(pubs); want != id {
			w.Viol("C09", "keyset-id-differs-from-nut02-derivation", "keyset with derivation index %d has id %s, the independent derivation gives %s", idx, id, want)
		}
		if len(keys) != len(pubs) {
			w.Viol("C09", "keyset-key-count", "keyset %d has %d keys, derivation %d", idx, len(keys), len(pubs))
			return
		}
		for a, pk := range keys {
			if !bytes.Equal(pk.SerializeCompressed(), pubs[a]) {
				w.Viol("C09", "keyset-key-differs-from-derivation", "keyset %d: public key for amount %d is not the BIP32 derivation m/0'/0'/%d'/i' of the stored seed", idx, a, idx)
				return
			}
		}
	}
}
