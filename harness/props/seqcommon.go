package props

import (
	"context"
	"fmt"
	"github.com/elnosh/gonuts/mint"
	"os"

	"verif/harness/bfs"
	"verif/harness/mintops"
	"verif/harness/rt"
)

// runSpecs runs a list of BFS scenarios for one property and folds the statistics into the evidence.
func runSpecs(c *rt.Ctx, specs []*bfs.Spec) {
	if os.Getenv("VERIF_DEV_E1ONLY") != "" { // development aid: skip the sequential searches
		return
	}
	for _, s := range specs {
		if c.Expired() {
			c.Exhaustive = false
			break
		}
		st := bfs.Run(c, s)
		bfs.Report(c, s, st)
		fmt.Printf("  scenario %-28s depth %d/%d states %d transitions %d complete=%v\n", s.Name, st.MaxDepth, s.Depth, st.States, st.Transitions, st.Complete)
	}
}

func specMap(specs ...[]*bfs.Spec) map[string]*bfs.Spec {
	m := map[string]*bfs.Spec{}
	for _, l := range specs {
		for _, s := range l {
			m[s.Name] = s
		}
	}
	return m
}

// probeRespend: in every state every proof the model holds as spent or pending is presented again in a swap
// (must be rejected) and the state-check endpoint is compared with the model.
func probeRespend(nProofs int) func(w *mintops.W) {
	return func(w *mintops.W) {
		n := nProofs
		if n > len(w.Proofs) {
			n = len(w.Proofs)
		}
		idx := ""
		for i := 0; i < n; i++ {
			if i > 0 {
				idx += ","
			}
			idx += fmt.Sprint(i)
		}
		if n > 0 {
			w.Exec("check|" + idx + "|")
		}
		for i := 0; i < n; i++ {
			if w.Proofs[i].St != mintops.Unspent {
				w.Exec(fmt.Sprintf("swap|%d|exact", i))
			}
		}
	}
}

func cap2(n, m int) int {
	if n > m {
		return m
	}
	return n
}

var bgCtx = context.Background()

// unionMenu is the union of the operation menus of all mint-level properties. Each property's own search goes deep
// inside the alphabet that its statement names; the union search is shallow (depth 2-3) but contains every pair
// (triple) of operations that ANY property's menu knows, under that property's probes and the shared oracles — an
// operation that matters for a property but was only thought of for another one is then in reach.
func unionMenu(w *mintops.W) []string {
	seen := map[string]bool{}
	var ops []string
	for _, menu := range []func(*mintops.W) []string{c01Menu, c02Menu, c03Menu, c05Menu(false), c09Menu, c15Menu, c16Menu, c07GenMenu} {
		for _, op := range menu(w) {
			if !seen[op] {
				seen[op] = true
				ops = append(ops, op)
			}
		}
	}
	return ops
}

// unionSpecs: the union search for one property (its probe), over a fee-bearing configuration and one with limits + MPP.
func unionSpecs(prop string, probe func(*mintops.W), quick bool) []*bfs.Spec {
	d := 2
	if !quick {
		d = 3
	}
	sfx := map[bool]string{true: "-q", false: ""}[quick]
	// quick: the union search speaks to the HTTP handler (the properties' own searches use the Go API); thorough: both
	specs := []*bfs.Spec{{Prop: prop, Name: prop + "-union-http-fee100" + sfx, Cfg: mintops.Config{Fee: 100, ViaHTTP: true}, Init: []string{"fund|8,4,2,1,1", "mq|8", "meltq|4"}, Menu: unionMenu, Probe: probe, Depth: 2}}
	if !quick {
		specs = append(specs, &bfs.Spec{Prop: prop, Name: prop + "-union-fee100", Cfg: mintops.Config{Fee: 100}, Init: []string{"fund|8,4,2,1,1", "mq|8", "meltq|4"}, Menu: unionMenu, Probe: probe, Depth: d})
		specs = append(specs, &bfs.Spec{Prop: prop, Name: prop + "-union-limits-mpp", Cfg: mintops.Config{Fee: 0, MPP: true, Limits: mint.MintLimits{MaxBalance: 40, MintingSettings: mint.MintMethodSettings{MaxAmount: 8}, MeltingSettings: mint.MeltMethodSettings{MaxAmount: 4}}},
			Init: []string{"fund|8", "fund|4,2,1,1", "mq|8", "meltq|4"}, Menu: unionMenu, Probe: probe, Depth: 2})
	}
	return specs
}
