package props

import (
	"context"
	"fmt"

	"verif/harness/bfs"
	"verif/harness/mintops"
	"verif/harness/rt"
)

// runSpecs runs a list of BFS scenarios for one property and folds the statistics into the evidence.
func runSpecs(c *rt.Ctx, specs []*bfs.Spec) {
	for _, s := range specs {
		if c.Expired() {
			c.Exhaustive = false
			break
		}
		st := bfs.Run(c, s)
		bfs.Report(c, s, st)
		fmt.Printf("  scenario %-28s depth %d/%d states %d transitions %d complete=%v\n", s.Name, st.MaxDepth, s.Depth, st.States, st.Transitions, st.Complete)
	}
}

func specMap(specs ...[]*bfs.Spec) map[string]*bfs.Spec {
	m := map[string]*bfs.Spec{}
	for _, l := range specs {
		for _, s := range l {
			m[s.Name] = s
		}
	}
	return m
}

// probeRespend: in every state every proof the model holds as spent or pending is presented again in a swap
// (must be rejected) and the state-check endpoint is compared with the model.
func probeRespend(nProofs int) func(w *mintops.W) {
	return func(w *mintops.W) {
		n := nProofs
		if n > len(w.Proofs) {
			n = len(w.Proofs)
		}
		idx := ""
		for i := 0; i < n; i++ {
			if i > 0 {
				idx += ","
			}
			idx += fmt.Sprint(i)
		}
		if n > 0 {
			w.Exec("check|" + idx + "|")
		}
		for i := 0; i < n; i++ {
			if w.Proofs[i].St != mintops.Unspent {
				w.Exec(fmt.Sprintf("swap|%d|exact", i))
			}
		}
	}
}

func cap2(n, m int) int {
	if n > m {
		return m
	}
	return n
}

var bgCtx = context.Background()
