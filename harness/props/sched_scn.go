package props

import (
	"context"
	"encoding/json"
	"fmt"
	"os"
	"regexp"
	"sort"
	"strings"
	"sync"
	"time"

	"encoding/hex"
	"github.com/elnosh/gonuts/cashu"
	"github.com/elnosh/gonuts/cashu/nuts/nut04"
	"github.com/elnosh/gonuts/cashu/nuts/nut05"
	"github.com/elnosh/gonuts/cashu/nuts/nut12"
	"github.com/elnosh/gonuts/cashu/nuts/nut20"

	"verif/harness/dbwrap"
	"verif/harness/lnmodel"
	"verif/harness/mintops"
	"verif/harness/rt"
	"verif/harness/sched"
	"verif/harness/world"
)

// ---- E1 scenarios: concurrent API calls on one colliding proof (C01) or one mint quote (C03) ----

type schedX struct {
	w   *mintops.W
	s   *sched.Sched
	obs []string
	v   []rt.Violation
	// C01 bookkeeping
	swapOK     map[int]int   // proof index -> successful swaps containing it
	meltOf     map[int][]int // proof index -> melt indices that were called with it
	swapRes    []swapRes
	sharedOuts []world.Out      // if set, every swap thread asks for THESE outputs (same B_ in concurrent requests)
	meltPay    map[int][]payAns // proof index -> backend answers to the payment attempts of the requests that carried it
	meltErr    map[int]string   // melt index -> error code of the MeltTokens call(s)
	checks     [][]string       // successive ProofsStateCheck observations (state names) per check thread call
	checkIdx   []int
	// C03 bookkeeping
	mintOK      map[int]int
	mintSum     map[int]uint64
	mintEarly   map[int]bool // a success was returned while the invoice was not settled
	outcomeBits []string
	mintWho     []string
	scn         string
	outsOf      map[string][]world.Out
	initPending map[int]bool // proofs locked by a melt when the controlled phase begins
	sigs        []sigRec     // signatures handed out by the concurrent requests, with the output they answer
	kindsAll    []string
	freeRun     bool
	mu          sync.Mutex
}

type sigRec struct {
	who string
	out world.Out
	sig cashu.BlindedSignature
}

type swapRes struct {
	name string
	ins  []int
	ok   bool
}

type payAns struct {
	ans string
	mi  int
}

func (x *schedX) note(format string, a ...any) {
	if x.freeRun { // harness bookkeeping is not the subject of the race pass
		return
	}
	x.obs = append(x.obs, fmt.Sprintf(format, a...))
}
func (x *schedX) viol(prop, key, format string, a ...any) {
	x.v = append(x.v, rt.Violation{Property: prop, Key: key, What: fmt.Sprintf(format, a...)})
}

func errc(err error) string {
	if err == nil {
		return "ok"
	}
	if ce, ok := err.(*cashu.Error); ok {
		return fmt.Sprintf("E%d", ce.Code)
	}
	if ce, ok := err.(cashu.Error); ok {
		return fmt.Sprintf("E%d", ce.Code)
	}
	return "Eother"
}

func (x *schedX) thSwap(name string, ins []int, mut string) {
	w := x.w
	var proofs cashu.Proofs
	for _, n := range ins {
		p := w.Proofs[n].P
		switch mut {
		case "w":
			p.Witness = `{"signatures":["00"]}`
		case "d":
			p.DLEQ = &cashu.DLEQProof{E: "00", S: "00"}
		}
		proofs = append(proofs, p)
	}
	fee := w.FeeFor(proofs)
	var sum uint64
	for _, p := range proofs {
		sum += p.Amount
	}
	outs := w.U.Outputs(w.M.ActiveID(), world.Split(sum-fee.Uint64())...)
	if x.sharedOuts != nil {
		outs = x.sharedOuts
	}
	x.s.Go(name, func() {
		sigs, err := w.M.M.Swap(proofs, world.Msgs(outs))
		x.mu.Lock()
		defer x.mu.Unlock()
		for i := range sigs {
			if i < len(outs) {
				x.sigs = append(x.sigs, sigRec{name, outs[i], sigs[i]})
			}
		}
		x.note("%s swap%v -> %s", name, ins, errc(err))
		x.swapRes = append(x.swapRes, swapRes{name, ins, err == nil})
		if err == nil {
			for _, n := range ins {
				x.swapOK[n]++
			}
		}
		x.outcomeBits = append(x.outcomeBits, name+"="+errc(err))
	})
}

func (x *schedX) thMelt(name string, mi int, ins []int) {
	w := x.w
	var proofs cashu.Proofs
	for _, n := range ins {
		proofs = append(proofs, w.Proofs[n].P)
		x.meltOf[n] = append(x.meltOf[n], mi)
	}
	x.s.Go(name, func() {
		me := dbwrap.GID()
		res, err := w.M.M.MeltTokens(context.Background(), nut05.PostMeltBolt11Request{Quote: w.Melts[mi].Q.Id, Inputs: proofs})
		st := ""
		if err == nil {
			st = ":" + res.State.String()
		}
		x.mu.Lock()
		defer x.mu.Unlock()
		// the answer the backend gave to THIS request's payment attempt (several requests may try the same quote)
		paidOverLN := false
		for _, c := range w.LN.Calls {
			if c.G == me && (c.Method == "SendPayment" || c.Method == "PayPartialAmount") {
				paidOverLN = true
				for _, n := range ins {
					x.meltPay[n] = append(x.meltPay[n], payAns{c.Answer, mi})
				}
			}
		}
		_ = paidOverLN
		x.note("%s melt(mq%d,%v) -> %s%s", name, mi, ins, errc(err), st)
		x.meltErr[mi] = errc(err)
		x.outcomeBits = append(x.outcomeBits, name+"="+errc(err)+st)
	})
}

func (x *schedX) thCheck(name string, ins []int, times int) {
	w := x.w
	var ys []string
	for _, n := range ins {
		ys = append(ys, w.Proofs[n].Y)
	}
	x.s.Go(name, func() {
		for k := 0; k < times; k++ {
			st, err := w.M.M.ProofsStateCheck(ys)
			x.mu.Lock()
			var names []string
			for _, s := range st {
				names = append(names, s.State.String())
			}
			x.note("%s check%v -> %s %v", name, ins, errc(err), names)
			if err == nil {
				x.checks = append(x.checks, names)
			}
			x.mu.Unlock()
		}
	})
	x.checkIdx = ins
}

func (x *schedX) thPollMelt(name string, mi int) {
	w := x.w
	x.s.Go(name, func() {
		res, err := w.M.M.GetMeltQuoteState(context.Background(), w.Melts[mi].Q.Id)
		x.mu.Lock()
		defer x.mu.Unlock()
		x.note("%s pollm(mq%d) -> %s %s", name, mi, errc(err), res.State)
		x.outcomeBits = append(x.outcomeBits, name+"="+res.State.String())
	})
}

func (x *schedX) thMint(name string, qi int, variant string) {
	w := x.w
	q := w.Quotes[qi]
	var outs []world.Out
	switch variant {
	case "bad3":
		outs = w.U.Outputs(w.M.ActiveID(), 3)
	default:
		outs = w.U.Outputs(w.M.ActiveID(), world.Split(q.Q.Amount)...)
	}
	if x.sharedOuts != nil {
		outs = x.sharedOuts
	}
	if x.outsOf == nil {
		x.outsOf = map[string][]world.Out{}
	}
	x.outsOf[name] = outs
	req := nut04.PostMintBolt11Request{Quote: q.Q.Id, Outputs: world.Msgs(outs)}
	if q.Key != nil {
		sg, _ := nut20.SignMintQuote(q.Key, q.Q.Id, req.Outputs)
		req.Signature = hex.EncodeToString(sg.Serialize())
	}
	x.s.Go(name, func() { x.doMint(name, qi, req) })
}

func (x *schedX) doMint(name string, qi int, req nut04.PostMintBolt11Request) {
	w := x.w
	q := w.Quotes[qi]
	sigs, err := w.M.M.MintTokens(req)
	x.mu.Lock()
	defer x.mu.Unlock()
	for i := range sigs {
		for _, o := range x.outsOf[name] {
			if o.Msg.B_ == req.Outputs[i].B_ {
				x.sigs = append(x.sigs, sigRec{name, o, sigs[i]})
			}
		}
	}
	x.note("%s mint(q%d) -> %s", name, qi, errc(err))
	if err == nil {
		x.mintOK[qi]++
		x.mintWho = append(x.mintWho, name)
		x.mintSum[qi] += sigs.Amount()
		if !w.LN.Invoices[q.Q.PaymentHash].Settled {
			x.mintEarly[qi] = true
		}
	}
	x.outcomeBits = append(x.outcomeBits, name+"="+errc(err))
}

func (x *schedX) thPollQuote(name string, qi int) {
	w := x.w
	x.s.Go(name, func() {
		res, err := w.M.M.GetMintQuoteState(w.Quotes[qi].Q.Id)
		x.mu.Lock()
		defer x.mu.Unlock()
		x.note("%s pollq(q%d) -> %s %s", name, qi, errc(err), res.State)
		if err == nil && !w.LN.Invoices[w.Quotes[qi].Q.PaymentHash].Settled && res.State != nut04.Unpaid {
			x.viol("C03", x.scn+"/poll-reports-paid-before-settlement", "GetMintQuoteState(q%d) returned %s while the invoice was not settled", qi, res.State)
		}
	})
}

// thEvents: harness-side events of the environment: the user paying (settle) and the backend delivering the
// asynchronous notification to the mint's watcher goroutine (which is then adopted as a schedulable thread parked
// before its store write).
func (x *schedX) thEvents(name string, qi int, settle, deliver bool) {
	w := x.w
	x.s.Go(name, func() {
		h := w.Quotes[qi].Q.PaymentHash
		if settle {
			x.s.Point("ev:settle")
			w.LN.Settle(h)
			w.SyncPayments()
			x.note("%s settle(q%d)", name, qi)
		}
		if deliver {
			x.s.Point("ev:deliver")
			pairs := w.LN.DeliverPairs(h)
			x.note("%s deliver(q%d) woke %d", name, qi, len(pairs))
			x.s.AdoptBackground(pairs)
		}
	})
}

type schedScn struct {
	name   string
	prop   string
	fee    uint
	setup  func(x *schedX) // free-running: build state, declare threads
	tail   func(x *schedX) // after all threads finished (free-running)
	oracle func(x *schedX)
	// custom replaces the mint-world execution altogether (wallet-world scenarios)
	custom func(prefix []int) sched.Res
}

// withKeys: executions compute a state key at every decision past the prefix (unbounded pass with state pruning)
var schedWithKeys bool

var reVolatile = regexp.MustCompile(`"Expiry":\d+|"dleq":\{[^}]*\}`)

// schedKeyFns returns the shared-state and per-thread renderers of E1's state key. Everything random in an execution
// (quote ids, payment hashes, invoices, preimages) is renamed by creation index; expiry times and DLEQ nonces are dropped
// (no code path of a scenario reads them back into a decision).
func schedKeyFns(w *mintops.W) (func() string, func(int64) string) {
	replacer := func() *strings.Replacer {
		var pairs []string
		add := func(from, to string) {
			if from != "" {
				pairs = append(pairs, from, to)
			}
		}
		for i, q := range w.Quotes {
			add(q.Q.PaymentRequest, fmt.Sprintf("<qreq%d>", i))
			add(q.Q.PaymentHash, fmt.Sprintf("<qhash%d>", i))
			add(q.Q.Id, fmt.Sprintf("<q%d>", i))
			if inv := w.LN.Invoices[q.Q.PaymentHash]; inv != nil {
				add(inv.Preimage, fmt.Sprintf("<qpre%d>", i))
			}
		}
		for i, m := range w.Melts {
			add(m.Q.InvoiceRequest, fmt.Sprintf("<mreq%d>", i))
			add(m.Hash, fmt.Sprintf("<mhash%d>", i))
			add(m.Q.PaymentHash, fmt.Sprintf("<mhash%d>", i))
			add(m.Q.Id, fmt.Sprintf("<m%d>", i))
			if inv := w.LN.Invoices[m.Hash]; inv != nil {
				add(inv.Preimage, fmt.Sprintf("<mpre%d>", i))
			}
		}
		return strings.NewReplacer(pairs...)
	}
	shared := func() string {
		rp := replacer()
		t, err := w.ReadTables()
		if err != nil {
			return "ERR " + err.Error() + fmt.Sprint(time.Now().UnixNano()) // never merges
		}
		var parts []string
		for y, wit := range t.Spent {
			parts = append(parts, "S "+y+" "+wit)
		}
		for y, mq := range t.Pending {
			parts = append(parts, "P "+y+" "+mq)
		}
		for id, st := range t.MintQ {
			parts = append(parts, "Q "+id+" "+st)
		}
		for id, st := range t.MeltQ {
			parts = append(parts, "M "+id+" "+st[0]+" "+st[1])
		}
		for b, sg := range t.Sigs {
			parts = append(parts, fmt.Sprintf("B %s %d %s", b, sg.Amount, sg.Id))
		}
		for _, k := range t.Keysets {
			parts = append(parts, fmt.Sprintf("K %s %v %d", k.Id, k.Active, k.InputFeePpk))
		}
		for i := range parts {
			parts[i] = rp.Replace(parts[i])
		}
		sort.Strings(parts)
		return strings.Join(parts, ";") + "##" + w.LN.StateKey(rp.Replace)
	}
	results := func(g int64) string {
		rp := replacer()
		r := strings.Join(w.M.DB.ResultsOf(g), "\n") + "\n~\n" + strings.Join(w.LN.ResultsOf(g), "\n")
		return rp.Replace(reVolatile.ReplaceAllString(r, ""))
	}
	return shared, results
}

func execSched(sc *schedScn, prefix []int) (res sched.Res) {
	dir, _ := os.MkdirTemp(rt.ScratchRoot(), "e1-")
	defer os.RemoveAll(dir)
	w, err := mintops.New(dir, mintops.Config{Fee: sc.fee})
	if err != nil {
		return sched.Res{Err: err.Error()}
	}
	defer w.Close()
	s := sched.New(prefix)
	x := &schedX{scn: sc.name, w: w, s: s, swapOK: map[int]int{}, meltOf: map[int][]int{}, meltPay: map[int][]payAns{}, meltErr: map[int]string{}, mintOK: map[int]int{}, mintSum: map[int]uint64{}, mintEarly: map[int]bool{}}
	prevAfter := w.M.DB.After
	w.M.DB.Before = func(c *dbwrap.Call) error { s.Point("db:" + c.Name); return nil }
	w.M.DB.After = prevAfter
	w.LN.Hook = func(m, method string) { s.Point("ln:" + method) }
	sc.setup(x)
	x.initPending = map[int]bool{}
	if t, err := w.ReadTables(); err == nil {
		for i, p := range w.Proofs {
			if _, ok := t.Pending[p.Y]; ok {
				x.initPending[i] = true
			}
		}
	}
	if schedWithKeys {
		w.M.DB.KeepRes, w.LN.KeepRes = true, true
		s.KeyFn, s.ResultsFn = schedKeyFns(w)
	}
	if len(w.V) > 0 {
		// the sequential set-up already breaks an oracle: report that, nothing to schedule
		for _, v := range w.V {
			if v.Property == "HARNESS" {
				return sched.Res{Err: v.What}
			}
			v.Key = sc.name + "/set-up/" + v.Key
			v.What = "during the sequential set-up: " + v.What
			res.V = append(res.V, v)
		}
		return res
	}
	s.Run()
	if s.Err != nil {
		return sched.Res{Err: s.Err.Error(), Trace: s.Trace}
	}
	if sc.tail != nil {
		sc.tail(x)
	}
	sc.oracle(x)
	res.Trace = s.Trace
	res.V = x.v
	// observation log in a canonical order: per-thread results are order independent here, the final state is appended by the oracle
	res.Obs = strings.Join(x.obs, "\n")
	sort.Strings(x.outcomeBits)
	res.Outcome = strings.Join(x.outcomeBits, " ")
	// overlap: some thread ran between two steps of another thread
	ids := make([]int, len(s.Trace))
	for i, d := range s.Trace {
		ids[i] = d.Enabled[d.Chosen]
	}
	for i := 0; i+2 < len(ids) && !res.Collided; i++ {
		for k := i + 2; k < len(ids); k++ {
			if ids[k] == ids[i] && ids[i+1] != ids[i] {
				res.Collided = true
				break
			}
		}
	}
	return res
}

// oracleC01: at most one successful consumption per secret; final state; monotone observations; conservation.
func oracleC01(used []int) func(x *schedX) {
	return func(x *schedX) {
		w := x.w
		for _, n := range used {
			acc := x.swapOK[n]
			kinds := strings.Repeat("swap+", x.swapOK[n])
			// a melt request consumed the proof if the backend's answer to ITS payment attempt was success or pending (in
			// flight; the ledger then tells how it ended) — an attempt that failed outright consumed nothing, whatever other
			// requests did with the same quote
			for _, pa := range x.meltPay[n] {
				ans := pa.ans
				if ans != "Succeeded" && ans != "Pending" {
					continue
				}
				status := ans
				if ans == "Pending" {
					if p := w.LN.Payments[w.Melts[pa.mi].Hash]; p != nil {
						status = p.Status.String()
					}
				}
				if status == "Succeeded" || status == "Pending" {
					acc++
					kinds += "melt(" + status + ")+"
				}
			}
			// a melt of the mint's own invoice is settled without any payment: it consumed its inputs if the mint's records
			// say the melt quote is PAID (whatever the request was answered)
			if t, terr := w.ReadTables(); terr == nil {
				seen := map[int]bool{}
				for _, mi := range x.meltOf[n] {
					if !seen[mi] && w.Melts[mi].Internal >= 0 && t.MeltQ[w.Melts[mi].Q.Id][0] == "PAID" {
						seen[mi] = true
						acc++
						kinds += "melt(internal)+"
					}
				}
			}
			// final state through the API (backend answers truthfully)
			st, err := w.M.M.ProofsStateCheck([]string{w.Proofs[n].Y})
			final := "?"
			if err == nil && len(st) == 1 {
				final = st[0].State.String()
			}
			x.note("final p%d accepted=%d (%s) state=%s", n, acc, strings.TrimSuffix(kinds, "+"), final)
			if acc > 1 {
				x.kindsAll = append(x.kindsAll, strings.TrimSuffix(kinds, "+"))
				prop := "C01"
				if strings.Contains(kinds, "melt(") {
					prop = "C01,C05" // an input of a melt whose payment succeeded / is in flight was usable elsewhere
				}
				x.viol(prop, x.scn+"/double-spend/"+strings.TrimSuffix(kinds, "+"), "secret of p%d was consumed by %d operations (%s): %s", n, acc, strings.TrimSuffix(kinds, "+"), strings.Join(x.obs, "; "))
			}
			if acc >= 1 && final != "SPENT" && final != "PENDING" {
				x.viol("C01,C05,C15", x.scn+"/consumed-proof-reported-"+final, "p%d was consumed (%s) but the final state check reports %s: %s", n, kinds, final, strings.Join(x.obs, "; "))
			}
			if acc == 0 && final == "SPENT" {
				x.viol("C06", "proof-spent-without-successful-operation", "p%d reported SPENT although no operation consumed it: %s", n, strings.Join(x.obs, "; "))
			}
		}
		// a proof that was locked when the race began and ends SPENT was never unspent in between: no state check may say so
		// (the two writes of a settlement must not be observable half done)
		for k, n := range x.checkIdx {
			if !x.initPending[n] {
				continue
			}
			final := ""
			if st, err := w.M.M.ProofsStateCheck([]string{w.Proofs[n].Y}); err == nil && len(st) == 1 {
				final = st[0].State.String()
			}
			if final != "SPENT" || x.swapOK[n] > 0 {
				continue
			}
			for _, obs := range x.checks {
				if k < len(obs) && obs[k] == "UNSPENT" {
					x.viol("C15", x.scn+"/state-check-unspent-while-settling", "p%d was PENDING before and is SPENT after, but a state check in between reported UNSPENT: %s", n, strings.Join(x.obs, "; "))
					break
				}
			}
		}
		// monotone: never SPENT -> something else
		for k, n := range x.checkIdx {
			spent := false
			for _, obs := range x.checks {
				if k < len(obs) {
					if spent && obs[k] != "SPENT" {
						x.viol("C01", "state-check-not-monotone", "p%d reported SPENT and later %s", n, obs[k])
					}
					if obs[k] == "SPENT" {
						spent = true
					}
				}
			}
		}
		// conservation from the mint's own totals
		iss, _ := w.M.M.IssuedEcash()
		red, _ := w.M.M.RedeemedEcash()
		var ti, tr uint64
		for _, v := range iss {
			ti += v
		}
		for _, v := range red {
			tr += v
		}
		so, infl := w.LN.SumOut("a")
		in := w.LN.SumIn("a")
		var locked uint64
		t, _ := w.ReadTables()
		for _, p := range w.Proofs {
			if _, ok := t.Pending[p.Y]; ok {
				locked += p.P.Amount
			}
		}
		extra := uint64(0)
		if infl > locked {
			extra = infl - locked
		}
		x.note("totals issued=%d redeemed=%d lnout=%d inflight=%d locked=%d lnin=%d", ti, tr, so, infl, locked, in)
		if ti-tr+so+extra > in {
			x.viol("C01,C02", x.scn+"/value-created/"+strings.Join(x.kindsAll, ","), "after the race: outstanding %d + Lightning out %d (+%d in flight beyond locked) > Lightning in %d: %s", ti-tr, so, extra, in, strings.Join(x.obs, "; "))
		}
	}
}

func oracleC03(qi int) func(x *schedX) {
	return func(x *schedX) {
		w := x.w
		q := w.Quotes[qi]
		pay := 0
		if w.LN.Invoices[q.Q.PaymentHash].Settled {
			pay = 1
		}
		got, _ := w.M.M.GetMintQuoteState(q.Q.Id)
		x.note("final q%d successes=%d sum=%d payments=%d state=%s", qi, x.mintOK[qi], x.mintSum[qi], pay, got.State)
		if x.mintOK[qi] > pay {
			sort.Strings(x.mintWho)
			x.viol("C03,C02", x.scn+"/issued-more-often-than-paid/"+strings.Join(x.mintWho, "+"), "q%d (amount %d) was issued %d× (total %d) for %d payment(s): %s", qi, q.Q.Amount, x.mintOK[qi], x.mintSum[qi], pay, strings.Join(x.obs, "; "))
		}
		if x.mintSum[qi] > q.Q.Amount*uint64(pay) {
			x.viol("C03,C02", x.scn+"/issued-over-amount/"+strings.Join(x.mintWho, "+"), "q%d: signatures worth %d for amount %d × %d payment(s)", qi, x.mintSum[qi], q.Q.Amount, pay)
		}
		if x.mintEarly[qi] {
			x.viol("C03,C02", x.scn+"/issued-before-settlement", "q%d: MintTokens succeeded while the invoice was not settled: %s", qi, strings.Join(x.obs, "; "))
		}
		if x.mintOK[qi] >= 1 && got.State != nut04.Issued {
			x.viol("C03", x.scn+"/final-state-not-issued/"+got.State.String(), "q%d was issued but ends in state %s: %s", qi, got.State, strings.Join(x.obs, "; "))
		}
		if x.mintOK[qi] == 0 && pay == 1 && got.State != nut04.Paid {
			x.viol("C03,C06", x.scn+"/paid-quote-unusable/"+got.State.String(), "q%d is paid, nothing was issued, and it ends in state %s (stuck): %s", qi, got.State, strings.Join(x.obs, "; "))
		}
	}
}

// oracleC05: the inputs of melt mi (payment in flight when the race starts, backend outcome known by then) are usable
// nowhere else if the payment succeeded, and at most once if it failed; after the race and one more truthful poll the
// quote and the inputs have followed the outcome.
func oracleC05(mi int, ins []int, outcome lnmodel.Answer) func(x *schedX) {
	return func(x *schedX) {
		w := x.w
		m := w.Melts[mi]
		res, err := w.M.M.GetMeltQuoteState(context.Background(), m.Q.Id)
		quote := "error"
		if err == nil {
			quote = res.State.String()
		}
		var ys []string
		for _, n := range ins {
			ys = append(ys, w.Proofs[n].Y)
		}
		states := "error"
		if st, err := w.M.M.ProofsStateCheck(ys); err == nil {
			var names []string
			for _, s := range st {
				names = append(names, s.State.String())
			}
			states = strings.Join(names, ",")
		}
		elsewhere := 0
		for _, n := range ins {
			elsewhere += x.swapOK[n]
			for _, other := range x.meltOf[n] {
				if other != mi && w.LN.Payments[w.Melts[other].Hash] != nil {
					elsewhere++ // a payment was attempted for another quote with this input
				}
			}
		}
		x.note("final mq%d=%s inputs=%s accepted-elsewhere=%d", mi, quote, states, elsewhere)
		all := func(want string) bool {
			for _, f := range strings.Split(states, ",") {
				if f != want {
					return false
				}
			}
			return true
		}
		if outcome == lnmodel.Succeeded {
			if elsewhere > 0 {
				x.viol("C05,C01", x.scn+"/input-of-paid-melt-accepted-elsewhere", "the payment of mq%d succeeded, yet its inputs %v were accepted by %d other operation(s): %s", mi, ins, elsewhere, strings.Join(x.obs, "; "))
			}
			if quote != "PAID" || !all("SPENT") || (err == nil && res.Preimage != w.LN.Invoices[m.Hash].Preimage) {
				x.viol("C05", x.scn+"/after-success/quote="+quote+"/inputs="+states, "the payment of mq%d succeeded; after the race and a further poll the quote is %s (preimage %q), inputs %s: %s", mi, quote, res.Preimage, states, strings.Join(x.obs, "; "))
			}
			return
		}
		if elsewhere > len(ins) {
			x.viol("C05,C01", x.scn+"/released-input-accepted-twice", "inputs %v of the failed mq%d were accepted %d times: %s", ins, mi, elsewhere, strings.Join(x.obs, "; "))
		}
		want := "UNSPENT"
		if elsewhere > 0 {
			want = "SPENT"
		}
		if quote != "UNPAID" || !all(want) {
			x.viol("C05", x.scn+"/after-failure/quote="+quote+"/inputs="+states, "the payment of mq%d failed; after the race and a further poll the quote is %s, inputs %s (accepted elsewhere %d times): %s", mi, quote, states, elsewhere, strings.Join(x.obs, "; "))
		}
	}
}

func tailMint(qi int) func(x *schedX) {
	return func(x *schedX) {
		w := x.w
		q := w.Quotes[qi]
		outs := w.U.Outputs(w.M.ActiveID(), world.Split(q.Q.Amount)...)
		req := nut04.PostMintBolt11Request{Quote: q.Q.Id, Outputs: world.Msgs(outs)}
		if q.Key != nil {
			sg, _ := nut20.SignMintQuote(q.Key, q.Q.Id, req.Outputs)
			req.Signature = hex.EncodeToString(sg.Serialize())
		}
		x.doMint("tail", qi, req)
	}
}

func must(w *mintops.W, ops ...string) {
	for _, op := range ops {
		if err := w.Exec(op); err != nil {
			panic(err)
		}
	}
}

var schedScns = map[string]*schedScn{}

func addScn(s *schedScn) { schedScns[s.name] = s }

func init() {
	// ---------- C01 ----------
	addScn(&schedScn{name: "S1-swap-swap", prop: "C01", setup: func(x *schedX) {
		must(x.w, "fund|8,8")
		x.thSwap("A", []int{0}, "")
		x.thSwap("B", []int{0}, "")
	}, oracle: oracleC01([]int{0})})
	addScn(&schedScn{name: "S2-swap-melt", prop: "C01", setup: func(x *schedX) {
		must(x.w, "fund|8,8", "meltq|4")
		x.thSwap("A", []int{0}, "")
		x.thMelt("B", 0, []int{0})
	}, oracle: oracleC01([]int{0})})
	addScn(&schedScn{name: "S3-melt-melt", prop: "C01", setup: func(x *schedX) {
		must(x.w, "fund|8,8", "meltq|4", "meltq|4")
		x.thMelt("A", 0, []int{0})
		x.thMelt("B", 1, []int{0})
	}, oracle: oracleC01([]int{0})})
	addScn(&schedScn{name: "S3c-melt-melt-check", prop: "C01", setup: func(x *schedX) {
		// two melts of one proof on two quotes, the first one's payment stays in flight, plus a state check resolving it
		must(x.w, "fund|8,8", "meltq|4", "meltq|4")
		x.w.LN.PayScript[x.w.Melts[0].Hash] = []lnmodel.Answer{lnmodel.Pending}
		x.thMelt("A", 0, []int{0})
		x.thMelt("B", 1, []int{0})
		x.thCheck("C", []int{0}, 2)
	}, oracle: oracleC01([]int{0})})
	addScn(&schedScn{name: "S1c-swap-swap-check-check", prop: "C01", setup: func(x *schedX) {
		must(x.w, "fund|8,8")
		x.thSwap("A", []int{0}, "")
		x.thSwap("B", []int{0, 1}, "")
		x.thCheck("C", []int{0, 1}, 2)
		x.thSwap("D", []int{1}, "")
	}, oracle: oracleC01([]int{0, 1})})
	addScn(&schedScn{name: "S4-swap-melt-check", prop: "C01", setup: func(x *schedX) {
		must(x.w, "fund|8,8", "meltq|4")
		x.thSwap("A", []int{0}, "")
		x.thMelt("B", 0, []int{0})
		x.thCheck("C", []int{0}, 2)
	}, oracle: oracleC01([]int{0})})
	addScn(&schedScn{name: "S5-swap-swapvariant", prop: "C01", setup: func(x *schedX) {
		must(x.w, "fund|8,8")
		x.thSwap("A", []int{0}, "")
		x.thSwap("B", []int{0}, "w")
	}, oracle: oracleC01([]int{0})})
	addScn(&schedScn{name: "S6-pendingmelt-poll-swap", prop: "C01", setup: func(x *schedX) {
		must(x.w, "fund|8,8", "meltq|4", "melt|0|0|P")
		// the backend now knows the payment succeeded
		x.w.LN.Payments[x.w.Melts[0].Hash].Status = lnmodel.Succeeded
		x.thPollMelt("A", 0)
		x.thSwap("B", []int{0}, "")
		x.thCheck("C", []int{0}, 2)
	}, oracle: oracleC01([]int{0})})
	addScn(&schedScn{name: "S6f-pendingmelt-failed-poll-swap", prop: "C01", setup: func(x *schedX) {
		must(x.w, "fund|8,8", "meltq|4", "melt|0|0|P")
		x.w.LN.Payments[x.w.Melts[0].Hash].Status = lnmodel.Failed
		x.thPollMelt("A", 0)
		x.thSwap("B", []int{0}, "")
		x.thSwap("C", []int{0}, "")
	}, oracle: oracleC01([]int{0})})
	addScn(&schedScn{name: "S11-failedmelt-poll-remelt-swap", prop: "C01", setup: func(x *schedX) {
		// the payment of a pending melt has failed; a poll releases "the quote's" pending inputs while a NEW melt on the same
		// quote (other input, payment goes in flight) is accepted in between; a swap then tries that other input
		must(x.w, "fund|8,8", "meltq|4", "melt|0|0|P")
		x.w.LN.Payments[x.w.Melts[0].Hash].Status = lnmodel.Failed
		x.w.LN.PayScript[x.w.Melts[0].Hash] = []lnmodel.Answer{lnmodel.Pending}
		x.thPollMelt("A", 0)
		x.thMelt("B", 0, []int{1})
		x.thSwap("C", []int{1}, "")
	}, oracle: oracleC01([]int{1})})
	// K1 / K2: a request that gets signatures overlapping a run-time keyset rotation
	oracleKeys := func(x *schedX) {
		w := x.w
		ksets := w.M.M.ListKeysets()
		active := 0
		for _, k := range ksets.Keysets {
			if k.Active {
				active++
			}
		}
		if active != 1 {
			x.viol("C09", x.scn+"/active-keysets", "%d active keysets after the rotation", active)
		}
		// the request decides which keyset signs in the step it is resumed from its last read (GetBlindSignatures); if every
		// step of the rotation came before that step, the rotation was complete and the old keyset must not sign any more
		signStep, lastR, rotOK := -1, -1, false
		for i, d := range x.s.Trace {
			if d.At == "A:db:GetBlindSignatures" {
				signStep = i
			}
			if strings.HasPrefix(d.At, "R:") {
				lastR = i
			}
		}
		for _, b := range x.outcomeBits {
			if b == "R=ok" {
				rotOK = true
			}
		}
		if rotOK && signStep >= 0 && lastR < signStep && len(x.sigs) > 0 {
			ids := map[string]bool{}
			for _, r := range x.sigs {
				ids[r.sig.Id] = true
			}
			if !ids[w.M.ActiveID()] || len(ids) > 1 {
				x.viol("C09", x.scn+"/signed-on-a-keyset-whose-rotation-was-complete", "the rotation had finished (all its store calls) before the request read the signed-outputs table, its last step before signing, yet it signed on the previous keyset: %s", strings.Join(x.obs, "; "))
			}
		}
		for _, r := range x.sigs {
			x.outcomeBits = append(x.outcomeBits, r.who+"-signed-on-"+map[bool]string{true: "asked", false: "other"}[r.sig.Id == r.out.Msg.Id])
			if r.sig.Id != r.out.Msg.Id {
				x.viol("C09,C10", x.scn+"/signature-names-another-keyset", "%s: output asked for keyset %s, signature says %s", r.who, r.out.Msg.Id, r.sig.Id)
				continue
			}
			keys := w.M.Keys(r.sig.Id)
			if keys == nil || keys[r.sig.Amount] == nil {
				x.viol("C09,C10", x.scn+"/signature-unknown-key", "%s: no published key for %s / %d", r.who, r.sig.Id, r.sig.Amount)
				continue
			}
			if r.sig.DLEQ == nil || !nut12.VerifyBlindSignatureDLEQ(*r.sig.DLEQ, keys[r.sig.Amount], r.out.Msg.B_, r.sig.C_) {
				x.viol("C09,C10", x.scn+"/signature-not-by-the-published-key", "%s: the signature labelled %s / %d does not verify under the key that keyset publishes: %s", r.who, r.sig.Id, r.sig.Amount, strings.Join(x.obs, "; "))
			}
		}
	}
	rotate := func(x *schedX) {
		x.s.Go("R", func() {
			_, err := x.w.M.M.RotateKeyset(0)
			x.mu.Lock()
			defer x.mu.Unlock()
			x.note("R rotate -> %s", errc(err))
			x.outcomeBits = append(x.outcomeBits, "R="+errc(err))
		})
	}
	addScn(&schedScn{name: "K1-swap-rotate", prop: "C09", setup: func(x *schedX) {
		must(x.w, "fund|8,8")
		x.thSwap("A", []int{0}, "")
		rotate(x)
	}, oracle: oracleKeys})
	addScn(&schedScn{name: "K2-mint-rotate", prop: "C09", setup: func(x *schedX) {
		must(x.w, "fund|8", "mq|8", "settle|1", "pollq|1")
		x.thMint("A", 1, "")
		rotate(x)
	}, oracle: oracleKeys})
	addScn(&schedScn{name: "S14-internalmelt-swap", prop: "C01", setup: func(x *schedX) {
		// a melt of the mint's own invoice (settled internally, no Lightning payment) racing a swap of its input
		must(x.w, "fund|8,8", "mq|4", "meltqi|1")
		x.thMelt("A", 0, []int{0})
		x.thSwap("B", []int{0}, "")
	}, tail: func(x *schedX) { x.w.Exec("mint|1") }, oracle: oracleC01([]int{0})})
	addScn(&schedScn{name: "S13-failedmelt-poll-poll-remelt-swap", prop: "C01", setup: func(x *schedX) {
		// as S11 with TWO polls: one of them may act on what it read before the other released the quote and a new melt
		// (other input, payment in flight) was accepted
		must(x.w, "fund|8,8", "meltq|4", "melt|0|0|P")
		x.w.LN.Payments[x.w.Melts[0].Hash].Status = lnmodel.Failed
		x.w.LN.PayScript[x.w.Melts[0].Hash] = []lnmodel.Answer{lnmodel.Pending}
		x.thPollMelt("A", 0)
		x.thPollMelt("D", 0)
		x.thMelt("B", 0, []int{1})
		x.thSwap("C", []int{1}, "")
	}, oracle: oracleC01([]int{1})})
	for _, st := range []struct {
		name   string
		status lnmodel.Answer
	}{{"S12f-meltfails-remelt-swap", lnmodel.Failed}, {"S12n-meltnotfound-remelt-swap", lnmodel.NotFound}} {
		st := st
		addScn(&schedScn{name: st.name, prop: "C01", setup: func(x *schedX) {
			// two melt requests on ONE quote with different inputs: the first payment attempt fails (status lookup: failed /
			// not found), the second goes in flight; a swap then tries the second request's input
			must(x.w, "fund|8,8", "meltq|4")
			h := x.w.Melts[0].Hash
			x.w.LN.PayScript[h] = []lnmodel.Answer{lnmodel.Failed, lnmodel.Pending}
			x.w.LN.StatusScript[h] = []lnmodel.Answer{st.status}
			x.thMelt("A", 0, []int{0})
			x.thMelt("B", 0, []int{1})
			x.thSwap("C", []int{1}, "")
		}, oracle: oracleC01([]int{1})})
	}
	addScn(&schedScn{name: "S7-swap-swap-melt", prop: "C01", setup: func(x *schedX) {
		must(x.w, "fund|8,8", "meltq|4")
		x.thSwap("A", []int{0}, "")
		x.thSwap("B", []int{0}, "")
		x.thMelt("C", 0, []int{0})
	}, oracle: oracleC01([]int{0})})
	addScn(&schedScn{name: "S8p-swap-melt-pending", prop: "C01", setup: func(x *schedX) {
		must(x.w, "fund|8,8", "meltq|4")
		x.w.LN.PayScript[x.w.Melts[0].Hash] = []lnmodel.Answer{lnmodel.Pending}
		x.thSwap("A", []int{0}, "")
		x.thMelt("B", 0, []int{0})
	}, oracle: oracleC01([]int{0})})
	addScn(&schedScn{name: "S8f-swap-melt-failed", prop: "C01", setup: func(x *schedX) {
		must(x.w, "fund|8,8", "meltq|4")
		x.w.LN.PayScript[x.w.Melts[0].Hash] = []lnmodel.Answer{lnmodel.Failed}
		x.w.LN.StatusScript[x.w.Melts[0].Hash] = []lnmodel.Answer{lnmodel.NotFound}
		x.thSwap("A", []int{0}, "")
		x.thMelt("B", 0, []int{0})
	}, oracle: oracleC01([]int{0})})
	addScn(&schedScn{name: "S10-melt-poll-swap", prop: "C01", setup: func(x *schedX) {
		// a quote poll / state check arriving while the melt is between marking its inputs pending and the backend
		// knowing the payment (the backend answers 'no such payment'), racing a swap of the same proof
		must(x.w, "fund|8,8", "meltq|4")
		x.thMelt("A", 0, []int{0})
		x.thPollMelt("B", 0)
		x.thSwap("C", []int{0}, "")
	}, oracle: oracleC01([]int{0})})
	addScn(&schedScn{name: "S9-two-input-overlap", prop: "C01", fee: 100, setup: func(x *schedX) {
		must(x.w, "fund|4,4,4", "meltq|4")
		x.thSwap("A", []int{0, 1}, "")
		x.thMelt("B", 0, []int{1, 2})
	}, oracle: oracleC01([]int{0, 1, 2})})

	// ---------- C05: resolution of an in-flight melt racing another use of its inputs ----------
	pendingMelt := func(x *schedX, outcome lnmodel.Answer) {
		must(x.w, "fund|8,8", "meltq|4", "meltq|4", "melt|0|0|P")
		x.w.LN.Payments[x.w.Melts[0].Hash].Status = outcome // the backend now knows the outcome
	}
	addScn(&schedScn{name: "L1-success-poll-vs-swap", prop: "C05", setup: func(x *schedX) {
		pendingMelt(x, lnmodel.Succeeded)
		x.thPollMelt("A", 0)
		x.thSwap("B", []int{0}, "")
	}, oracle: oracleC05(0, []int{0}, lnmodel.Succeeded)})
	addScn(&schedScn{name: "L2-success-check-vs-swap", prop: "C05", setup: func(x *schedX) {
		pendingMelt(x, lnmodel.Succeeded)
		x.thCheck("A", []int{0}, 1)
		x.thSwap("B", []int{0}, "")
	}, oracle: oracleC05(0, []int{0}, lnmodel.Succeeded)})
	addScn(&schedScn{name: "L3-success-poll-vs-melt", prop: "C05", setup: func(x *schedX) {
		pendingMelt(x, lnmodel.Succeeded)
		x.thPollMelt("A", 0)
		x.thMelt("B", 1, []int{0})
	}, oracle: oracleC05(0, []int{0}, lnmodel.Succeeded)})
	addScn(&schedScn{name: "L4-failure-poll-vs-swap-swap", prop: "C05", setup: func(x *schedX) {
		pendingMelt(x, lnmodel.Failed)
		x.thPollMelt("A", 0)
		x.thSwap("B", []int{0}, "")
		x.thSwap("C", []int{0}, "")
	}, oracle: oracleC05(0, []int{0}, lnmodel.Failed)})
	addScn(&schedScn{name: "L5-success-poll-vs-check-vs-swap", prop: "C05", setup: func(x *schedX) {
		pendingMelt(x, lnmodel.Succeeded)
		x.thPollMelt("A", 0)
		x.thCheck("B", []int{0}, 1)
		x.thSwap("C", []int{0}, "")
	}, oracle: oracleC05(0, []int{0}, lnmodel.Succeeded)})

	// ---------- C06: a request answered with an error has changed nothing, also when requests overlap ----------
	addScn(&schedScn{name: "R1-swap-swap-same-outputs", prop: "C06", setup: func(x *schedX) {
		// two swaps with different inputs ask for the SAME outputs: one of them is refused ("already signed" or a storage
		// conflict); its input must be as unspent as before
		must(x.w, "fund|8,8")
		x.sharedOuts = x.w.U.Outputs(x.w.M.ActiveID(), 8)
		x.thSwap("A", []int{0}, "")
		x.thSwap("B", []int{1}, "")
	}, oracle: func(x *schedX) {
		w := x.w
		okN := 0
		for _, r := range x.swapRes {
			st, err := w.M.M.ProofsStateCheck([]string{w.Proofs[r.ins[0]].Y})
			final := "?"
			if err == nil && len(st) == 1 {
				final = st[0].State.String()
			}
			x.note("final %s input p%d ok=%v state=%s", r.name, r.ins[0], r.ok, final)
			if r.ok {
				okN++
				if final != "SPENT" {
					x.viol("C06,C01", x.scn+"/accepted-swap-input-"+final, "swap %s was accepted but its input ends %s: %s", r.name, final, strings.Join(x.obs, "; "))
				}
			} else if final != "UNSPENT" {
				x.viol("C06", x.scn+"/refused-swap-changed-its-input/"+final, "swap %s was answered with an error but its input ends %s (the same input cannot be used in a corrected request): %s", r.name, final, strings.Join(x.obs, "; "))
			}
		}
		if okN > 1 {
			x.viol("C06,C15", x.scn+"/same-output-signed-twice", "both swaps asking for the same outputs were accepted: %s", strings.Join(x.obs, "; "))
		}
	}})

	addScn(&schedScn{name: "R2-mint-swap-same-outputs", prop: "C06", setup: func(x *schedX) {
		// a mint request and a swap ask for the SAME output: one is refused; a refused mint leaves its quote PAID, a refused
		// swap its input UNSPENT
		must(x.w, "fund|8,8", "mq|8", "settle|1", "pollq|1")
		x.sharedOuts = x.w.U.Outputs(x.w.M.ActiveID(), 8)
		x.thMint("A", 1, "")
		x.thSwap("B", []int{0}, "")
	}, oracle: func(x *schedX) {
		w := x.w
		okN := x.mintOK[1]
		got, _ := w.M.M.GetMintQuoteState(w.Quotes[1].Q.Id)
		x.note("final quote=%s mintOK=%d", got.State, x.mintOK[1])
		if x.mintOK[1] == 0 && got.State.String() != "PAID" {
			x.viol("C06", x.scn+"/refused-mint-changed-its-quote/"+got.State.String(), "the mint request was answered with an error but its paid quote ends %s: %s", got.State, strings.Join(x.obs, "; "))
		}
		for _, r := range x.swapRes {
			st, err := w.M.M.ProofsStateCheck([]string{w.Proofs[r.ins[0]].Y})
			final := "?"
			if err == nil && len(st) == 1 {
				final = st[0].State.String()
			}
			x.note("final %s input p%d ok=%v state=%s", r.name, r.ins[0], r.ok, final)
			if r.ok {
				okN++
			} else if final != "UNSPENT" {
				x.viol("C06", x.scn+"/refused-swap-changed-its-input/"+final, "the swap was answered with an error but its input ends %s: %s", final, strings.Join(x.obs, "; "))
			}
		}
		if okN > 1 {
			x.viol("C06,C15,C16", x.scn+"/same-output-signed-twice", "the mint request and the swap asking for the same output were both accepted: %s", strings.Join(x.obs, "; "))
		}
		// the mint's own totals still add up to what it handed out
		iss, _ := w.M.M.IssuedEcash()
		var ti uint64
		for _, v := range iss {
			ti += v
		}
		if want := uint64(16 + 8*okN); ti != want {
			x.viol("C16", x.scn+"/issued-total-differs", "IssuedEcash sums to %d after handing out %d: %s", ti, want, strings.Join(x.obs, "; "))
		}
	}})

	// ---------- C03 ----------
	paid := func(x *schedX, locked bool) {
		op := "mq|8"
		if locked {
			op = "mq|8|k"
		}
		must(x.w, "fund|8", op, "settle|1", "pollq|1") // quote q1 is PAID in the store
	}
	addScn(&schedScn{name: "M1-mint-mint", prop: "C03", setup: func(x *schedX) {
		paid(x, false)
		x.thMint("A", 1, "")
		x.thMint("B", 1, "")
	}, tail: tailMint(1), oracle: oracleC03(1)})
	addScn(&schedScn{name: "M2-mint-mint-mint", prop: "C03", setup: func(x *schedX) {
		paid(x, false)
		x.thMint("A", 1, "")
		x.thMint("B", 1, "")
		x.thMint("C", 1, "")
	}, tail: tailMint(1), oracle: oracleC03(1)})
	addScn(&schedScn{name: "M3-mint-poll-watcher", prop: "C03", setup: func(x *schedX) {
		must(x.w, "fund|8", "mq|8", "settle|1") // UNPAID in the store, settled at the backend
		x.thMint("A", 1, "")
		x.thPollQuote("B", 1)
		x.thEvents("E", 1, false, true)
	}, tail: tailMint(1), oracle: oracleC03(1)})
	addScn(&schedScn{name: "M4-mint-mint-watcher", prop: "C03", setup: func(x *schedX) {
		must(x.w, "fund|8", "mq|8", "settle|1")
		x.thMint("A", 1, "")
		x.thMint("B", 1, "")
		x.thEvents("E", 1, false, true)
	}, tail: tailMint(1), oracle: oracleC03(1)})
	addScn(&schedScn{name: "M5-mint-poll-settlement", prop: "C03", setup: func(x *schedX) {
		must(x.w, "fund|8", "mq|8") // not settled: settlement and delivery are schedulable events
		x.thMint("A", 1, "")
		x.thPollQuote("B", 1)
		x.thEvents("E", 1, true, true)
	}, tail: tailMint(1), oracle: oracleC03(1)})
	addScn(&schedScn{name: "M6-nut20-mint-mint", prop: "C03", setup: func(x *schedX) {
		paid(x, true)
		x.thMint("A", 1, "")
		x.thMint("B", 1, "")
	}, tail: tailMint(1), oracle: oracleC03(1)})
	addScn(&schedScn{name: "M7-mint-badmint", prop: "C03", setup: func(x *schedX) {
		paid(x, false)
		x.thMint("A", 1, "")
		x.thMint("B", 1, "bad3") // fails validation: the error path restores the 'previous' state
	}, tail: tailMint(1), oracle: oracleC03(1)})
}

func schedWorker(job json.RawMessage) (any, error) {
	var j sched.Job
	if err := json.Unmarshal(job, &j); err != nil {
		return nil, err
	}
	sc := schedScns[j.Scn]
	if sc == nil {
		return nil, fmt.Errorf("unknown scenario %q", j.Scn)
	}
	schedWithKeys = j.Keys
	// a prefix that does not replay (the enabled set at some step differed: a thread was seen blocked / not blocked at a
	// different moment) is a harness-level timing problem, not a property of the code: the execution is repeated on a
	// fresh instance before it is given up as a harness error
	var res sched.Res
	for attempt := 0; attempt < 4; attempt++ {
		if sc.custom != nil {
			res = sc.custom(j.Prefix)
		} else {
			res = execSched(sc, j.Prefix)
		}
		if !strings.Contains(res.Err, "diverging prefix") && !strings.Contains(res.Err, "watchdog") {
			break
		}
	}
	return res, nil
}

// dispatchWorker serves both engines of a property: BFS jobs carry "Spec", scheduler jobs carry "Scn".
func dispatchWorker(bfsW func(json.RawMessage) (any, error)) func(json.RawMessage) (any, error) {
	return func(job json.RawMessage) (any, error) {
		var probe struct{ Scn string }
		json.Unmarshal(job, &probe)
		if probe.Scn != "" {
			return schedWorker(job)
		}
		return bfsW(job)
	}
}

func replaySched(prop, path string) (int, bool) {
	b, err := os.ReadFile(path)
	if err != nil {
		return 2, true
	}
	var v struct {
		Replay struct {
			Scn    string
			Prefix []int
		}
	}
	json.Unmarshal(b, &v)
	if v.Replay.Scn == "" {
		return 0, false
	}
	sc := schedScns[v.Replay.Scn]
	if sc == nil {
		fmt.Println("unknown scenario", v.Replay.Scn)
		return 2, true
	}
	var res sched.Res
	if sc.custom != nil {
		res = sc.custom(v.Replay.Prefix)
	} else {
		res = execSched(sc, v.Replay.Prefix)
	}
	if res.Err != "" {
		fmt.Println("error:", res.Err)
		return 2, true
	}
	fmt.Println(res.Obs)
	code := 0
	for _, x := range res.V {
		fmt.Printf("  %s/%s: %s\n", x.Property, x.Key, x.What)
		if rt.HasProp(x.Property, prop) {
			code = 1
		}
	}
	if code == 1 {
		fmt.Printf("VIOLATION property=%s replay=%s\n", prop, path)
	} else {
		fmt.Println("no violation of", prop, "on replay")
	}
	return code, true
}

func runSched(c *rt.Ctx, prop string, names []string, bound int) {
	for _, n := range names {
		if f := os.Getenv("VERIF_DEV_SCN"); f != "" && !strings.Contains(n, f) { // development aid
			continue
		}
		if c.Expired() {
			c.Exhaustive = false
			return
		}
		st := sched.Explore(c, prop, n, bound)
		sched.Report(c, n, bound, st)
		fmt.Printf("  schedules %-32s bound %d/%d executions %d outcomes %d overlapping %d complete=%v\n", n, st.BoundDone, bound, st.Executions, len(st.Outcomes), st.Collisions, st.Complete)
	}
}

// runSchedAll: bounded search (as runSched) followed by the unbounded search with state pruning, per scenario.
func runSchedAll(c *rt.Ctx, prop string, names []string, bound int) {
	for _, n := range names {
		if f := os.Getenv("VERIF_DEV_SCN"); f != "" && !strings.Contains(n, f) { // development aid
			continue
		}
		if c.Expired() {
			c.Exhaustive = false
			return
		}
		st := sched.Stats{Complete: true}
		if os.Getenv("VERIF_DEV_E1ALLONLY") == "" { // development aid: the unbounded search alone
			st = sched.Explore(c, prop, n, bound)
			sched.Report(c, n, bound, st)
			fmt.Printf("  schedules %-32s bound %d/%d executions %d outcomes %d overlapping %d complete=%v\n", n, st.BoundDone, bound, st.Executions, len(st.Outcomes), st.Collisions, st.Complete)
		}
		if sc := schedScns[n]; sc == nil || sc.custom != nil || !st.Complete {
			continue
		}
		all := sched.ExploreAll(c, prop, n, st.Outcomes)
		sched.ReportAll(c, n, all)
		fmt.Printf("  schedules %-32s unbounded  executions %d state-keys %d cut %d outcomes %d max-preemptions %d complete=%v\n", n, all.Executions, all.States, all.Pruned, len(all.Outcomes), all.MaxPre, all.Complete)
	}
}

// RacePass runs every E1 scenario of a property free-running n times (binary built with -race); data race reports go
// to stderr and are counted by the caller. Information only: no property quantifies over data races.
func RacePass(prop string, n int) int {
	runs := 0
	var names []string
	for name, sc := range schedScns {
		if sc.prop == prop && sc.custom == nil {
			names = append(names, name)
		}
	}
	sort.Strings(names)
	for _, name := range names {
		sc := schedScns[name]
		for i := 0; i < n; i++ {
			func() {
				dir, _ := os.MkdirTemp(rt.ScratchRoot(), "race-")
				defer os.RemoveAll(dir)
				w, err := mintops.New(dir, mintops.Config{Fee: sc.fee})
				if err != nil {
					return
				}
				defer w.Close()
				s := sched.New(nil)
				x := &schedX{scn: sc.name, w: w, s: s, swapOK: map[int]int{}, meltOf: map[int][]int{}, meltPay: map[int][]payAns{}, meltErr: map[int]string{}, mintOK: map[int]int{}, mintSum: map[int]uint64{}, mintEarly: map[int]bool{}}
				x.freeRun = true
				sc.setup(x)
				s.RunFree()
				runs++
			}()
		}
	}
	return runs
}
