package props

import (
	"fmt"
	"strings"
	"time"

	"verif/harness/bfs"
	"verif/harness/mintops"
	"verif/harness/rt"
)

// C15 — state check and restore tell the truth. E3 over mint/swap/melt/rotation/restart histories; in every state
// both query endpoints are asked every query of a small exhaustive family (Go API and HTTP handler).

func c15Menu(w *mintops.W) []string {
	var ops []string
	np := cap2(len(w.Proofs), 3)
	for i := 0; i < np; i++ {
		ops = append(ops, fmt.Sprintf("swap|%d|exact", i), fmt.Sprintf("swap|%dw|exact", i))
		if i == 0 {
			// outputs whose B_ is spelled in upper-case hex: what is signed must be restorable under the spelling used
			ops = append(ops, "swap|0|upperB")
		}
	}
	if np >= 2 {
		// two inputs in one request: none, the first, the second with a witness (each must be reported with its own)
		ops = append(ops, "swap|0,1|exact", "swap|0w,1|exact", "swap|0,1w|exact")
	}
	if len(w.Melts) < 2 {
		ops = append(ops, "meltq|4")
		for qi, q := range w.Quotes {
			if qi > 0 && q.Payments == 0 {
				ops = append(ops, fmt.Sprintf("meltqi|%d", qi))
			}
		}
	}
	for j, m := range w.Melts {
		if m.Known == "" || m.Known == "failure" {
			for i := 0; i < cap2(np, 2); i++ {
				ops = append(ops, fmt.Sprintf("melt|%d|%d|S", j, i), fmt.Sprintf("melt|%d|%d|P", j, i), fmt.Sprintf("melt|%d|%d|F|N", j, i), fmt.Sprintf("melt|%d|%d|E|S", j, i))
			}
			// an input that carries a witness: it must be reported with it whichever path marks it spent
			ops = append(ops, fmt.Sprintf("melt|%d|0w|S", j), fmt.Sprintf("melt|%d|0w|P", j))
			if np >= 3 {
				ops = append(ops, fmt.Sprintf("melt|%d|1,2|P", j), fmt.Sprintf("melt|%d|1w,2|P", j), fmt.Sprintf("melt|%d|1w,2|S", j))
			}
		}
		if m.Known == "none" {
			ops = append(ops, fmt.Sprintf("pollm|%d|S", j), fmt.Sprintf("pollm|%d|F", j), "check|0,1,2|S", "check|0,1,2|F")
		}
	}
	if len(w.Quotes) < 3 {
		ops = append(ops, "mq|8")
	}
	for qi, q := range w.Quotes {
		if qi == 0 {
			continue
		}
		if q.Payments == 0 {
			ops = append(ops, fmt.Sprintf("settle|%d", qi))
		}
		ops = append(ops, fmt.Sprintf("mint|%d|exact", qi), fmt.Sprintf("mint|%d|same", qi), fmt.Sprintf("mint|%d|upperB", qi))
	}
	if len(w.Keysets) < 2 {
		ops = append(ops, "rotate|100")
	}
	// the same restore request (bytes) at several moments of the history, while its outputs get signed
	if w.HRestores < 2 {
		ops = append(ops, "hrestore")
	}
	ops = append(ops, "restart")
	return ops
}

func c15Probe(maxLen int) func(w *mintops.W) {
	return func(w *mintops.W) {
		// state-check family
		alpha := []string{}
		for i := 0; i < cap2(len(w.Proofs), 3); i++ {
			alpha = append(alpha, w.Proofs[i].Y)
		}
		alpha = append(alpha, mintops.UnknownY, mintops.NotAPointY, mintops.NonHexY)
		for _, q := range mintops.Seqs(alpha, maxLen) {
			w.QueryStates(q, false)
			w.QueryStates(q, true)
		}
		// the same points spelled in upper-case hex
		for i := 0; i < cap2(len(w.Proofs), 3); i++ {
			u := strings.ToUpper(w.Proofs[i].Y)
			for _, q := range [][]string{{u}, {w.Proofs[i].Y, u}} {
				w.QueryStates(q, false)
				w.QueryStates(q, true)
			}
		}
		// restore family: first two signed, first two never signed, unknown, malformed
		var bs []string
		ns, nu := 0, 0
		for _, o := range w.Outs {
			if o.Signed && ns < 2 {
				bs = append(bs, o.O.Msg.B_)
				ns++
			} else if !o.Signed && nu < 2 {
				bs = append(bs, o.O.Msg.B_)
				nu++
			}
		}
		// plus the most recently signed one (issued on the latest code path)
		for i := len(w.Outs) - 1; i >= 0; i-- {
			if w.Outs[i].Signed {
				dup := false
				for _, b := range bs {
					if b == w.Outs[i].O.Msg.B_ {
						dup = true
					}
				}
				if !dup {
					bs = append(bs, w.Outs[i].O.Msg.B_)
				}
				break
			}
		}
		bs = append(bs, mintops.UnknownB, "zz")
		for _, q := range mintops.Seqs(bs, maxLen) {
			w.QueryRestore(q, false)
			w.QueryRestore(q, true)
		}
		// the same endpoints with a storage error injected at each read call of one whole-alphabet query
		w.QueryUnderReadFaults(false, alpha[:len(alpha)-2])
		w.QueryUnderReadFaults(true, bs[:len(bs)-1])
	}
}

func c15OwnSpecs(quick bool) []*bfs.Spec {
	// state checks over more than a thousand Ys with the used ones at the front, in the middle and at the end
	large := &bfs.Spec{Prop: "C15", Name: "C15-large-queries", Cfg: mintops.Config{Fee: 0}, Init: largeRequestHistory(), Depth: 0}
	if quick {
		return []*bfs.Spec{{Prop: "C15", Name: "C15-seq-q", Cfg: mintops.Config{Fee: 0}, Init: []string{"fund|8,8,8"}, Menu: c15Menu, Probe: c15Probe(2), Depth: 4}, large}
	}
	return []*bfs.Spec{large,
		{Prop: "C15", Name: "C15-seq-fee0", Cfg: mintops.Config{Fee: 0}, Init: []string{"fund|8,8,8"}, Menu: c15Menu, Probe: c15Probe(3), Depth: 5},
		{Prop: "C15", Name: "C15-seq-fee100", Cfg: mintops.Config{Fee: 100}, Init: []string{"fund|8,8,8"}, Menu: c15Menu, Probe: c15Probe(2), Depth: 4},
	}
}

var c15All = specMap(c15Specs(true), c15Specs(false))

func init() {
	register(&Prop{ID: "C15", Level: "model_checking", QuickBudget: 300 * time.Second, ThoroughBudget: 25 * time.Minute,
		Run: func(c *rt.Ctx) {
			c.Cov["rule"] = "E3: every history up to the depth bound over {swap (plain / with witness / two inputs), melt quote (external, internal), melt x {Succeeded, Pending, Failed->NotFound, error->Succeeded}, poll / state check x {Succeeded, Failed}, mint quote, settle, mint (fresh, same outputs), rotate, restart} over 3 proofs, 2 mint quotes, 2 melt quotes; in every distinct state ProofsStateCheck is asked every sequence of length 1..L over {Y of each tracked proof, unknown point, not-a-point, non-hex} and RestoreSignatures every sequence of length 1..L over {signed B_, refused B_, latest signed B_, unknown B_, malformed}, through the Go API and the HTTP handler, and compared with the reference model that is fed only from responses; melts also with an input that carries a witness (settled directly and through a later poll); in every state one whole-alphabet query per endpoint is repeated with a storage error injected at each of its read calls: the answer must be an error or identical to the fault-free one"
			runSpecs(c, c15Specs(c.Quick()))
			c.Cov["rule_schedules"] = "E1 (beyond the statement's quantifier; scenario bodies of C01): melts, polls and swaps overlapping on one quote / one proof; in every execution a proof consumed by a melt whose payment succeeded or is in flight is reported SPENT or PENDING by the final state check"
			if c.Quick() {
				runSched(c, "C15", []string{"S6-pendingmelt-poll-swap", "S10-melt-poll-swap", "S12f-meltfails-remelt-swap"}, 2)
			} else {
				runSchedAll(c, "C15", []string{"S6-pendingmelt-poll-swap", "S10-melt-poll-swap", "S12f-meltfails-remelt-swap"}, 2)
			}
		},
		Worker: dispatchWorker(bfs.Worker(c15All)),
		Replay: func(p string) int {
			if code, ok := replaySched("C15", p); ok {
				return code
			}
			return bfs.ReplayFile("C15", c15All, p)
		},
	})
}

// c15Specs: the property's own searches plus the shallow search over the union of all mint-level menus (seqcommon.go).
func c15Specs(quick bool) []*bfs.Spec {
	return append(c15OwnSpecs(quick), unionSpecs("C15", c15Probe(2), quick)...)
}
