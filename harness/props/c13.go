package props

// C13 — "HTLC locks: spendable only with the preimage and required signatures (NUT-14)".
//
// Engine E4 (DESIGN.md §3.5 and "### C13"); the lock machinery (keys, secret rendering, the interpreter of
// the statement lkRef, the real-mint runner) lives in c12.go.
//
//   Layer 1: HTLC configuration × (preimage kind × signature kind), nut14.VerifyHTLCProof vs lkRef.
//   Layer 2: every configuration the library helper can serve (n_sigs <= 1) through Mint.Swap with the
//            witness made by nut14.AddWitnessHTLC and, under SIG_ALL, nut14.AddWitnessHTLCToOutputs;
//            must-reject variants (one output unsigned, wrong preimage on one output, no witness, …).

import (
	"encoding/hex"
	"encoding/json"
	"fmt"
	"strings"
	"time"

	"github.com/elnosh/gonuts/cashu"
	"github.com/elnosh/gonuts/cashu/nuts/nut10"
	"github.com/elnosh/gonuts/cashu/nuts/nut14"

	"verif/harness/ref"
	"verif/harness/rt"
)

func init() {
	register(&Prop{ID: "C13", Level: "exploration", QuickBudget: 90 * time.Second, ThoroughBudget: 15 * time.Minute,
		Run: runC13, Worker: workerC13, Replay: replayC13})
}

// Stable key of the defect known from reading the code (helper signs the hex TEXT of B_).
const c13KeyHelperOutputs = "C13/helper-output-witness-rejected"

var (
	c13Hashes  = []string{"lower", "upper", "short62", "nonhex64"}
	c13NSigs   = []int{-1, 0, 1, 2, 3}
	c13PubSets = [][]string{nil, {"K1"}, {"K1", "K2"}, {"K1", "K2", "K3"}}

	c13Preimages = []string{"right", "wrong", "non-hex", "empty", "right-upper-case", "absent-witness", "garbage-json", "right+non-hex-suffix", "right+odd-digit", "right+space-text"}
	c13SigKinds  = []string{"none", "one-listed-key", "foreign-key", "duplicate", "two-by-one-key", "threshold", "threshold-minus-1", "refund-key", "one-key-padded"}
)

// c13Degenerate: a key listed twice (two signatures by it count once).
var c13Degenerate = []lkCfg{
	{Kind: "HTLC", Data: "lower", NSigs: 2, PubTag: true, Pubkeys: []string{"K1", "K1"}},
	{Kind: "HTLC", Data: "lower", NSigs: 3, PubTag: true, Pubkeys: []string{"K1", "K2", "K2"}},
}

func c13Configs() []lkCfg {
	var out []lkCfg
	for _, lt := range c12Locks {
		for _, rf := range c12Refunds {
			for _, sf := range c12Sigflags {
				for _, h := range c13Hashes {
					for _, n := range c13NSigs {
						for _, pk := range c13PubSets {
							out = append(out, lkCfg{Kind: "HTLC", Data: h, NSigs: n, PubTag: len(pk) > 0, Pubkeys: pk, Lock: lt, Refund: rf, Sigflag: sf})
						}
					}
				}
			}
		}
	}
	for _, d := range c13Degenerate {
		for _, lt := range c12Locks {
			for _, rf := range c12Refunds[:2] {
				c := d
				c.Lock, c.Refund = lt, rf
				out = append(out, c)
			}
		}
	}
	return out
}

// c13SigShape: the signature entries of a kind (labels, see lkSigEntry).
func c13SigShape(kind string, cfg lkCfg) []string {
	A := cfg.authLabels()
	t := cfg.threshold()
	x := "K1"
	if len(A) > 0 {
		x = A[0]
	}
	first := func(n int) []string {
		if n > len(A) {
			n = len(A)
		}
		if n < 0 {
			n = 0
		}
		return append([]string{}, A[:n]...)
	}
	switch kind {
	case "none":
		return []string{}
	case "one-listed-key":
		return []string{x}
	case "foreign-key":
		return []string{"F"}
	case "duplicate":
		return []string{x, x}
	case "two-by-one-key":
		return []string{x, x + "#1"}
	case "threshold":
		return first(t)
	case "threshold-minus-1":
		return first(t - 1)
	case "refund-key":
		return []string{"R1"}
	case "one-key-padded":
		d := t - 1
		if d > len(A) {
			d = len(A)
		}
		e := first(d)
		if len(e) == 0 {
			e = []string{x}
		}
		last := e[len(e)-1]
		total := t
		if total < 2 {
			total = 2
		}
		for i := 1; len(e) < total; i++ {
			e = append(e, fmt.Sprintf("%s#%d", last, i))
		}
		return e
	}
	panic("c13: unknown signature kind " + kind)
}

func c13PreimageText(kind string) string {
	switch kind {
	case "right", "garbage-json":
		return lkPreimageRight
	case "wrong":
		return lkPreimageWrong
	case "non-hex":
		return "zz" + lkPreimageRight[2:]
	case "empty":
		return ""
	case "right-upper-case":
		return strings.ToUpper(lkPreimageRight)
	case "right+non-hex-suffix": // not a hex string at all, but a lenient decoder returns the right bytes before the error
		return lkPreimageRight + "zz"
	case "right+odd-digit":
		return lkPreimageRight + "0"
	case "right+space-text":
		return lkPreimageRight + " any text"
	}
	return ""
}

// c13Witness renders the witness of (preimage kind, signature kind) and a shape used to recognise duplicates.
func c13Witness(pk, sk string, cfg lkCfg, secret string, v *lkVerifier) (witness, shape string) {
	if pk == "absent-witness" {
		return "", "absent"
	}
	entries := c13SigShape(sk, cfg)
	msg := lkSha([]byte(secret))
	sigs := make([]string, len(entries))
	for i, e := range entries {
		sigs[i] = v.sig(e, msg)
	}
	w := lkWitnessJSON("HTLC", c13PreimageText(pk), sigs)
	shape = "preimage=" + pk + " sigs:" + strings.Join(entries, ",")
	if pk == "garbage-json" {
		w = strings.TrimSuffix(w, "]}") // cut off: not JSON any more
		if len(entries) == 0 {
			w = strings.TrimSuffix(w, "[")
		}
	}
	return w, shape
}

func c13KeyL1(cfg lkCfg, pk, sk string, expectAccept, panicked bool) string {
	pre := "C13/layer1/"
	if panicked {
		return pre + "panic/preimage=" + pk + "/sigs=" + sk
	}
	if expectAccept {
		return pre + "valid-witness-rejected/preimage=" + pk + "/sigs=" + sk + "/" + cfg.phase()
	}
	if cfg.phase() == "after-locktime-refund" {
		return pre + "refund-rule/accepted-without-refund-signature/" + lkWitGroup(sk)
	}
	if cfg.Data == "short62" || cfg.Data == "nonhex64" {
		return pre + "accepted/lock-value-not-32-bytes/hash=" + cfg.Data
	}
	if pk != "right" && pk != "right-upper-case" {
		return pre + "accepted-with-bad-preimage/preimage=" + pk
	}
	switch sk {
	case "two-by-one-key", "one-key-padded":
		return pre + "one-key-counted-twice/" + cfg.class()
	case "duplicate":
		return pre + "same-signature-counted-twice/" + cfg.class()
	}
	return pre + "accepted-without-required-signatures/" + lkWitGroup(sk) + "/" + cfg.class()
}

type c13L1Replay struct {
	Layer    int    `json:"layer"`
	Cfg      lkCfg  `json:"cfg"`
	Witness  string `json:"witness_kind"` // "<preimage kind>|<signature kind>"
	Secret   string `json:"secret_rendered"`
	WitText  string `json:"witness_rendered"`
	Expected string `json:"expected"`
	Observed string `json:"observed"`
}

func c13EvalL1(cfg lkCfg, pk, sk string, now int64, v *lkVerifier) (secret, witness, shape string, vd lkVerdict, observed string, err error) {
	secret = cfg.Render(lkNonce("c13-l1", cfg.ID()), now)
	ws, derr := nut10.DeserializeSecret(secret)
	if derr != nil {
		return "", "", "", vd, "", fmt.Errorf("rendered secret is not NUT-10: %v (%s)", derr, secret)
	}
	witness, shape = c13Witness(pk, sk, cfg, secret, v)
	vd = lkRef(secret, witness, now, v)
	var ierr error
	if p := lkSafe(func() {
		ierr = nut14.VerifyHTLCProof(cashu.Proof{Amount: 1, Id: "00", Secret: secret, C: "02", Witness: witness}, ws)
	}); p != "" {
		return secret, witness, shape, vd, "panic: " + p, nil
	}
	if ierr == nil {
		return secret, witness, shape, vd, "accept", nil
	}
	return secret, witness, shape, vd, "reject: " + ierr.Error(), nil
}

func c13Layer1(c *rt.Ctx, now int64) {
	cfgs := c13Configs()
	st := newLkStats()
	viol := make([][]rt.Violation, len(cfgs))
	upper := map[string]int64{}
	rt.ParallelFor(len(cfgs), func(i int) {
		if c.Expired() {
			return
		}
		cfg := cfgs[i]
		v := newLkVerifier()
		loc := newLkStats()
		locUpper := map[string]int64{}
		for _, pk := range c13Preimages {
			for _, sk := range c13SigKinds {
				secret, witness, shape, vd, obs, err := c13EvalL1(cfg, pk, sk, now, v)
				if err != nil {
					rt.HarnessError("C13 layer 1: %v", err)
				}
				loc.Evals++
				implAccept := obs == "accept"
				if implAccept {
					loc.ImplAccept++
				} else {
					loc.ImplReject++
				}
				panicked := strings.HasPrefix(obs, "panic")
				if vd.DontCare && !panicked {
					loc.Dont++
					why := lkDontClass(vd.Why)
					loc.DontByWhy[why]++
					loc.DontOutcome[strings.SplitN(obs, ":", 2)[0]]++
					if strings.Contains(why, "upper-case") {
						locUpper[strings.SplitN(obs, ":", 2)[0]]++
					}
					continue
				}
				c.Distinct("L1|" + cfg.ID() + "|" + shape)
				if vd.Accept {
					loc.Accept++
				} else {
					loc.Reject++
				}
				if panicked || implAccept != vd.Accept {
					key := c13KeyL1(cfg, pk, sk, vd.Accept, panicked)
					what := fmt.Sprintf("layer 1: %s; witness preimage=%s sigs=%s (%s): statement says %s (%s), nut14.VerifyHTLCProof -> %s; secret=%s witness=%s",
						cfg.ID(), pk, sk, shape, vd, vd.Why, obs, secret, witness)
					viol[i] = append(viol[i], rt.Violation{Key: key, What: what, Replay: c13L1Replay{Layer: 1, Cfg: cfg, Witness: pk + "|" + sk, Secret: secret, WitText: witness, Expected: vd.String(), Observed: obs}})
				}
				if (i == 6 || i == 9) && sk == "one-listed-key" && (pk == "right" || pk == "wrong") {
					c.Sample(map[string]any{"layer": 1, "cfg": cfg.ID(), "preimage_kind": pk, "signature_kind": sk, "secret": secret, "witness": witness, "statement": vd.String(), "why": vd.Why, "implementation": obs})
				}
			}
		}
		loc.Verifications = v.N
		st.merge(loc)
		st.mu.Lock()
		for k, n := range locUpper {
			upper[k] += n
		}
		st.mu.Unlock()
	})
	for _, vs := range viol {
		for _, v := range vs {
			c.AddViolation(v)
		}
	}
	c.Count("evaluations", st.Evals)
	c.Cov["layer1_configurations"] = len(cfgs)
	c.Cov["layer1_witnesses"] = len(c13Preimages) * len(c13SigKinds)
	c.Cov["layer1_cases"] = st.Evals
	c.Cov["layer1_defined_accept"] = st.Accept
	c.Cov["layer1_defined_reject"] = st.Reject
	c.Cov["layer1_dontcare"] = st.Dont
	c.Cov["layer1_dontcare_by_reason"] = st.DontByWhy
	c.Cov["layer1_dontcare_impl_outcomes"] = st.DontOutcome
	c.Cov["layer1_uppercase_lock_value_right_preimage_impl_outcomes(information)"] = upper
	c.Cov["layer1_impl_accept"] = st.ImplAccept
	c.Cov["layer1_impl_reject"] = st.ImplReject
	c.Cov["layer1_independent_bip340_verifications"] = st.Verifications
	if st.Accept == 0 || st.Reject == 0 {
		c.Cov["layer1_vacuous"] = true
	}
}

// =============================================================================================
// Layer 2
// =============================================================================================

type c13Case struct {
	Cfg  lkCfg  `json:"cfg"`
	Kind string `json:"kind"`
}

func (cs c13Case) ID() string { return cs.Cfg.ID() + "|" + cs.Kind }

var (
	c13KindsPlain  = []string{"helper", "no-witness", "wrong-preimage", "missing-signature"}
	c13KindsSigAll = []string{"helper", "helper-one-output-unsigned", "helper-wrong-preimage-on-one-output",
		"harness-outputs", "harness-one-output-unsigned", "harness-wrong-preimage-on-one-output", "harness-outputs-foreign-key",
		// one output's witness has the signature but no "preimage" member at all (the other output has the right one)
		"harness-last-output-preimage-member-absent", "harness-first-output-preimage-member-absent",
		"no-witness", "wrong-preimage", "missing-signature"}
)

func c13L2Cases() (cases []c13Case, tooLong int) {
	// configurations with a threshold set come first: they are the unambiguous representatives of a finding
	all := c13Configs()
	var cfgs []lkCfg
	for _, pass := range []bool{true, false} {
		for _, cfg := range all {
			if (cfg.NSigs == 1) == pass {
				cfgs = append(cfgs, cfg)
			}
		}
	}
	for _, cfg := range cfgs {
		if cfg.Data != "lower" || cfg.NSigs > 1 || (cfg.NSigs == 1 && len(cfg.Pubkeys) == 0) || len(lkDedupe(cfg.Pubkeys)) != len(cfg.Pubkeys) {
			continue // the helper serves n_sigs <= 1 with the signing key listed
		}
		if lkTooLong(cfg) {
			tooLong++
			continue
		}
		kinds := c13KindsPlain
		if cfg.Sigflag == "SIG_ALL" {
			kinds = c13KindsSigAll
		}
		for _, k := range kinds {
			if k == "missing-signature" && cfg.NSigs != 1 {
				continue
			}
			cases = append(cases, c13Case{Cfg: cfg, Kind: k})
		}
	}
	return
}

// c13HarnessOutputs: output witnesses made by the harness: preimage + signature of signer over SHA-256 of the
// hex-DECODED B_ (what nut11.AddSignatureToOutputs signs and what the mint verifies).
func c13HarnessOutputs(msgs cashu.BlindedMessages, preimage, signer string) cashu.BlindedMessages {
	out := append(cashu.BlindedMessages{}, msgs...)
	for i := range out {
		B, _ := hex.DecodeString(out[i].B_)
		out[i].Witness = lkWitnessJSON("HTLC", preimage, []string{lkSign(signer, lkSha(B), 0)})
	}
	return out
}

// c13HonestSpendable: may an honest holder of the preimage and of K1 spend a proof locked with cfg (single input)?
// accept / reject / dontcare, derived from the CONFIGURATION (not from what the helper produced).
func c13HonestSpendable(cfg lkCfg) string {
	switch cfg.phase() {
	case "after-locktime-refund":
		return "reject" // only a refund key may sign; K1 is none
	case "after-locktime-no-refund":
		if cfg.Sigflag == "SIG_ALL" {
			return "dontcare"
		}
		return "accept"
	}
	if cfg.Sigflag == "SIG_ALL" && len(cfg.Pubkeys) == 0 {
		return "dontcare" // SIG_ALL without any signer key: the statement does not say what outputs must carry
	}
	return "accept"
}

type c13Runner struct{ *c12Runner }

func (r *c13Runner) run(cs c13Case) (lkCaseRes, error) {
	fam := "htlc"
	if cs.Cfg.Sigflag == "SIG_ALL" {
		fam = "htlc-sigall"
	}
	res := lkCaseRes{ID: cs.ID(), Family: fam + "/" + cs.Kind}
	cfg := cs.Cfg
	if cfg.ID() != r.last {
		r.last = cfg.ID()
		r.bank.dropLocked("L|" + r.last)
		if len(r.v.cache) > 4000 || len(r.v.sigs) > 4000 {
			r.v = newLkVerifier()
		}
	}
	slot := "L|" + cfg.ID() + "|8"
	p, err := r.bank.get(slot, 8, func() string { return cfg.Render(r.x.nonce(), r.now) })
	if err != nil {
		return res, fmt.Errorf("minting the locked proof: %v", err)
	}
	ws, err := nut10.DeserializeSecret(p.Secret)
	if err != nil {
		return res, err
	}
	p.Witness = ""
	k1 := lkK("K1").Priv
	helperInputs := func(preimage string) error {
		ps, err := nut14.AddWitnessHTLC(cashu.Proofs{p}, ws, preimage, k1)
		if err != nil {
			return fmt.Errorf("AddWitnessHTLC refused a servable configuration: %v", err)
		}
		p = ps[0]
		return nil
	}
	switch cs.Kind {
	case "no-witness":
	case "wrong-preimage":
		err = helperInputs(lkPreimageWrong)
	case "missing-signature":
		p.Witness = lkWitnessJSON("HTLC", lkPreimageRight, nil)
	default:
		err = helperInputs(lkPreimageRight)
	}
	if err != nil {
		return res, err
	}
	ins := cashu.Proofs{p}
	outs := r.x.outputsFor(ins)
	sigAll := cfg.Sigflag == "SIG_ALL"
	if sigAll {
		base := cs.Kind
		if !strings.HasPrefix(base, "helper") && !strings.HasPrefix(base, "harness") {
			base = "helper" // the input-side must-reject cases get honest outputs
		}
		if strings.HasPrefix(base, "helper") {
			if outs, err = nut14.AddWitnessHTLCToOutputs(outs, lkPreimageRight, k1); err != nil {
				return res, err
			}
		} else if base == "harness-outputs-foreign-key" {
			outs = c13HarnessOutputs(outs, lkPreimageRight, "F")
		} else {
			outs = c13HarnessOutputs(outs, lkPreimageRight, "K1")
		}
		switch {
		case strings.HasSuffix(base, "one-output-unsigned"):
			outs[len(outs)-1].Witness = ""
		case strings.HasSuffix(base, "output-preimage-member-absent"):
			k := len(outs) - 1
			if strings.Contains(base, "first-output") {
				k = 0
			}
			B, _ := hex.DecodeString(outs[k].B_)
			outs[k].Witness = lkWitnessJSON("P2PK", "", []string{lkSign("K1", lkSha(B), 0)})
		case strings.HasSuffix(base, "wrong-preimage-on-one-output"):
			one := cashu.BlindedMessages{outs[0]}
			if strings.HasPrefix(base, "helper") {
				if one, err = nut14.AddWitnessHTLCToOutputs(one, lkPreimageWrong, k1); err != nil {
					return res, err
				}
			} else {
				one = c13HarnessOutputs(one, lkPreimageWrong, "K1")
			}
			outs[0] = one[0]
		}
	}
	byData := lkExpect("swap", ins, outs, r.now, r.v)
	res.Expected = byData
	honest := ""
	if cs.Kind == "helper" {
		// what the statement promises for the library's own witness depends on the configuration only
		honest = c13HonestSpendable(cfg)
		switch honest {
		case "accept":
			res.Expected.lkVerdict = lkVerdict{Accept: true, Why: "witness produced by the library's HTLC helpers for a condition they can serve"}
		case "dontcare":
			res.Expected.lkVerdict = lkVerdict{Accept: true, DontCare: true, Why: "; SIG_ALL without signer key / after the locktime: not defined"}
		}
	}
	res.Observed = r.x.swap(ins, outs)
	if res.Observed == "accept" || strings.HasPrefix(res.Observed, "panic") {
		r.bank.consumed([]string{slot})
	}
	res.Detail = map[string]any{"layer": 2, "case": cs.ID(), "input_witness": p.Witness, "output_witness_0": outs[0].Witness, "B_0": outs[0].B_,
		"statement": res.Expected.String(), "why": res.Expected.Why, "interpreter_on_produced_witness": byData.String() + ": " + byData.Why, "mint": res.Observed}
	panicked := strings.HasPrefix(res.Observed, "panic")
	if panicked || (!res.Expected.DontCare && (res.Observed == "accept") != res.Expected.Accept) {
		res.What = fmt.Sprintf("layer 2 Mint.Swap: %s, case %s: statement says %s (%s); interpreter on the produced witnesses: %s (%s); mint -> %s; input witness=%s; output[0] B_=%s witness=%s",
			cfg.ID(), cs.Kind, res.Expected, res.Expected.Why, byData, byData.Why, res.Observed, p.Witness, outs[0].B_, outs[0].Witness)
		switch {
		case panicked:
			res.VKey = "C13/layer2/panic/" + cs.Kind
		case res.Observed == "accept":
			res.VKey = "C13/layer2/" + cs.Kind + "-accepted/" + cfg.phase()
		case cs.Kind == "helper" && sigAll && strings.HasPrefix(byData.Why, "SIG_ALL: output"):
			res.VKey = c13KeyHelperOutputs
		case cs.Kind == "helper" && !byData.Accept:
			res.VKey = "C13/helper-input-witness-rejected/" + cfg.phase()
		case cs.Kind == "helper":
			res.VKey = "C13/layer2/helper-witness-rejected-by-mint/" + fam + "/" + cfg.phase()
		default:
			res.VKey = "C13/layer2/" + cs.Kind + "-rejected/" + cfg.phase()
		}
	}
	return res, nil
}

type c13Job struct {
	Now   int64
	Tag   string
	Cases []c13Case
}

func workerC13(job json.RawMessage) (any, error) {
	var j c13Job
	if err := json.Unmarshal(job, &j); err != nil {
		return nil, err
	}
	out := &lkJobRes{DontByWhy: map[string]int64{}, ByFamily: map[string][2]int64{}}
	r12, err := newC12Runner(j.Tag, j.Now)
	if err != nil {
		out.Err = err.Error()
		return out, nil
	}
	r := &c13Runner{r12}
	defer r.x.close()
	for _, cs := range j.Cases {
		cr, err := r.run(cs)
		if err != nil {
			out.Err = fmt.Sprintf("case %s: %v", cs.ID(), err)
			break
		}
		out.add("C13", cr, map[string]any{"layer": 2, "case": cs})
	}
	out.MintOps = r.x.Ops
	return out, nil
}

func runC13(c *rt.Ctx) {
	if err := ref.SelfTest(); err != nil {
		rt.HarnessError("C13: reference secp256k1 self-test: %v", err)
	}
	if err := lkSelfTest(); err != nil {
		rt.HarnessError("C13: evaluator self-validation failed: %v", err)
	}
	now := time.Now().Unix()
	c.Cov["rule"] = "layer 1: nested loops over HTLC configuration (lock value spelling x n_sigs x pubkeys x locktime x refund x sigflag, plus key lists with a repeated key) x witness (preimage kind x signature kind), each evaluated by nut14.VerifyHTLCProof and by the harness interpreter of the statement (own tag parsing, SHA-256 of the hex-decoded preimage against the 32-byte lock value, own BIP340 verification); layer 2: every configuration the library helper can serve (n_sigs <= 1, signing key listed) as a really signed proof through Mint.Swap with the witness made by nut14.AddWitnessHTLC / AddWitnessHTLCToOutputs, plus must-reject variants (no witness, wrong preimage, signature missing, one output unsigned, wrong preimage on one output, outputs signed by a foreign key) and harness-made output witnesses as a control. A case is distinct by (configuration, rendered witness shape) in layer 1 and by (configuration, case kind) in layer 2, and non-trivial only if the statement defines its outcome (malformed tags, witnesses repeating a signature text that otherwise satisfy the threshold, a lock value spelled in upper-case hex together with an otherwise valid witness, SIG_ALL after the locktime or without any signer key are executed and counted as don't-care, never compared)"
	c.Cov["alphabet"] = map[string]any{
		"lock_value": c13Hashes, "n_sigs": []string{"absent", "0", "1", "2", "3"}, "pubkeys": []string{"absent", "[K1]", "[K1,K2]", "[K1,K2,K3]"},
		"locktime": []string{"absent", "past(now-10^6)", "future(now+10^6)"}, "refund": []string{"absent", "[R1]", "[R1,R2]"}, "sigflag": []string{"absent", "SIG_INPUTS", "SIG_ALL"},
		"degenerate_key_lists": len(c13Degenerate), "preimage_kinds": c13Preimages, "signature_kinds": c13SigKinds,
		"layer2_kinds_plain": c13KindsPlain, "layer2_kinds_sigall": c13KindsSigAll,
	}
	c.Assume("BIP340 verification of the evaluator is the harness's own math/big implementation, validated at start-up against BIP340 test vector 0 and against btcec-made signatures of all seven keys")
	c.Assume("locktimes are now-10^6 s / now+10^6 s: no outcome depends on the wall clock")
	c.Assume("a lock value written in upper-case hex denotes the same 32 bytes: accepting it with the right preimage is neither demanded nor forbidden")
	t0 := time.Now()
	lkLibSerializer(c, "C13", "HTLC", now)
	c13Layer1(c, now)
	c.Cov["layer1_wall_s"] = time.Since(t0).Seconds()
	t1 := time.Now()
	defer func() { c.Cov["layer2_wall_s"] = time.Since(t1).Seconds() }()
	if c.Expired() {
		return
	}
	cases, tooLong := c13L2Cases()
	c.Cov["layer2_configurations_skipped_secret_above_512_bytes"] = tooLong
	chunks := lkChunk(cases, 48)
	jobs := make([]any, len(chunks))
	for i, ch := range chunks {
		jobs[i] = c13Job{Now: now, Tag: fmt.Sprintf("c13-%d", i), Cases: ch}
	}
	tot := lkMergeJobs(c, "C13", jobs)
	c.Cov["layer2_cases"] = tot.Evals
	c.Cov["layer2_defined_accept"] = tot.Accept
	c.Cov["layer2_defined_reject"] = tot.Reject
	c.Cov["layer2_dontcare"] = tot.Dont
	c.Cov["layer2_dontcare_by_reason"] = tot.DontByWhy
	c.Cov["layer2_mint_accept"] = tot.ImplAccept
	c.Cov["layer2_mint_reject"] = tot.ImplReject
	c.Cov["layer2_by_family"] = lkFamilyCov(tot.ByFamily)
	c.Cov["mint_operations"] = tot.MintOps
	c.Cov["layer2_jobs"] = len(jobs)
	if tot.Accept == 0 || tot.Reject == 0 || tot.ImplAccept == 0 || tot.ImplReject == 0 {
		c.Cov["layer2_vacuous"] = true
	}
}

func replayC13(path string) int {
	f, err := lkReadReplay(path)
	if err != nil {
		fmt.Println("replay: cannot read", path, err)
		return 2
	}
	now := time.Now().Unix()
	fmt.Printf("replay %s key=%s\n", f.Property, f.Key)
	if f.Replay.Layer == 1 {
		parts := strings.SplitN(f.Replay.Witness, "|", 2)
		if len(parts) != 2 {
			fmt.Println("replay: bad witness kind", f.Replay.Witness)
			return 2
		}
		secret, witness, shape, vd, obs, err := c13EvalL1(f.Replay.Cfg, parts[0], parts[1], now, newLkVerifier())
		if err != nil {
			fmt.Println("replay:", err)
			return 2
		}
		fmt.Printf("  configuration: %s\n  secret: %s\n  witness (%s): %s\n  statement: %s (%s)\n  nut14.VerifyHTLCProof: %s\n", f.Replay.Cfg.ID(), secret, shape, witness, vd, vd.Why, obs)
		if strings.HasPrefix(obs, "panic") || (!vd.DontCare && (obs == "accept") != vd.Accept) {
			fmt.Println("  => still violates")
			return 1
		}
		fmt.Println("  => agrees now")
		return 0
	}
	var cs c13Case
	if err := json.Unmarshal(f.Replay.Case, &cs); err != nil {
		fmt.Println("replay: bad case:", err)
		return 2
	}
	r12, err := newC12Runner("c13-replay", now)
	if err != nil {
		fmt.Println("replay: harness:", err)
		return 2
	}
	defer r12.x.close()
	cr, err := (&c13Runner{r12}).run(cs)
	if err != nil {
		fmt.Println("replay: harness:", err)
		return 2
	}
	b, _ := json.MarshalIndent(cr.Detail, "  ", " ")
	fmt.Printf("  %s\n", b)
	if cr.VKey != "" {
		fmt.Printf("  => still violates (%s)\n     %s\n", cr.VKey, cr.What)
		return 1
	}
	fmt.Println("  => agrees now")
	return 0
}
