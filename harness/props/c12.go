package props

// C12 — "P2PK locks: spendable only with the required signatures (NUT-11)".
//
// Engine E4 (bounded-exhaustive enumeration, DESIGN.md §3.5 and "### C12").
//
//   Layer 1: full Cartesian product lock configuration × witness, evaluated by the real
//            nut11.VerifyP2PKLockedProof (under recover) and by an interpreter of the property
//            statement written here (own JSON/tag parsing, own BIP340 verification on top of the
//            harness's math/big secp256k1 — shares no code with /repo or btcec).
//   Layer 2: the same configurations as really signed proofs through Mint.Swap / Mint.MeltTokens
//            (witness × position among plain inputs), and the SIG_ALL matrix inputs × outputs.
//
// Nothing is random: every family is a nested loop over explicit finite sets; locktimes are
// now ± 10^6 s so that no outcome depends on the wall clock.
//
// The shared lock machinery (prefix lk…) is also used by c13.go.

import (
	"context"
	"crypto/sha256"
	"encoding/hex"
	"encoding/json"
	"fmt"
	"math/big"
	"os"
	"sort"
	"strconv"
	"strings"
	"sync"
	"time"

	"github.com/btcsuite/btcd/btcec/v2"
	"github.com/btcsuite/btcd/btcec/v2/schnorr"
	"github.com/elnosh/gonuts/cashu"
	"github.com/elnosh/gonuts/cashu/nuts/nut04"
	"github.com/elnosh/gonuts/cashu/nuts/nut05"
	"github.com/elnosh/gonuts/cashu/nuts/nut10"
	"github.com/elnosh/gonuts/cashu/nuts/nut11"

	"verif/harness/lnmodel"
	"verif/harness/ref"
	"verif/harness/rt"
	"verif/harness/world"
)

func init() {
	register(&Prop{ID: "C12", Level: "exploration", QuickBudget: 90 * time.Second, ThoroughBudget: 15 * time.Minute,
		Run: runC12, Worker: workerC12, Replay: replayC12})
}

// =============================================================================================
// Shared lock machinery: keys, signatures, secret rendering
// =============================================================================================

const lkOffset = int64(1000000) // locktimes are now ± 10^6 s

type lkKey struct {
	Label string
	Priv  *btcec.PrivateKey
	Pub   string // 33-byte compressed, lower-case hex
}

var (
	lkKeyOnce sync.Once
	lkKeyMap  map[string]*lkKey
)

var lkKeyLabels = []string{"K1", "K2", "K3", "K4", "R1", "R2", "F"}

// lkK returns the fixed key of a label (private key = SHA-256 of the label text).
func lkK(label string) *lkKey {
	lkKeyOnce.Do(func() {
		lkKeyMap = map[string]*lkKey{}
		for _, l := range lkKeyLabels {
			h := sha256.Sum256([]byte("verif lock key " + l))
			priv, pub := btcec.PrivKeyFromBytes(h[:])
			lkKeyMap[l] = &lkKey{Label: l, Priv: priv, Pub: hex.EncodeToString(pub.SerializeCompressed())}
		}
	})
	k := lkKeyMap[label]
	if k == nil {
		panic("lk: unknown key label " + label)
	}
	return k
}

// lkSign returns the hex BIP340 signature of key label over the 32-byte hash. Variant 0 is btcec's default
// (deterministic RFC6979 nonce, exactly what the library helpers produce); variants 1.. use a custom aux
// nonce and therefore give DIFFERENT valid signatures by the same key.
func lkSign(label string, hash []byte, variant int) string {
	var sig *schnorr.Signature
	var err error
	if variant == 0 {
		sig, err = schnorr.Sign(lkK(label).Priv, hash)
	} else {
		aux := sha256.Sum256([]byte(fmt.Sprintf("verif lock aux nonce %d", variant)))
		sig, err = schnorr.Sign(lkK(label).Priv, hash, schnorr.CustomNonce(aux))
	}
	if err != nil {
		panic(err)
	}
	return hex.EncodeToString(sig.Serialize())
}

func lkSha(b []byte) []byte { h := sha256.Sum256(b); return h[:] }

// HTLC preimages (fixed).
var (
	lkPreimageRight = hex.EncodeToString(lkSha([]byte("verif htlc preimage")))
	lkPreimageWrong = hex.EncodeToString(lkSha([]byte("verif htlc wrong preimage")))
)

func lkHashOfPreimage(preimageHex string) string {
	b, _ := hex.DecodeString(preimageHex)
	return hex.EncodeToString(lkSha(b))
}

// lkCfg is one abstract lock configuration (labels, no key material): the element of the enumeration alphabet.
type lkCfg struct {
	Kind    string   `json:"kind"`        // P2PK | HTLC
	Data    string   `json:"data"`        // P2PK: key label or "nonhex"; HTLC: lower | upper | short62 | nonhex64
	NSigs   int      `json:"n_sigs"`      // -1: tag absent
	PubTag  bool     `json:"pubkeys_tag"` // pubkeys tag present (possibly without any key)
	Pubkeys []string `json:"pubkeys"`     // key labels inside the tag
	Lock    string   `json:"locktime"`    // "" | past | future
	Refund  []string `json:"refund"`      // key labels; tag absent when empty
	Sigflag string   `json:"sigflag"`     // "" | SIG_INPUTS | SIG_ALL
}

func (c lkCfg) ID() string {
	n := "absent"
	if c.NSigs >= 0 {
		n = strconv.Itoa(c.NSigs)
	}
	pk := "absent"
	if c.PubTag {
		pk = "[" + strings.Join(c.Pubkeys, ",") + "]"
	}
	lt := c.Lock
	if lt == "" {
		lt = "absent"
	}
	sf := c.Sigflag
	if sf == "" {
		sf = "absent"
	}
	return fmt.Sprintf("%s data=%s n_sigs=%s pubkeys=%s locktime=%s refund=[%s] sigflag=%s", c.Kind, c.Data, n, pk, lt, strings.Join(c.Refund, ","), sf)
}

func (c lkCfg) dataField() string {
	if c.Kind == "HTLC" {
		right := lkHashOfPreimage(lkPreimageRight)
		switch c.Data {
		case "lower":
			return right
		case "upper":
			return strings.ToUpper(right)
		case "short62":
			return right[:62]
		case "nonhex64":
			return "zz" + right[2:]
		}
		panic("lk: HTLC data kind " + c.Data)
	}
	if c.Data == "nonhex" {
		return "zz" + lkK("K1").Pub[2:]
	}
	return lkK(c.Data).Pub
}

// Render builds the NUT-10 secret string by hand so that every tag encoding of the alphabet is expressible.
func (c lkCfg) Render(nonce string, now int64) string {
	var tags []string
	q := func(s string) string { return `"` + s + `"` }
	if c.Sigflag != "" {
		tags = append(tags, `["sigflag",`+q(c.Sigflag)+`]`)
	}
	if c.NSigs >= 0 {
		tags = append(tags, `["n_sigs",`+q(strconv.Itoa(c.NSigs))+`]`)
	}
	if c.PubTag {
		t := `["pubkeys"`
		for _, l := range c.Pubkeys {
			t += "," + q(lkK(l).Pub)
		}
		tags = append(tags, t+"]")
	}
	switch c.Lock {
	case "past":
		tags = append(tags, `["locktime",`+q(strconv.FormatInt(now-lkOffset, 10))+`]`)
	case "future":
		tags = append(tags, `["locktime",`+q(strconv.FormatInt(now+lkOffset, 10))+`]`)
	}
	if len(c.Refund) > 0 {
		t := `["refund"`
		for _, l := range c.Refund {
			t += "," + q(lkK(l).Pub)
		}
		tags = append(tags, t+"]")
	}
	return `["` + c.Kind + `",{"nonce":"` + nonce + `","data":"` + c.dataField() + `","tags":[` + strings.Join(tags, ",") + `]}]`
}

func lkNonce(parts ...any) string {
	return hex.EncodeToString(lkSha([]byte("verif lock nonce " + fmt.Sprint(parts...)))[:16])
}

// authLabels: the distinct keys that may sign before the locktime according to the statement, in list order.
// P2PK: the lock key plus, when n_sigs > 0, the keys of the pubkeys tag. HTLC: the keys of the pubkeys tag.
func (c lkCfg) authLabels() []string {
	var raw []string
	if c.Kind == "P2PK" {
		if c.Data != "nonhex" {
			raw = append(raw, c.Data)
		}
		if c.NSigs > 0 {
			raw = append(raw, c.Pubkeys...)
		}
	} else {
		raw = append(raw, c.Pubkeys...)
	}
	return lkDedupe(raw)
}

func lkDedupe(in []string) []string {
	var out []string
	seen := map[string]bool{}
	for _, s := range in {
		if !seen[s] {
			seen[s] = true
			out = append(out, s)
		}
	}
	return out
}

// threshold: number of signatures demanded before the locktime (P2PK: max(1,n_sigs); HTLC: max(0,n_sigs)).
func (c lkCfg) threshold() int {
	if c.Kind == "P2PK" {
		if c.NSigs > 1 {
			return c.NSigs
		}
		return 1
	}
	if c.NSigs > 0 {
		return c.NSigs
	}
	return 0
}

// malformed: tag shapes about which the statement is silent (only a REJECT expectation is compared for them).
func (c lkCfg) malformed() string {
	if c.Kind == "P2PK" && c.Data == "nonhex" {
		return "lock key is not hex"
	}
	if c.PubTag && len(c.Pubkeys) == 0 {
		return "pubkeys tag without any key"
	}
	if c.Kind == "P2PK" && c.NSigs > 0 && len(c.Pubkeys) == 0 {
		return "n_sigs > 0 without pubkeys"
	}
	return ""
}

func (c lkCfg) phase() string {
	if c.Lock != "past" {
		return "before-locktime"
	}
	if len(c.Refund) == 0 {
		return "after-locktime-no-refund"
	}
	return "after-locktime-refund"
}

// class names the structural class of the key list (used in violation keys).
func (c lkCfg) class() string {
	if c.Kind == "P2PK" && c.NSigs > 0 {
		for _, l := range c.Pubkeys {
			if l == c.Data {
				return "lock-key-repeated-in-pubkeys"
			}
		}
	}
	if (c.Kind == "HTLC" || c.NSigs > 0) && len(lkDedupe(c.Pubkeys)) != len(c.Pubkeys) {
		return "pubkey-listed-twice"
	}
	if c.threshold() > len(c.authLabels()) {
		return "nsigs>distinct-keys"
	}
	return "nsigs<=distinct-keys"
}

// =============================================================================================
// Independent BIP340 verification (math/big secp256k1 of package ref)
// =============================================================================================

func lkTaggedHash(tag string, parts ...[]byte) []byte {
	th := sha256.Sum256([]byte(tag))
	h := sha256.New()
	h.Write(th[:])
	h.Write(th[:])
	for _, p := range parts {
		h.Write(p)
	}
	return h.Sum(nil)
}

// lkBIP340Verify implements BIP340 "Verify(pk, m, sig)" for an x-only public key px.
func lkBIP340Verify(px *big.Int, msg []byte, sig []byte) bool {
	if len(sig) != 64 {
		return false
	}
	P, err := ref.LiftX(px, false)
	if err != nil {
		return false
	}
	r := new(big.Int).SetBytes(sig[:32])
	s := new(big.Int).SetBytes(sig[32:])
	if r.Cmp(ref.P) >= 0 || s.Cmp(ref.N) >= 0 {
		return false
	}
	e := new(big.Int).SetBytes(lkTaggedHash("BIP0340/challenge", sig[:32], ref.Bytes32(P.X), msg))
	e.Mod(e, ref.N)
	R := ref.ScalarBaseMult(s).Sub(P.ScalarMult(e))
	if R.Inf || R.Y.Bit(0) == 1 || R.X.Cmp(r) != 0 {
		return false
	}
	return true
}

// lkVerifier caches (signature, key, message) verdicts; one per goroutine.
type lkVerifier struct {
	cache map[string]bool
	sigs  map[string]string // signatures already made (entry|message)
	N     int64
}

func newLkVerifier() *lkVerifier {
	return &lkVerifier{cache: map[string]bool{}, sigs: map[string]string{}}
}

// sig is lkSigEntry with a cache (signing is deterministic).
func (v *lkVerifier) sig(e string, msg []byte) string {
	if v == nil {
		return lkSigEntry(e, msg)
	}
	k := e + "|" + string(msg)
	if s, ok := v.sigs[k]; ok {
		return s
	}
	s := lkSigEntry(e, msg)
	v.sigs[k] = s
	return s
}

// valid: sigHex is a 64-byte hex string that verifies under the compressed key pubHex over msg.
func (v *lkVerifier) valid(sigHex, pubHex string, msg []byte) bool {
	k := sigHex + "|" + pubHex + "|" + string(msg)
	if r, ok := v.cache[k]; ok {
		return r
	}
	res := false
	sig, err := hex.DecodeString(sigHex)
	pk, err2 := hex.DecodeString(pubHex)
	if err == nil && err2 == nil && len(sig) == 64 && len(pk) == 33 {
		if pt, err := ref.ParseCompressed(pk); err == nil {
			res = lkBIP340Verify(pt.X, msg, sig)
			v.N++
		}
	}
	v.cache[k] = res
	return res
}

// =============================================================================================
// The interpreter of the statement (string level: secret text + witness text -> verdict)
// =============================================================================================

type lkParsed struct {
	Kind       string
	Data       string
	NSigs      int
	Pubkeys    []string
	Locktime   int64
	HasLock    bool
	Refund     []string
	SigAll     bool
	Malformed  string
	CondString string // kind + data + tags (without the nonce): identity of the spending condition
}

// lkParseSecret parses a NUT-10 secret on its own; ok=false means "not a well-known secret" (a plain proof).
func lkParseSecret(secret string) (p lkParsed, ok bool) {
	var arr []json.RawMessage
	if json.Unmarshal([]byte(secret), &arr) != nil || len(arr) < 2 {
		return p, false
	}
	var kind string
	if json.Unmarshal(arr[0], &kind) != nil || (kind != "P2PK" && kind != "HTLC") {
		return p, false
	}
	var body struct {
		Nonce string     `json:"nonce"`
		Data  string     `json:"data"`
		Tags  [][]string `json:"tags"`
	}
	if json.Unmarshal(arr[1], &body) != nil {
		return p, false
	}
	p.Kind, p.Data = kind, body.Data
	bad := func(s string) {
		if p.Malformed == "" {
			p.Malformed = s
		}
	}
	keyOK := func(k string) bool {
		b, err := hex.DecodeString(k)
		if err != nil || len(b) != 33 {
			return false
		}
		_, err = ref.ParseCompressed(b)
		return err == nil
	}
	for _, t := range body.Tags {
		if len(t) == 0 {
			bad("empty tag")
			continue
		}
		if len(t) < 2 {
			bad("tag " + t[0] + " without value")
			continue
		}
		switch t[0] {
		case "sigflag":
			switch t[1] {
			case "SIG_ALL":
				p.SigAll = true
			case "SIG_INPUTS":
			default:
				bad("unknown sigflag")
			}
		case "n_sigs":
			n, err := strconv.Atoi(t[1])
			if err != nil || n < 0 {
				bad("n_sigs not a non-negative integer")
			} else {
				p.NSigs = n
			}
		case "pubkeys":
			for _, k := range t[1:] {
				if keyOK(k) {
					p.Pubkeys = append(p.Pubkeys, strings.ToLower(k))
				} else {
					bad("pubkeys entry is not a public key")
				}
			}
		case "locktime":
			n, err := strconv.ParseInt(t[1], 10, 64)
			if err != nil {
				bad("locktime not an integer")
			} else {
				p.Locktime, p.HasLock = n, true
			}
		case "refund":
			for _, k := range t[1:] {
				if keyOK(k) {
					p.Refund = append(p.Refund, strings.ToLower(k))
				} else {
					bad("refund entry is not a public key")
				}
			}
		}
	}
	if kind == "P2PK" {
		if !keyOK(p.Data) {
			bad("lock key is not a public key")
		}
		if p.NSigs > 0 && len(p.Pubkeys) == 0 {
			bad("n_sigs > 0 without pubkeys")
		}
	}
	tb, _ := json.Marshal(body.Tags)
	p.CondString = kind + "|" + body.Data + "|" + string(tb)
	return p, true
}

// authorised: distinct keys allowed to sign before the locktime, and the number of signatures demanded.
func (p lkParsed) authorised() (keys []string, t int) {
	if p.Kind == "P2PK" {
		t = 1
		if p.NSigs > 1 {
			t = p.NSigs
		}
		var raw []string
		if b, err := hex.DecodeString(p.Data); err == nil && len(b) == 33 {
			raw = append(raw, strings.ToLower(p.Data))
		}
		if p.NSigs > 0 {
			raw = append(raw, p.Pubkeys...)
		}
		return lkDedupe(raw), t
	}
	if p.NSigs > 0 {
		t = p.NSigs
	}
	return lkDedupe(p.Pubkeys), t
}

type lkWitness struct {
	Preimage   *string  `json:"preimage"`
	Signatures []string `json:"signatures"`
}

func lkParseWitness(w string) lkWitness {
	var x lkWitness
	if json.Unmarshal([]byte(w), &x) != nil {
		return lkWitness{}
	}
	return x
}

func lkHasTextDup(sigs []string) bool {
	seen := map[string]bool{}
	for _, s := range sigs {
		if seen[s] {
			return true
		}
		seen[s] = true
	}
	return false
}

// lkDistinctSigners counts the keys of the list for which the witness holds a valid signature over msg.
func lkDistinctSigners(v *lkVerifier, sigs []string, keys []string, msg []byte) int {
	n := 0
	for _, k := range keys {
		for _, s := range sigs {
			if v.valid(s, k, msg) {
				n++
				break
			}
		}
	}
	return n
}

type lkVerdict struct {
	Accept   bool
	DontCare bool   // the statement does not define the outcome; counted, never compared
	Why      string // the rule that decided
}

func (v lkVerdict) String() string {
	s := "reject"
	if v.Accept {
		s = "accept"
	}
	if v.DontCare {
		s = "dontcare(" + s + ")"
	}
	return s
}

// lkRef is the interpreter of the statements of C12 / C13 for ONE proof: secret text, witness text, current time.
//
//	after the locktime: anyone if there is no refund key, otherwise a valid signature by one refund key;
//	before (or without) it — P2PK: valid signatures on SHA-256(secret) by at least max(1,n_sigs) DISTINCT
//	authorised keys; HTLC: SHA-256(hex-decoded preimage) equals the 32-byte lock value (64 hex characters)
//	and, if n_sigs > 0, valid signatures by n_sigs distinct keys of the pubkeys tag.
//
// Only the REJECT direction is demanded for malformed conditions, for witnesses holding the same signature
// text twice, and for an HTLC lock value written in upper-case hex (the same 32 bytes in a second spelling).
func lkRef(secret, witness string, now int64, v *lkVerifier) lkVerdict {
	p, ok := lkParseSecret(secret)
	if !ok {
		return lkVerdict{Accept: true, Why: "not a NUT-10 secret: no spending condition"}
	}
	w := lkParseWitness(witness)
	msg := lkSha([]byte(secret))
	soft := func(why string) lkVerdict {
		vd := lkVerdict{Accept: true, Why: why}
		if p.Malformed != "" {
			vd.DontCare, vd.Why = true, why+"; condition malformed ("+p.Malformed+")"
		} else if lkHasTextDup(w.Signatures) {
			vd.DontCare, vd.Why = true, why+"; witness repeats a signature text"
		}
		return vd
	}
	if p.HasLock && now > p.Locktime {
		if len(p.Refund) == 0 {
			return soft("locktime passed, no refund key: anyone can spend")
		}
		if lkDistinctSigners(v, w.Signatures, lkDedupe(p.Refund), msg) >= 1 {
			return soft("locktime passed: signature by a refund key")
		}
		return lkVerdict{Why: "locktime passed: no valid signature by a refund key"}
	}
	keys, t := p.authorised()
	upper := false
	if p.Kind == "HTLC" {
		lock, err := hex.DecodeString(p.Data)
		if len(p.Data) != 64 || err != nil || len(lock) != 32 {
			return lkVerdict{Why: "lock value is not 32 bytes in 64 hex characters"}
		}
		if w.Preimage == nil {
			return lkVerdict{Why: "no preimage in the witness"}
		}
		pre, err := hex.DecodeString(*w.Preimage)
		if err != nil {
			return lkVerdict{Why: "preimage is not hex"}
		}
		if hex.EncodeToString(lkSha(pre)) != strings.ToLower(p.Data) {
			return lkVerdict{Why: "SHA-256(preimage) differs from the lock value"}
		}
		upper = p.Data != strings.ToLower(p.Data)
	}
	if t > 0 {
		got := lkDistinctSigners(v, w.Signatures, keys, msg)
		if got < t {
			return lkVerdict{Why: fmt.Sprintf("valid signatures by %d distinct authorised key(s), %d required (%d distinct authorised keys exist)", got, t, len(keys))}
		}
	}
	vd := soft(fmt.Sprintf("threshold %d met by distinct authorised keys", t))
	if upper && !vd.DontCare {
		vd.DontCare, vd.Why = true, vd.Why+"; lock value spelled in upper-case hex"
	}
	return vd
}

// lkSelfTest validates the independent evaluator before it is trusted (DESIGN §6): BIP340 test vector 0,
// agreement with signatures made by btcec for every key and nonce variant, and a few hand-computed verdicts.
func lkSelfTest() error {
	px, _ := new(big.Int).SetString("F9308A019258C31049344F85F89D5229B531C845836F99B08601F113BCE036F9", 16)
	sig0, _ := hex.DecodeString("E907831F80848D1069A5371B402410364BDF1C5F8307B0084C55F1CE2DCA821525F66A4A85EA8B71E482A74F382D2CE5EBEEE8FDB2172F477DF4900D310536C0")
	if !lkBIP340Verify(px, make([]byte, 32), sig0) {
		return fmt.Errorf("BIP340 test vector 0 does not verify")
	}
	sig0[63] ^= 1
	if lkBIP340Verify(px, make([]byte, 32), sig0) {
		return fmt.Errorf("BIP340 test vector 0 verifies after a bit flip")
	}
	v := newLkVerifier()
	msg := lkSha([]byte("selftest message"))
	other := lkSha([]byte("selftest other message"))
	seen := map[string]bool{}
	for _, l := range lkKeyLabels {
		for variant := 0; variant < 4; variant++ {
			s := lkSign(l, msg, variant)
			if seen[s] {
				return fmt.Errorf("nonce variant %d of %s repeats a signature", variant, l)
			}
			seen[s] = true
			for _, l2 := range lkKeyLabels {
				if got := v.valid(s, lkK(l2).Pub, msg); got != (l == l2) {
					return fmt.Errorf("signature by %s (variant %d) under key %s: own verifier says %v", l, variant, l2, got)
				}
			}
			if v.valid(s, lkK(l).Pub, other) {
				return fmt.Errorf("signature by %s verifies over another message", l)
			}
		}
	}
	if lkSign("K1", msg, 0) != lkSign("K1", msg, 0) {
		return fmt.Errorf("default signing is not deterministic")
	}
	now := time.Now().Unix()
	type tc struct {
		cfg  lkCfg
		sigs []string // "K1", "K2#1" …
		pre  string
		want string
	}
	cases := []tc{
		{lkCfg{Kind: "P2PK", Data: "K1", NSigs: -1}, []string{"K1"}, "", "accept"},
		{lkCfg{Kind: "P2PK", Data: "K1", NSigs: -1}, []string{"F"}, "", "reject"},
		{lkCfg{Kind: "P2PK", Data: "K1", NSigs: -1, PubTag: true, Pubkeys: []string{"K2"}}, []string{"K2"}, "", "reject"},
		{lkCfg{Kind: "P2PK", Data: "K1", NSigs: 2, PubTag: true, Pubkeys: []string{"K2", "K3"}}, []string{"K3", "K1"}, "", "accept"},
		{lkCfg{Kind: "P2PK", Data: "K1", NSigs: 2, PubTag: true, Pubkeys: []string{"K2", "K3"}}, []string{"K3", "K3#1"}, "", "reject"},
		{lkCfg{Kind: "P2PK", Data: "K1", NSigs: 2, PubTag: true, Pubkeys: []string{"K1"}}, []string{"K1", "K1#1"}, "", "reject"},
		{lkCfg{Kind: "P2PK", Data: "K1", NSigs: -1, Lock: "past"}, nil, "", "accept"},
		{lkCfg{Kind: "P2PK", Data: "K1", NSigs: -1, Lock: "past", Refund: []string{"R1"}}, []string{"K1"}, "", "reject"},
		{lkCfg{Kind: "P2PK", Data: "K1", NSigs: -1, Lock: "past", Refund: []string{"R1", "R2"}}, []string{"R2"}, "", "accept"},
		{lkCfg{Kind: "P2PK", Data: "K1", NSigs: -1, Lock: "future", Refund: []string{"R1"}}, []string{"R1"}, "", "reject"},
		{lkCfg{Kind: "HTLC", Data: "lower", NSigs: -1}, nil, lkPreimageRight, "accept"},
		{lkCfg{Kind: "HTLC", Data: "lower", NSigs: -1}, nil, lkPreimageWrong, "reject"},
		{lkCfg{Kind: "HTLC", Data: "short62", NSigs: -1}, nil, lkPreimageRight, "reject"},
		{lkCfg{Kind: "HTLC", Data: "upper", NSigs: -1}, nil, lkPreimageRight, "dontcare(accept)"},
		{lkCfg{Kind: "HTLC", Data: "lower", NSigs: 1, PubTag: true, Pubkeys: []string{"K1"}}, nil, lkPreimageRight, "reject"},
		{lkCfg{Kind: "HTLC", Data: "lower", NSigs: 1, PubTag: true, Pubkeys: []string{"K1"}}, []string{"K1"}, lkPreimageRight, "accept"},
		{lkCfg{Kind: "HTLC", Data: "lower", NSigs: 1, PubTag: true, Pubkeys: []string{"K1"}, Lock: "past", Refund: []string{"R1"}}, []string{"K1"}, lkPreimageRight, "reject"},
	}
	for i, c := range cases {
		secret := c.cfg.Render(lkNonce("selftest", i), now)
		m := lkSha([]byte(secret))
		var sigs []string
		for _, e := range c.sigs {
			sigs = append(sigs, lkSigEntry(e, m))
		}
		wit := lkWitnessJSON(c.cfg.Kind, c.pre, sigs)
		if got := lkRef(secret, wit, now, v).String(); got != c.want {
			return fmt.Errorf("interpreter self-test %d (%s, sigs %v): got %s, want %s", i, c.cfg.ID(), c.sigs, got, c.want)
		}
	}
	return nil
}

// lkSigEntry turns a shape entry ("K2", "K2#1", "K1!other", "raw:zz") into the signature text.
func lkSigEntry(e string, msg []byte) string {
	if strings.HasPrefix(e, "raw:") {
		return e[4:]
	}
	if strings.HasSuffix(e, "!other") {
		return lkSign(strings.TrimSuffix(e, "!other"), lkSha([]byte("a different message")), 0)
	}
	variant := 0
	if i := strings.IndexByte(e, '#'); i >= 0 {
		variant, _ = strconv.Atoi(e[i+1:])
		e = e[:i]
	}
	return lkSign(e, msg, variant)
}

// lkWitnessJSON renders a witness in the wire format of NUT-11 / NUT-14.
func lkWitnessJSON(kind, preimage string, sigs []string) string {
	if sigs == nil {
		sigs = []string{}
	}
	sb, _ := json.Marshal(sigs)
	if kind == "HTLC" {
		pb, _ := json.Marshal(preimage)
		return `{"preimage":` + string(pb) + `,"signatures":` + string(sb) + `}`
	}
	return `{"signatures":` + string(sb) + `}`
}

// lkSafe runs f and converts a panic into text.
func lkSafe(f func()) (panicked string) {
	defer func() {
		if r := recover(); r != nil {
			panicked = fmt.Sprint(r)
			if panicked == "" {
				panicked = "panic"
			}
		}
	}()
	f()
	return ""
}

// =============================================================================================
// C12 layer 1: alphabet
// =============================================================================================

var (
	c12NSigs   = []int{-1, 0, 1, 2, 3, 4}
	c12PubSets = []struct {
		Tag  bool
		Keys []string
	}{{false, nil}, {true, nil}, {true, []string{"K2"}}, {true, []string{"K2", "K3"}}, {true, []string{"K2", "K3", "K4"}}}
	c12Locks    = []string{"", "past", "future"}
	c12Refunds  = [][]string{nil, {"R1"}, {"R1", "R2"}}
	c12Sigflags = []string{"", "SIG_INPUTS", "SIG_ALL"}
)

// c12Degenerate: key lists with repetitions and thresholds above the number of distinct keys (defined by the
// statement: "n_sigs valid signatures from DISTINCT authorised keys"), and one malformed lock key.
var c12Degenerate = []lkCfg{
	{Kind: "P2PK", Data: "K1", NSigs: 1, PubTag: true, Pubkeys: []string{"K1"}},
	{Kind: "P2PK", Data: "K1", NSigs: 2, PubTag: true, Pubkeys: []string{"K1"}},
	{Kind: "P2PK", Data: "K1", NSigs: 2, PubTag: true, Pubkeys: []string{"K1", "K2"}},
	{Kind: "P2PK", Data: "K1", NSigs: 3, PubTag: true, Pubkeys: []string{"K1", "K2"}},
	{Kind: "P2PK", Data: "K1", NSigs: 2, PubTag: true, Pubkeys: []string{"K2", "K2"}},
	{Kind: "P2PK", Data: "K1", NSigs: 3, PubTag: true, Pubkeys: []string{"K2", "K2"}},
	// a key listed twice with ANOTHER key in between (the lock key again behind a co-signer; a co-signer twice around
	// another one): it still counts once
	{Kind: "P2PK", Data: "K1", NSigs: 2, PubTag: true, Pubkeys: []string{"K2", "K1"}},
	{Kind: "P2PK", Data: "K1", NSigs: 3, PubTag: true, Pubkeys: []string{"K2", "K1"}},
	{Kind: "P2PK", Data: "K1", NSigs: 3, PubTag: true, Pubkeys: []string{"K2", "K3", "K2"}},
	{Kind: "P2PK", Data: "K1", NSigs: 2, PubTag: true, Pubkeys: []string{"K2", "K3", "K1"}},
	{Kind: "P2PK", Data: "nonhex", NSigs: -1},
	{Kind: "P2PK", Data: "nonhex", NSigs: 1, PubTag: true, Pubkeys: []string{"K2"}},
}

// c12Configs: the main product (simplest first) followed by the degenerate configurations × locktime × refund{0,1}.
func c12Configs() []lkCfg {
	var out []lkCfg
	for _, lt := range c12Locks {
		for _, rf := range c12Refunds {
			for _, sf := range c12Sigflags {
				for _, n := range c12NSigs {
					for _, pk := range c12PubSets {
						out = append(out, lkCfg{Kind: "P2PK", Data: "K1", NSigs: n, PubTag: pk.Tag, Pubkeys: pk.Keys, Lock: lt, Refund: rf, Sigflag: sf})
					}
				}
			}
		}
	}
	for _, d := range c12Degenerate {
		for _, lt := range c12Locks {
			for _, rf := range c12Refunds[:2] {
				c := d
				c.Lock, c.Refund = lt, rf
				out = append(out, c)
			}
		}
	}
	return out
}

var c12WitKinds = []string{
	"absent", "json-empty-string", "empty-object", "garbage", "no-signatures",
	"K1", "K2", "F", "R1", "K1-other-message",
	"same-signature-twice", "two-different-signatures-one-key",
	"threshold", "threshold-reversed", "threshold-minus-1", "threshold-plus-1",
	"one-key-padded-to-threshold", "one-key-padded-reversed", "same-signature-padded-to-threshold",
	"R1+R2", "non-hex-entry-among-valid", "threshold+textual-duplicate", "R1-twice-same-text",
}

func lkReverse(in []string) []string {
	out := make([]string, len(in))
	for i, s := range in {
		out[len(in)-1-i] = s
	}
	return out
}

// lkSigShape returns the list of signature entries (labels, see lkSigEntry) of a signature-witness kind for a
// configuration; raw != "" means the witness is that literal text instead.
func lkSigShape(kind string, cfg lkCfg) (entries []string, raw string, isRaw bool) {
	A := cfg.authLabels()
	t := cfg.threshold()
	first := func(n int) []string {
		if n > len(A) {
			n = len(A)
		}
		if n < 0 {
			n = 0
		}
		return append([]string{}, A[:n]...)
	}
	padded := func(textual bool) []string {
		d := t - 1
		if d > len(A) {
			d = len(A)
		}
		if d < 1 {
			d = 1
		}
		e := first(d)
		if len(e) == 0 {
			e = []string{"K1"}
		}
		last := e[len(e)-1]
		total := t
		if total < 2 {
			total = 2
		}
		for i := 1; len(e) < total; i++ {
			if textual {
				e = append(e, last)
			} else {
				e = append(e, fmt.Sprintf("%s#%d", last, i))
			}
		}
		return e
	}
	switch kind {
	case "absent":
		return nil, "", true
	case "json-empty-string":
		return nil, `""`, true
	case "empty-object":
		return nil, `{}`, true
	case "garbage":
		return nil, `{"signatures":["` + strings.Repeat("ab", 64) + `"`, true
	case "no-signatures":
		return []string{}, "", false
	case "K1", "K2", "F", "R1":
		return []string{kind}, "", false
	case "K1-other-message":
		return []string{"K1!other"}, "", false
	case "same-signature-twice":
		return []string{"K1", "K1"}, "", false
	case "two-different-signatures-one-key":
		return []string{"K1", "K1#1"}, "", false
	case "threshold":
		return first(t), "", false
	case "threshold-reversed":
		return lkReverse(first(t)), "", false
	case "threshold-minus-1":
		return first(t - 1), "", false
	case "threshold-plus-1":
		e := first(t + 1)
		if len(e) < t+1 {
			e = append(e, "F")
		}
		return e, "", false
	case "one-key-padded-to-threshold":
		return padded(false), "", false
	case "one-key-padded-reversed":
		return lkReverse(padded(false)), "", false
	case "same-signature-padded-to-threshold":
		return padded(true), "", false
	case "R1+R2":
		return []string{"R1", "R2"}, "", false
	case "non-hex-entry-among-valid":
		return append(first(t), "raw:zz-not-hex"), "", false
	case "threshold+textual-duplicate":
		e := first(t)
		if len(e) == 0 {
			e = []string{"K1"}
		}
		return append(e, e[0]), "", false
	case "R1-twice-same-text":
		return []string{"R1", "R1"}, "", false
	}
	panic("lk: unknown witness kind " + kind)
}

// c12Witness renders the witness text of a kind and a shape string used to recognise duplicates.
func c12Witness(kind string, cfg lkCfg, secret string, v *lkVerifier) (witness, shape string) {
	entries, raw, isRaw := lkSigShape(kind, cfg)
	if isRaw {
		return raw, "raw:" + raw
	}
	msg := lkSha([]byte(secret))
	sigs := make([]string, len(entries))
	for i, e := range entries {
		sigs[i] = v.sig(e, msg)
	}
	return lkWitnessJSON("P2PK", "", sigs), "sigs:" + strings.Join(entries, ",")
}

// c12KeyL1 names the class of a layer-1 disagreement (stable, no random data).
func c12KeyL1(prop string, cfg lkCfg, kind string, expectAccept bool, panicked bool) string {
	pre := prop + "/layer1/"
	if panicked {
		return pre + "panic/witness=" + kind
	}
	if expectAccept {
		return pre + "valid-witness-rejected/witness=" + kind + "/" + cfg.phase()
	}
	if cfg.phase() == "after-locktime-refund" {
		return pre + "refund-rule/accepted-without-refund-signature/" + lkWitGroup(kind)
	}
	switch kind {
	case "two-different-signatures-one-key", "one-key-padded-to-threshold", "one-key-padded-reversed", "two-by-one-key", "one-key-padded":
		return pre + "one-key-counted-twice/" + cfg.class()
	case "same-signature-twice", "same-signature-padded-to-threshold", "threshold+textual-duplicate", "duplicate":
		return pre + "same-signature-counted-twice/" + cfg.class()
	}
	return pre + "accepted-without-required-signatures/" + lkWitGroup(kind) + "/" + cfg.class()
}

// lkWitGroup folds the witness kinds into the few classes a violation key distinguishes.
func lkWitGroup(kind string) string {
	switch kind {
	case "absent", "json-empty-string", "empty-object", "garbage", "no-signatures", "none":
		return "no-signature"
	case "F", "R1", "K2", "R1+R2", "R1-twice-same-text", "foreign-key", "refund-key":
		return "signatures-by-other-keys"
	case "K1-other-message":
		return "signature-over-another-message"
	}
	return "too-few-authorised-signatures"
}

type lkL1Replay struct {
	Layer    int    `json:"layer"`
	Cfg      lkCfg  `json:"cfg"`
	Witness  string `json:"witness_kind"`
	Secret   string `json:"secret_rendered"`
	WitText  string `json:"witness_rendered"`
	Expected string `json:"expected"`
	Observed string `json:"observed"`
}

// c12EvalL1 evaluates one layer-1 case with both evaluators.
func c12EvalL1(cfg lkCfg, kind string, now int64, v *lkVerifier) (secret, witness, shape string, vd lkVerdict, observed string, err error) {
	secret = cfg.Render(lkNonce("l1", cfg.ID()), now)
	ws, derr := nut10.DeserializeSecret(secret)
	if derr != nil {
		return "", "", "", vd, "", fmt.Errorf("rendered secret is not NUT-10: %v (%s)", derr, secret)
	}
	witness, shape = c12Witness(kind, cfg, secret, v)
	vd = lkRef(secret, witness, now, v)
	var ierr error
	if p := lkSafe(func() {
		ierr = nut11.VerifyP2PKLockedProof(cashu.Proof{Amount: 1, Id: "00", Secret: secret, C: "02", Witness: witness}, ws)
	}); p != "" {
		return secret, witness, shape, vd, "panic: " + p, nil
	}
	if ierr == nil {
		return secret, witness, shape, vd, "accept", nil
	}
	return secret, witness, shape, vd, "reject: " + ierr.Error(), nil
}

type lkStats struct {
	mu                          sync.Mutex
	Evals, Accept, Reject, Dont int64
	ImplAccept, ImplReject      int64
	DontByWhy                   map[string]int64
	DontOutcome                 map[string]int64
	Verifications               int64
}

func (s *lkStats) merge(o *lkStats) {
	s.mu.Lock()
	defer s.mu.Unlock()
	s.Evals += o.Evals
	s.Accept += o.Accept
	s.Reject += o.Reject
	s.Dont += o.Dont
	s.ImplAccept += o.ImplAccept
	s.ImplReject += o.ImplReject
	s.Verifications += o.Verifications
	for k, n := range o.DontByWhy {
		s.DontByWhy[k] += n
	}
	for k, n := range o.DontOutcome {
		s.DontOutcome[k] += n
	}
}

func newLkStats() *lkStats {
	return &lkStats{DontByWhy: map[string]int64{}, DontOutcome: map[string]int64{}}
}

func lkDontClass(why string) string {
	if i := strings.Index(why, "; "); i >= 0 {
		return why[i+2:]
	}
	return why
}

func c12Layer1(c *rt.Ctx, now int64) {
	cfgs := c12Configs()
	st := newLkStats()
	var sampled int64
	viol := make([][]rt.Violation, len(cfgs)) // reported in enumeration order: the first one per key is the smallest
	rt.ParallelFor(len(cfgs), func(i int) {
		if c.Expired() {
			return
		}
		cfg := cfgs[i]
		v := newLkVerifier()
		loc := newLkStats()
		for _, kind := range c12WitKinds {
			secret, witness, shape, vd, obs, err := c12EvalL1(cfg, kind, now, v)
			if err != nil {
				rt.HarnessError("C12 layer 1: %v", err)
			}
			loc.Evals++
			implAccept := obs == "accept"
			if implAccept {
				loc.ImplAccept++
			} else {
				loc.ImplReject++
			}
			panicked := strings.HasPrefix(obs, "panic")
			if vd.DontCare && !panicked {
				loc.Dont++
				loc.DontByWhy[lkDontClass(vd.Why)]++
				loc.DontOutcome[strings.SplitN(obs, ":", 2)[0]]++
				continue
			}
			c.Distinct("L1|" + cfg.ID() + "|" + shape)
			if vd.Accept {
				loc.Accept++
			} else {
				loc.Reject++
			}
			if panicked || implAccept != vd.Accept {
				key := c12KeyL1("C12", cfg, kind, vd.Accept, panicked)
				what := fmt.Sprintf("layer 1: %s; witness %s (%s): statement says %s (%s), nut11.VerifyP2PKLockedProof -> %s; secret=%s witness=%s",
					cfg.ID(), kind, shape, vd, vd.Why, obs, secret, witness)
				viol[i] = append(viol[i], rt.Violation{Key: key, What: what, Replay: lkL1Replay{Layer: 1, Cfg: cfg, Witness: kind, Secret: secret, WitText: witness, Expected: vd.String(), Observed: obs}})
			}
			if (i == 0 || i == 407) && (kind == "K1" || kind == "F" || kind == "threshold") {
				st.mu.Lock()
				take := sampled < 4
				sampled++
				st.mu.Unlock()
				if take {
					c.Sample(map[string]any{"layer": 1, "cfg": cfg.ID(), "witness_kind": kind, "secret": secret, "witness": witness, "statement": vd.String(), "why": vd.Why, "implementation": obs})
				}
			}
		}
		loc.Verifications = v.N
		st.merge(loc)
	})
	for _, vs := range viol {
		for _, v := range vs {
			c.AddViolation(v)
		}
	}
	c.Count("evaluations", st.Evals)
	c.Cov["layer1_configurations"] = len(cfgs)
	c.Cov["layer1_witness_kinds"] = len(c12WitKinds)
	c.Cov["layer1_cases"] = st.Evals
	c.Cov["layer1_defined_accept"] = st.Accept
	c.Cov["layer1_defined_reject"] = st.Reject
	c.Cov["layer1_dontcare"] = st.Dont
	c.Cov["layer1_dontcare_by_reason"] = st.DontByWhy
	c.Cov["layer1_dontcare_impl_outcomes"] = st.DontOutcome
	c.Cov["layer1_impl_accept"] = st.ImplAccept
	c.Cov["layer1_impl_reject"] = st.ImplReject
	c.Cov["layer1_independent_bip340_verifications"] = st.Verifications
	if st.Accept == 0 || st.Reject == 0 {
		c.Cov["layer1_vacuous"] = true
	}
}

// =============================================================================================
// Layer 2 machinery (shared with C13): a long-lived real mint per worker, proof bank, expectations
// =============================================================================================

type lkMint struct {
	ln    *lnmodel.LN
	m     *world.MintW
	u     *world.User
	dir   string
	tag   string
	Ops   int64 // mint operations executed (mint quote+mint, swap, melt quote, melt)
	seq   int
	meltQ string // an unpaid melt quote that can still be used
}

func lkNewMint(tag string) (*lkMint, error) {
	dir, err := os.MkdirTemp(rt.ScratchRoot(), tag+"-")
	if err != nil {
		return nil, err
	}
	ln := lnmodel.New()
	m, err := world.NewMint(world.Cfg{Name: "a", Dir: dir}, ln)
	if err != nil {
		os.RemoveAll(dir)
		return nil, err
	}
	return &lkMint{ln: ln, m: m, u: &world.User{Tag: tag}, dir: dir, tag: tag}, nil
}

func (x *lkMint) close() {
	x.m.Shutdown()
	os.RemoveAll(x.dir)
}

func (x *lkMint) nonce() string {
	x.seq++
	return lkNonce(x.tag, x.seq)
}

// mintProof obtains a validly signed proof of the amount; secret "" means a plain (hex) secret.
func (x *lkMint) mintProof(amount uint64, secret string) (cashu.Proof, error) {
	q, err := x.m.MintQuote(amount, "")
	if err != nil {
		return cashu.Proof{}, err
	}
	x.ln.Settle(q.PaymentHash)
	var outs []world.Out
	if secret == "" {
		outs = x.u.Outputs(x.m.ActiveID(), amount)
	} else {
		outs = x.u.OutputsWithSecrets(x.m.ActiveID(), []uint64{amount}, []string{secret})
	}
	sigs, err := x.m.M.MintTokens(nut04.PostMintBolt11Request{Quote: q.Id, Outputs: world.Msgs(outs)})
	if err != nil {
		return cashu.Proof{}, err
	}
	x.Ops++
	ps, err := world.Unblind(sigs, outs, x.m.Keys(x.m.ActiveID()))
	if err != nil {
		return cashu.Proof{}, err
	}
	return ps[0], nil
}

// outputsFor builds fresh plain outputs whose sum equals the sum of the inputs (at least two outputs when possible).
func (x *lkMint) outputsFor(ins cashu.Proofs) cashu.BlindedMessages {
	var sum uint64
	for _, p := range ins {
		sum += p.Amount
	}
	am := world.Split(sum)
	if len(am) == 1 && sum > 1 {
		am = []uint64{sum / 2, sum / 2}
	}
	return world.Msgs(x.u.Outputs(x.m.ActiveID(), am...))
}

// swap / melt return ("accept" | "reject: …" | "panic: …").
func (x *lkMint) swap(ins cashu.Proofs, outs cashu.BlindedMessages) string {
	var err error
	x.Ops++
	if p := lkSafe(func() { _, err = x.m.M.Swap(append(cashu.Proofs{}, ins...), append(cashu.BlindedMessages{}, outs...)) }); p != "" {
		return "panic: " + p
	}
	if err != nil {
		return "reject: " + err.Error()
	}
	return "accept"
}

func (x *lkMint) melt(ins cashu.Proofs) (string, error) {
	if x.meltQ == "" {
		inv := x.ln.NewExternalInvoice(4)
		mq, err := x.m.MeltQuote(inv.Request)
		if err != nil {
			return "", fmt.Errorf("melt quote: %v", err)
		}
		x.Ops++
		x.meltQ = mq.Id
	}
	var err error
	x.Ops++
	if p := lkSafe(func() {
		_, err = x.m.M.MeltTokens(context.Background(), nut05.PostMeltBolt11Request{Quote: x.meltQ, Inputs: append(cashu.Proofs{}, ins...)})
	}); p != "" {
		x.meltQ = ""
		return "panic: " + p, nil
	}
	if err != nil {
		return "reject: " + err.Error(), nil
	}
	x.meltQ = ""
	return "accept", nil
}

// control: a plain swap and a plain melt must work, otherwise the harness (not the repository) is broken.
func (x *lkMint) control() error {
	a, err := x.mintProof(1, "")
	if err != nil {
		return err
	}
	b, err := x.mintProof(4, "")
	if err != nil {
		return err
	}
	ins := cashu.Proofs{a, b}
	if r := x.swap(ins, x.outputsFor(ins)); r != "accept" {
		return fmt.Errorf("control swap of plain proofs: %s", r)
	}
	if r := x.swap(ins, x.outputsFor(ins)); r == "accept" {
		return fmt.Errorf("control: spent proofs swapped again")
	}
	c, err := x.mintProof(8, "")
	if err != nil {
		return err
	}
	r, err := x.melt(cashu.Proofs{c})
	if err != nil {
		return err
	}
	if r != "accept" {
		return fmt.Errorf("control melt of a plain proof: %s", r)
	}
	return nil
}

// lkBank keeps unspent proofs for reuse: a REJECTED operation leaves its inputs unspent.
type lkBank struct {
	x     *lkMint
	slots map[string]*cashu.Proof
}

func (b *lkBank) get(slot string, amount uint64, mkSecret func() string) (cashu.Proof, error) {
	if p := b.slots[slot]; p != nil {
		return *p, nil
	}
	secret := ""
	if mkSecret != nil {
		secret = mkSecret()
	}
	p, err := b.x.mintProof(amount, secret)
	if err != nil {
		return p, err
	}
	b.slots[slot] = &p
	return p, nil
}

func (b *lkBank) consumed(slots []string) {
	for _, s := range slots {
		delete(b.slots, s)
	}
}

// dropLocked forgets the locked proofs of previous configurations (bounds memory; they stay unspent in the mint).
func (b *lkBank) dropLocked(keepPrefix string) {
	for k := range b.slots {
		if strings.HasPrefix(k, "L|") && !strings.HasPrefix(k, keepPrefix) {
			delete(b.slots, k)
		}
	}
}

// lkSwapExp is the statement's verdict for a whole swap / melt request.
type lkSwapExp struct {
	lkVerdict
	SigAllAny   bool
	AllSigAll   bool
	FirstSigAll int
	PlainBefore bool // an input without spending condition precedes the first SIG_ALL input
	OutputsOK   bool // every output carries the witness the common condition demands
}

// lkOutputOK evaluates one output witness against the (common) condition p over SHA-256(hex-decoded B_).
// ok: satisfied; soft: the statement leaves this case open (HTLC without threshold and without a valid signature).
func lkOutputOK(p lkParsed, bm cashu.BlindedMessage, v *lkVerifier) (ok, soft bool, why string) {
	B, err := hex.DecodeString(bm.B_)
	if err != nil {
		return false, false, "B_ is not hex"
	}
	msg := lkSha(B)
	w := lkParseWitness(bm.Witness)
	keys, t := p.authorised()
	if p.Kind == "HTLC" {
		lock, err := hex.DecodeString(p.Data)
		if len(p.Data) != 64 || err != nil || len(lock) != 32 {
			return false, false, "lock value is not 32 bytes"
		}
		if w.Preimage == nil {
			return false, false, "output carries no preimage"
		}
		pre, err := hex.DecodeString(*w.Preimage)
		if err != nil || hex.EncodeToString(lkSha(pre)) != strings.ToLower(p.Data) {
			return false, false, "output carries a wrong preimage"
		}
		if p.Data != strings.ToLower(p.Data) {
			soft = true
		}
	}
	got := lkDistinctSigners(v, w.Signatures, keys, msg)
	if lkHasTextDup(w.Signatures) {
		soft = true
	}
	if t == 0 {
		// HTLC without a signature threshold: the statement demands the preimage; whether a signature by a
		// listed key is needed on top is left open -> only defined when one is present.
		if got >= 1 {
			return true, soft, ""
		}
		return true, true, "no threshold set: signature on outputs not defined"
	}
	if got < t {
		return false, false, fmt.Sprintf("output signed by %d distinct authorised key(s), %d required", got, t)
	}
	return true, soft, ""
}

func lkExpect(op string, ins cashu.Proofs, outs cashu.BlindedMessages, now int64, v *lkVerifier) lkSwapExp {
	e := lkSwapExp{FirstSigAll: -1, AllSigAll: true}
	parsed := make([]lkParsed, len(ins))
	isLocked := make([]bool, len(ins))
	soft := ""
	var reject *lkVerdict
	for i, in := range ins {
		p, ok := lkParseSecret(in.Secret)
		parsed[i], isLocked[i] = p, ok
		if ok && p.SigAll {
			if e.FirstSigAll < 0 {
				e.FirstSigAll = i
			}
			e.SigAllAny = true
		} else {
			e.AllSigAll = false
			if !ok && e.FirstSigAll < 0 {
				e.PlainBefore = true
			}
		}
		vd := lkRef(in.Secret, in.Witness, now, v)
		if !vd.Accept && reject == nil {
			r := vd
			r.Why = fmt.Sprintf("input %d: %s", i, vd.Why)
			reject = &r
		}
		if vd.DontCare && soft == "" {
			soft = fmt.Sprintf("input %d: %s", i, vd.Why)
		}
	}
	if !e.SigAllAny {
		e.PlainBefore = false
	}
	// outputs against the condition of the first SIG_ALL input
	pastLock := e.SigAllAny && parsed[e.FirstSigAll].HasLock && now > parsed[e.FirstSigAll].Locktime
	if pastLock && soft == "" {
		// "anyone can spend / refund key" versus "every output is signed": the statement does not say which wins
		soft = "SIG_ALL after the locktime: who signs the outputs is not defined"
	}
	if e.SigAllAny && op == "swap" && !pastLock {
		e.OutputsOK = true
		for j, bm := range outs {
			ok, s, why := lkOutputOK(parsed[e.FirstSigAll], bm, v)
			if !ok {
				e.OutputsOK = false
				if reject == nil {
					reject = &lkVerdict{Why: fmt.Sprintf("SIG_ALL: output %d: %s", j, why)}
				}
			} else if s && soft == "" {
				soft = fmt.Sprintf("SIG_ALL: output %d: %s", j, why)
			}
		}
	}
	if reject != nil {
		e.lkVerdict = *reject
		return e
	}
	if pastLock {
		// every input satisfies its own rule; what SIG_ALL adds after the locktime is not defined by the statement
		e.lkVerdict = lkVerdict{Accept: true, DontCare: true, Why: soft}
		return e
	}
	if e.SigAllAny {
		if op == "melt" {
			e.lkVerdict = lkVerdict{Why: "an input carries SIG_ALL: cannot be melted"}
			return e
		}
		cond := parsed[e.FirstSigAll].CondString
		for i := range ins {
			if !isLocked[i] || parsed[i].CondString != cond {
				e.lkVerdict = lkVerdict{Why: fmt.Sprintf("SIG_ALL: input %d does not share the condition of input %d", i, e.FirstSigAll)}
				return e
			}
		}
	}
	e.lkVerdict = lkVerdict{Accept: true, Why: "all inputs and outputs satisfy the statement"}
	if soft != "" {
		e.DontCare, e.Why = true, soft
	}
	return e
}

// lkSigAllPosition names where the SIG_ALL input(s) sit.
func (e lkSwapExp) position(n int) string {
	switch {
	case e.AllSigAll && n == 1:
		return "only"
	case e.AllSigAll:
		return "all"
	case e.FirstSigAll == 0:
		return "first"
	case e.FirstSigAll == n-1:
		return "last"
	}
	return "middle"
}

// lkJobRes is what a layer-2 worker job returns.
type lkJobRes struct {
	Evals, Accept, Reject, Dont int64
	ImplAccept, ImplReject      int64
	MintOps                     int64
	Distinct                    []string
	Viol                        []rt.Violation
	Infos                       []string
	Samples                     []any
	DontByWhy                   map[string]int64
	ByFamily                    map[string][2]int64 // family -> {impl accept, impl reject}
	Err                         string
}

type lkCaseRes struct {
	ID       string
	Family   string
	Expected lkSwapExp
	Observed string
	VKey     string
	What     string
	Info     string
	Detail   map[string]any
}

func (r *lkJobRes) add(prop string, cr lkCaseRes, replay any) {
	r.Evals++
	f := r.ByFamily[cr.Family]
	if cr.Observed == "accept" {
		r.ImplAccept++
		f[0]++
	} else {
		r.ImplReject++
		f[1]++
	}
	r.ByFamily[cr.Family] = f
	if cr.Info != "" {
		r.Infos = append(r.Infos, cr.Info)
	}
	panicked := strings.HasPrefix(cr.Observed, "panic")
	if cr.Expected.DontCare && !panicked {
		r.Dont++
		r.DontByWhy[lkDontClass(cr.Expected.Why)]++
		return
	}
	r.Distinct = append(r.Distinct, "L2|"+cr.ID)
	if cr.Expected.Accept {
		r.Accept++
	} else {
		r.Reject++
	}
	if cr.VKey != "" {
		r.Viol = append(r.Viol, rt.Violation{Property: prop, Key: cr.VKey, What: cr.What, Replay: replay})
	}
	if len(r.Samples) < 2 && cr.Detail != nil && (len(r.Samples) == 0) == (cr.Observed == "accept") {
		r.Samples = append(r.Samples, cr.Detail)
	}
}

// lkMergeJobs runs the jobs on the pool and merges counts, distinct keys and violations into the context.
func lkMergeJobs(c *rt.Ctx, prop string, jobs []any) *lkJobRes {
	tot := &lkJobRes{DontByWhy: map[string]int64{}, ByFamily: map[string][2]int64{}}
	viol := make([][]rt.Violation, len(jobs)) // reported in enumeration order
	samples := make([][]any, len(jobs))
	c.Pool.Map(jobs, func(i int, r rt.JobResult) {
		if r.Died {
			rt.HarnessError("%s: layer-2 worker died on job %d: %s", prop, i, r.Stderr)
		}
		var jr lkJobRes
		if err := json.Unmarshal(r.Out, &jr); err != nil {
			rt.HarnessError("%s: unreadable job result: %v", prop, err)
		}
		if jr.Err != "" {
			rt.HarnessError("%s: layer-2 job %d: %s", prop, i, jr.Err)
		}
		tot.Evals += jr.Evals
		tot.Accept += jr.Accept
		tot.Reject += jr.Reject
		tot.Dont += jr.Dont
		tot.ImplAccept += jr.ImplAccept
		tot.ImplReject += jr.ImplReject
		tot.MintOps += jr.MintOps
		for k, n := range jr.DontByWhy {
			tot.DontByWhy[k] += n
		}
		for k, n := range jr.ByFamily {
			f := tot.ByFamily[k]
			f[0] += n[0]
			f[1] += n[1]
			tot.ByFamily[k] = f
		}
		for _, d := range jr.Distinct {
			c.Distinct(d)
		}
		viol[i] = jr.Viol
		samples[i] = jr.Samples
		for _, s := range jr.Infos {
			c.Info(s)
		}
	})
	for i := range jobs {
		for _, v := range viol[i] {
			c.AddViolation(v)
		}
		if i%16 == 0 {
			for _, s := range samples[i] {
				c.Sample(s)
			}
		}
	}
	c.Count("evaluations", tot.Evals)
	return tot
}

func lkFamilyCov(m map[string][2]int64) map[string]any {
	out := map[string]any{}
	for k, v := range m {
		out[k] = map[string]int64{"impl_accept": v[0], "impl_reject": v[1]}
	}
	return out
}

func lkChunk[T any](cases []T, n int) [][]T {
	if n < 1 {
		n = 1
	}
	size := (len(cases) + n - 1) / n
	if size < 1 {
		size = 1
	}
	var out [][]T
	for i := 0; i < len(cases); i += size {
		j := i + size
		if j > len(cases) {
			j = len(cases)
		}
		out = append(out, cases[i:j])
	}
	return out
}

// =============================================================================================
// C12 layer 2: cases
// =============================================================================================

type c12Case struct {
	Kind string `json:"kind"` // pos | sigall
	Cfg  lkCfg  `json:"cfg"`
	Op   string `json:"op"`            // swap | melt
	Wit  string `json:"wit,omitempty"` // pos: canonical | none | threshold-minus-1
	Pos  string `json:"pos,omitempty"` // pos: only | first | middle | last
	In   string `json:"in,omitempty"`  // sigall: input variant
	Out  string `json:"out,omitempty"` // sigall: output variant
}

func (cs c12Case) ID() string {
	return fmt.Sprintf("%s|%s|%s|wit=%s|pos=%s|in=%s|out=%s", cs.Kind, cs.Cfg.ID(), cs.Op, cs.Wit, cs.Pos, cs.In, cs.Out)
}

var (
	c12L2Wits      = []string{"canonical", "none", "threshold-minus-1"}
	c12L2Positions = []string{"only", "first", "middle", "last"}
	c12SigAllIns   = []string{"all-same-1", "all-same-2", "all-same-3",
		"differs-key-first", "differs-key-last", "differs-nsigs-first", "differs-nsigs-last", "differs-flag-first", "differs-flag-last",
		"plain-first", "plain-middle", "plain-last",
		"differs-locktime-last", "differs-refund-last"} // the last two are recorded as information only
	c12SigAllOuts = []string{"all-signed", "none", "all-but-first", "all-but-last", "foreign"}
)

// c12SigAllBases: the SIG_ALL conditions of the matrix.
func c12SigAllBases(quick bool) []lkCfg {
	var out []lkCfg
	locks := []string{"", "future"}
	if quick {
		locks = locks[:1]
	}
	for _, lt := range locks {
		for _, rf := range c12Refunds[:2] {
			for _, b := range []lkCfg{
				{Kind: "P2PK", Data: "K1", NSigs: -1},
				{Kind: "P2PK", Data: "K1", NSigs: 1, PubTag: true, Pubkeys: []string{"K2"}},
				{Kind: "P2PK", Data: "K1", NSigs: 2, PubTag: true, Pubkeys: []string{"K2", "K3"}},
			} {
				b.Lock, b.Refund, b.Sigflag = lt, rf, "SIG_ALL"
				out = append(out, b)
			}
		}
	}
	return out
}

// lkTooLong: the mint refuses secrets above cashu.MAX_SECRET_LENGTH (512 bytes) before looking at the lock; such
// configurations (three co-signers plus two refund keys) cannot be taken through the mint at all.
func lkTooLong(cfg lkCfg) bool {
	return len(cfg.Render(lkNonce("len"), time.Now().Unix())) > cashu.MAX_SECRET_LENGTH
}

// c12L2Cases enumerates layer 2, configuration-major so that workers can reuse unspent proofs.
func c12L2Cases(quick bool) []c12Case {
	var out []c12Case
	for _, cfg := range c12Configs() {
		if cfg.malformed() != "" || lkTooLong(cfg) {
			continue
		}
		if quick && (cfg.Lock != "" || cfg.NSigs > 2) {
			continue
		}
		for _, op := range []string{"swap", "melt"} {
			for _, wit := range c12L2Wits {
				if wit == "threshold-minus-1" && cfg.threshold() < 2 {
					continue // identical to "none"
				}
				for _, pos := range c12L2Positions {
					out = append(out, c12Case{Kind: "pos", Cfg: cfg, Op: op, Wit: wit, Pos: pos})
				}
			}
		}
	}
	for _, b := range c12SigAllBases(quick) {
		for _, in := range c12SigAllIns {
			for _, o := range c12SigAllOuts {
				out = append(out, c12Case{Kind: "sigall", Cfg: b, Op: "swap", In: in, Out: o})
			}
			out = append(out, c12Case{Kind: "sigall", Cfg: b, Op: "melt", In: in})
		}
	}
	return out
}

// c12InputSigners: who signs the canonical witness of a proof locked with cfg (first one through the library helper).
func c12InputSigners(cfg lkCfg, wit string) []string {
	if wit == "none" {
		return nil
	}
	A := cfg.authLabels()
	t := cfg.threshold()
	if wit == "threshold-minus-1" {
		t--
	} else if cfg.phase() == "after-locktime-refund" {
		return []string{cfg.Refund[0]}
	}
	if t > len(A) {
		t = len(A)
	}
	return A[:t]
}

// c12AttachWitness: first signature by nut11.AddSignatureToInputs, further ones added in the same wire format.
func c12AttachWitness(p cashu.Proof, signers []string) (cashu.Proof, error) {
	p.Witness = ""
	if len(signers) == 0 {
		return p, nil
	}
	ps, err := nut11.AddSignatureToInputs(cashu.Proofs{p}, lkK(signers[0]).Priv)
	if err != nil {
		return p, err
	}
	p = ps[0]
	if len(signers) > 1 {
		w := lkParseWitness(p.Witness)
		msg := lkSha([]byte(p.Secret))
		for _, l := range signers[1:] {
			w.Signatures = append(w.Signatures, lkSign(l, msg, 0))
		}
		p.Witness = lkWitnessJSON("P2PK", "", w.Signatures)
	}
	return p, nil
}

// c12SignOutputs: output witnesses of a variant for the SIG_ALL condition cfg.
func c12SignOutputs(cfg lkCfg, msgs cashu.BlindedMessages, variant string) (cashu.BlindedMessages, error) {
	msgs = append(cashu.BlindedMessages{}, msgs...)
	if variant == "none" {
		return msgs, nil
	}
	if variant == "foreign" {
		return nut11.AddSignatureToOutputs(msgs, lkK("F").Priv)
	}
	A := cfg.authLabels()
	t := cfg.threshold()
	if t > len(A) {
		t = len(A)
	}
	signed, err := nut11.AddSignatureToOutputs(msgs, lkK(A[0]).Priv)
	if err != nil {
		return nil, err
	}
	for i := range signed {
		if t > 1 {
			w := lkParseWitness(signed[i].Witness)
			B, _ := hex.DecodeString(signed[i].B_)
			for _, l := range A[1:t] {
				w.Signatures = append(w.Signatures, lkSign(l, lkSha(B), 0))
			}
			signed[i].Witness = lkWitnessJSON("P2PK", "", w.Signatures)
		}
	}
	switch variant {
	case "all-but-first":
		signed[0].Witness = ""
	case "all-but-last":
		signed[len(signed)-1].Witness = ""
	}
	return signed, nil
}

// c12Variant derives the differing condition of a SIG_ALL input variant.
func c12Variant(base lkCfg, what string) lkCfg {
	v := base
	switch what {
	case "key":
		v.Data = "K4"
	case "nsigs":
		switch {
		case base.NSigs <= 0:
			v.NSigs, v.PubTag, v.Pubkeys = 1, true, []string{"K2"}
		case base.NSigs == 1:
			v.NSigs = 2
		default:
			v.NSigs = 1
		}
	case "flag":
		v.Sigflag = "SIG_INPUTS"
	case "locktime":
		if base.Lock == "" {
			v.Lock = "future"
		} else {
			v.Lock = ""
		}
	case "refund":
		if len(base.Refund) == 0 {
			v.Refund = []string{"R1"}
		} else {
			v.Refund = nil
		}
	}
	return v
}

type c12InputSpec struct {
	Plain  bool
	Cfg    lkCfg
	Amount uint64
	Slot   string
	Wit    string
}

// c12Layout: the input list of a case (which proofs, in which order, with which witness).
func c12Layout(cs c12Case) []c12InputSpec {
	L := func(cfg lkCfg, amount uint64, idx int, wit string) c12InputSpec {
		return c12InputSpec{Cfg: cfg, Amount: amount, Slot: fmt.Sprintf("L|%s|%d|%d", cfg.ID(), amount, idx), Wit: wit}
	}
	P := func(amount uint64) c12InputSpec {
		return c12InputSpec{Plain: true, Amount: amount, Slot: fmt.Sprintf("P|%d", amount)}
	}
	if cs.Kind == "pos" {
		switch cs.Pos {
		case "only":
			return []c12InputSpec{L(cs.Cfg, 8, 0, cs.Wit)}
		case "first":
			return []c12InputSpec{L(cs.Cfg, 1, 0, cs.Wit), P(4), P(2)}
		case "middle":
			return []c12InputSpec{P(4), L(cs.Cfg, 1, 0, cs.Wit), P(2)}
		default:
			return []c12InputSpec{P(4), P(2), L(cs.Cfg, 1, 0, cs.Wit)}
		}
	}
	b := cs.Cfg
	can := "canonical"
	parts := strings.Split(cs.In, "-")
	switch {
	case cs.In == "all-same-1":
		return []c12InputSpec{L(b, 8, 0, can)}
	case cs.In == "all-same-2":
		return []c12InputSpec{L(b, 4, 0, can), L(b, 1, 1, can)}
	case cs.In == "all-same-3":
		return []c12InputSpec{L(b, 4, 0, can), L(b, 1, 1, can), L(b, 2, 2, can)}
	case parts[0] == "differs":
		v := c12Variant(b, parts[1])
		if parts[2] == "first" {
			return []c12InputSpec{L(v, 4, 0, can), L(b, 1, 1, can)}
		}
		return []c12InputSpec{L(b, 4, 0, can), L(v, 1, 1, can)}
	case cs.In == "plain-first":
		return []c12InputSpec{P(2), L(b, 4, 0, can), L(b, 1, 1, can)}
	case cs.In == "plain-middle":
		return []c12InputSpec{L(b, 4, 0, can), P(2), L(b, 1, 1, can)}
	case cs.In == "plain-last":
		return []c12InputSpec{L(b, 4, 0, can), L(b, 1, 1, can), P(2)}
	}
	panic("c12: unknown input variant " + cs.In)
}

func c12InClass(cs c12Case) string {
	if cs.Kind == "sigall" {
		return cs.In
	}
	switch cs.Pos {
	case "only":
		return "single-input"
	case "first":
		return "plain-inputs-after"
	case "middle":
		return "plain-inputs-around"
	}
	return "plain-inputs-before"
}

// c12KeyL2 names the class of a layer-2 disagreement.
func c12KeyL2(cs c12Case, e lkSwapExp, nIn int, observed string) string {
	if strings.HasPrefix(observed, "panic") {
		return "C12/layer2/panic/" + cs.Op + "/" + c12InClass(cs)
	}
	accepted := observed == "accept"
	inputLevel := accepted && strings.HasPrefix(e.Why, "input ") // an input fails its own rule: not a SIG_ALL matter
	if e.SigAllAny && !inputLevel {
		switch {
		case accepted && cs.Op == "melt":
			return "C12/sigall/melt-accepted/position=" + e.position(nIn)
		case accepted && e.PlainBefore && e.OutputsOK:
			return "C12/sigall/plain-input-first/mixed-inputs-accepted"
		case accepted && e.PlainBefore:
			return "C12/sigall/plain-input-first/outputs-unsigned-accepted"
		case accepted:
			out := cs.Out
			if out == "" {
				out = "all-signed"
			}
			return "C12/sigall/" + c12InClass(cs) + "/accepted/outputs=" + out
		}
		return "C12/sigall/canonical-witness-rejected/" + c12InClass(cs) + "/" + cs.Cfg.phase()
	}
	if accepted {
		return fmt.Sprintf("C12/layer2/%s/accepted-without-required-signatures/witness=%s/position=%s/%s", cs.Op, cs.Wit, cs.Pos, cs.Cfg.phase())
	}
	return fmt.Sprintf("C12/layer2/%s/%s-witness-rejected/position=%s/%s", cs.Op, cs.Wit, cs.Pos, cs.Cfg.phase())
}

type c12Runner struct {
	x    *lkMint
	bank *lkBank
	now  int64
	v    *lkVerifier
	last string
}

func newC12Runner(tag string, now int64) (*c12Runner, error) {
	x, err := lkNewMint(tag)
	if err != nil {
		return nil, err
	}
	if err := x.control(); err != nil {
		x.close()
		return nil, err
	}
	return &c12Runner{x: x, bank: &lkBank{x: x, slots: map[string]*cashu.Proof{}}, now: now, v: newLkVerifier()}, nil
}

// run executes one layer-2 case on the real mint and compares with the statement.
func (r *c12Runner) run(cs c12Case) (lkCaseRes, error) {
	res := lkCaseRes{ID: cs.ID(), Family: cs.Kind + "/" + cs.Op}
	if cs.Cfg.ID() != r.last {
		r.last = cs.Cfg.ID()
		r.bank.dropLocked("L|" + r.last)
		if len(r.v.cache) > 4000 || len(r.v.sigs) > 4000 {
			r.v = newLkVerifier()
		}
	}
	layout := c12Layout(cs)
	ins := make(cashu.Proofs, len(layout))
	slots := make([]string, len(layout))
	var shape []string
	for i, sp := range layout {
		sp := sp
		var mk func() string
		if !sp.Plain {
			mk = func() string { return sp.Cfg.Render(r.x.nonce(), r.now) }
		}
		p, err := r.bank.get(sp.Slot, sp.Amount, mk)
		if err != nil {
			return res, fmt.Errorf("minting input %s: %v", sp.Slot, err)
		}
		if sp.Plain {
			shape = append(shape, fmt.Sprintf("plain(%d)", sp.Amount))
		} else {
			signers := c12InputSigners(sp.Cfg, sp.Wit)
			if p, err = c12AttachWitness(p, signers); err != nil {
				return res, err
			}
			shape = append(shape, fmt.Sprintf("locked(%d){%s}signed-by[%s]", sp.Amount, sp.Cfg.ID(), strings.Join(signers, ",")))
		}
		ins[i], slots[i] = p, sp.Slot
	}
	var outs cashu.BlindedMessages
	if cs.Op == "swap" {
		outs = r.x.outputsFor(ins)
		variant := cs.Out
		if cs.Kind == "pos" {
			variant = "none"
			if cs.Cfg.Sigflag == "SIG_ALL" {
				variant = "all-signed"
			}
		}
		var err error
		if outs, err = c12SignOutputs(cs.Cfg, outs, variant); err != nil {
			return res, err
		}
	}
	res.Expected = lkExpect(cs.Op, ins, outs, r.now, r.v)
	if cs.Op == "swap" {
		res.Observed = r.x.swap(ins, outs)
	} else {
		o, err := r.x.melt(ins)
		if err != nil {
			return res, err
		}
		res.Observed = o
	}
	if res.Observed == "accept" || strings.HasPrefix(res.Observed, "panic") {
		r.bank.consumed(slots)
	}
	res.Detail = map[string]any{"layer": 2, "case": cs.ID(), "inputs": shape, "outputs": len(outs), "statement": res.Expected.String(), "why": res.Expected.Why, "mint": res.Observed}
	mismatch := strings.HasPrefix(res.Observed, "panic") || (!res.Expected.DontCare && (res.Observed == "accept") != res.Expected.Accept)
	if cs.Kind == "pos" && cs.Pos == "only" && cs.Wit == "canonical" && cs.Cfg.threshold() <= len(cs.Cfg.authLabels()) && !res.Expected.Accept && !(cs.Op == "melt" && res.Expected.SigAllAny) {
		// guards the oracle: the witness of the library's own helpers must satisfy the statement for a satisfiable lock
		res.VKey = "C12/layer2/helper-witness-does-not-satisfy-the-statement/" + cs.Op
		res.What = fmt.Sprintf("layer 2: inputs %v: the canonical witness made by nut11.AddSignatureToInputs / AddSignatureToOutputs is judged %s by the statement (%s); mint -> %s", shape, res.Expected, res.Expected.Why, res.Observed)
		res.Expected.DontCare = false
		return res, nil
	}
	if mismatch {
		what := fmt.Sprintf("layer 2 Mint.%s: inputs %v; outputs: %s; statement says %s (%s); mint -> %s", cs.Op, shape, c12OutDesc(cs), res.Expected, res.Expected.Why, res.Observed)
		if cs.Kind == "sigall" && (strings.HasPrefix(cs.In, "differs-locktime") || strings.HasPrefix(cs.In, "differs-refund")) && !strings.HasPrefix(res.Observed, "panic") {
			// the task limits the demanded matrix to key / n_sigs / sigflag / plain; this one is information
			res.Info = "C12 SIG_ALL inputs that differ only in " + strings.Split(cs.In, "-")[1] + " are swapped together (" + cs.Op + ", outputs " + cs.Out + ")"
			res.Expected.DontCare = true
			res.Expected.Why = "; differs only in locktime/refund: recorded as information"
		} else {
			res.VKey = c12KeyL2(cs, res.Expected, len(ins), res.Observed)
			res.What = what
		}
	}
	return res, nil
}

func c12OutDesc(cs c12Case) string {
	if cs.Op != "swap" {
		return "-"
	}
	if cs.Kind == "sigall" {
		return cs.Out
	}
	if cs.Cfg.Sigflag == "SIG_ALL" {
		return "all-signed (helper)"
	}
	return "plain"
}

type c12Job struct {
	Now   int64
	Tag   string
	Cases []c12Case
}

func workerC12(job json.RawMessage) (any, error) {
	var j c12Job
	if err := json.Unmarshal(job, &j); err != nil {
		return nil, err
	}
	out := &lkJobRes{DontByWhy: map[string]int64{}, ByFamily: map[string][2]int64{}}
	r, err := newC12Runner(j.Tag, j.Now)
	if err != nil {
		out.Err = err.Error()
		return out, nil
	}
	defer r.x.close()
	for _, cs := range j.Cases {
		cr, err := r.run(cs)
		if err != nil {
			out.Err = fmt.Sprintf("case %s: %v", cs.ID(), err)
			break
		}
		out.add("C12", cr, map[string]any{"layer": 2, "case": cs})
	}
	out.MintOps = r.x.Ops
	return out, nil
}

// =============================================================================================
// C12 coordinator and replay
// =============================================================================================

func runC12(c *rt.Ctx) {
	if err := ref.SelfTest(); err != nil {
		rt.HarnessError("C12: reference secp256k1 self-test: %v", err)
	}
	if err := lkSelfTest(); err != nil {
		rt.HarnessError("C12: evaluator self-validation failed: %v", err)
	}
	now := time.Now().Unix()
	c.Cov["rule"] = "layer 1: nested loops over lock configuration (n_sigs x pubkeys tag x locktime x refund x sigflag, plus key lists with repetitions / thresholds above the number of distinct keys / a non-hex lock key) x witness kind, each evaluated by nut11.VerifyP2PKLockedProof and by the harness interpreter of the statement (own tag parsing, own BIP340 verification); layer 2: the well-formed configurations as really signed proofs through Mint.Swap and Mint.MeltTokens x witness {canonical from AddSignatureToInputs, none, threshold-1} x position {only, first, middle, last} among plain inputs, and the SIG_ALL matrix base condition x input variant x output variant. A case is distinct by (configuration, rendered witness shape) in layer 1 and by (configuration, operation, witness, position / input variant, output variant) in layer 2; it is counted as non-trivial only if the statement defines its outcome (don't-care cases - malformed tags, witnesses repeating a signature text that otherwise satisfy the threshold, SIG_ALL after the locktime - are executed and counted separately, never compared)"
	c.Cov["alphabet"] = map[string]any{
		"keys": lkKeyLabels, "n_sigs": []string{"absent", "0", "1", "2", "3", "4"}, "pubkeys_tag": []string{"absent", "present-empty", "[K2]", "[K2,K3]", "[K2,K3,K4]"},
		"locktime": []string{"absent", "past(now-10^6)", "future(now+10^6)"}, "refund": []string{"absent", "[R1]", "[R1,R2]"}, "sigflag": []string{"absent", "SIG_INPUTS", "SIG_ALL"},
		"degenerate_key_lists": len(c12Degenerate), "witness_kinds": c12WitKinds,
		"layer2_witnesses": c12L2Wits, "layer2_positions": c12L2Positions, "layer2_operations": []string{"swap", "melt"},
		"sigall_base_conditions": len(c12SigAllBases(c.Quick())), "sigall_input_variants": c12SigAllIns, "sigall_output_variants": c12SigAllOuts,
	}
	c.Assume("BIP340 verification of the evaluator is the harness's own math/big implementation, validated at start-up against BIP340 test vector 0 and against btcec-made signatures of all seven keys")
	c.Assume("locktimes are now-10^6 s / now+10^6 s: no outcome depends on the wall clock")
	t0 := time.Now()
	lkLibSerializer(c, "C12", "P2PK", now)
	c12Layer1(c, now)
	c.Cov["layer1_wall_s"] = time.Since(t0).Seconds()
	t1 := time.Now()
	defer func() { c.Cov["layer2_wall_s"] = time.Since(t1).Seconds() }()

	cases := c12L2Cases(c.Quick())
	tooLong := 0
	for _, cfg := range c12Configs() {
		if cfg.malformed() == "" && lkTooLong(cfg) {
			tooLong++
		}
	}
	c.Cov["layer2_configurations_skipped_secret_above_512_bytes"] = tooLong
	chunks := lkChunk(cases, 64)
	jobs := make([]any, len(chunks))
	for i, ch := range chunks {
		jobs[i] = c12Job{Now: now, Tag: fmt.Sprintf("c12-%d", i), Cases: ch}
	}
	if c.Expired() {
		return
	}
	tot := lkMergeJobs(c, "C12", jobs)
	c.Cov["layer2_cases"] = tot.Evals
	c.Cov["layer2_defined_accept"] = tot.Accept
	c.Cov["layer2_defined_reject"] = tot.Reject
	c.Cov["layer2_dontcare"] = tot.Dont
	c.Cov["layer2_dontcare_by_reason"] = tot.DontByWhy
	c.Cov["layer2_mint_accept"] = tot.ImplAccept
	c.Cov["layer2_mint_reject"] = tot.ImplReject
	c.Cov["layer2_by_family"] = lkFamilyCov(tot.ByFamily)
	c.Cov["mint_operations"] = tot.MintOps
	c.Cov["layer2_jobs"] = len(jobs)
	if tot.Accept == 0 || tot.Reject == 0 || tot.ImplAccept == 0 || tot.ImplReject == 0 {
		c.Cov["layer2_vacuous"] = true
	}
}

type lkReplayFile struct {
	Property string `json:"property"`
	Key      string `json:"key"`
	What     string `json:"what"`
	Replay   struct {
		Layer   int             `json:"layer"`
		Cfg     lkCfg           `json:"cfg"`
		Witness string          `json:"witness_kind"`
		Case    json.RawMessage `json:"case"`
	} `json:"replay"`
}

func lkReadReplay(path string) (*lkReplayFile, error) {
	b, err := os.ReadFile(path)
	if err != nil {
		return nil, err
	}
	var f lkReplayFile
	if err := json.Unmarshal(b, &f); err != nil {
		return nil, err
	}
	return &f, nil
}

func replayC12(path string) int {
	f, err := lkReadReplay(path)
	if err != nil {
		fmt.Println("replay: cannot read", path, err)
		return 2
	}
	now := time.Now().Unix()
	fmt.Printf("replay %s key=%s\n", f.Property, f.Key)
	if f.Replay.Layer == 1 {
		secret, witness, shape, vd, obs, err := c12EvalL1(f.Replay.Cfg, f.Replay.Witness, now, newLkVerifier())
		if err != nil {
			fmt.Println("replay:", err)
			return 2
		}
		fmt.Printf("  configuration: %s\n  secret: %s\n  witness (%s, %s): %s\n  statement: %s (%s)\n  nut11.VerifyP2PKLockedProof: %s\n", f.Replay.Cfg.ID(), secret, f.Replay.Witness, shape, witness, vd, vd.Why, obs)
		if strings.HasPrefix(obs, "panic") || (!vd.DontCare && (obs == "accept") != vd.Accept) {
			fmt.Println("  => still violates")
			return 1
		}
		fmt.Println("  => agrees now")
		return 0
	}
	var cs c12Case
	if err := json.Unmarshal(f.Replay.Case, &cs); err != nil {
		fmt.Println("replay: bad case:", err)
		return 2
	}
	r, err := newC12Runner("c12-replay", now)
	if err != nil {
		fmt.Println("replay: harness:", err)
		return 2
	}
	defer r.x.close()
	cr, err := r.run(cs)
	if err != nil {
		fmt.Println("replay: harness:", err)
		return 2
	}
	b, _ := json.MarshalIndent(cr.Detail, "  ", " ")
	fmt.Printf("  %s\n", b)
	if cr.VKey != "" {
		fmt.Printf("  => still violates (%s)\n     %s\n", cr.VKey, cr.What)
		return 1
	}
	fmt.Println("  => agrees now")
	return 0
}

var _ = sort.Strings
