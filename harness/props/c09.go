package props

import (
	"encoding/json"
	"fmt"
	"sort"
	"time"

	"verif/harness/bfs"
	"verif/harness/mintops"
	"verif/harness/rt"
	"verif/harness/world"
)

// C09 — keyset lifecycle. E3 over restarts / rotations with varying fees interleaved with traffic on old and new keysets.

func c09Menu(w *mintops.W) []string {
	var ops []string
	if len(w.Keysets) < 4 {
		for _, f := range []int{0, 100, 1000} {
			ops = append(ops, fmt.Sprintf("rotate|%d", f))
		}
		ops = append(ops, "rotrt|100", "rotrt|0")
	}
	ops = append(ops, "restart")
	// traffic: one proof of each keyset (oldest unspent), and pairs of mixed keysets
	byKS := map[int]int{}
	for _, i := range w.UnspentIdx(40) {
		if _, ok := byKS[w.Proofs[i].KS]; !ok {
			byKS[w.Proofs[i].KS] = i
		}
	}
	var ks []int
	for k := range byKS {
		ks = append(ks, k)
	}
	sort.Ints(ks)
	for _, k := range ks {
		i := byKS[k]
		ops = append(ops, fmt.Sprintf("swap|%d|exact", i), fmt.Sprintf("swap|%d|plus1", i), fmt.Sprintf("swap|%d|inactive", i), fmt.Sprintf("swap|%d|unknown", i))
		// the proof's keyset id spelled differently (upper case): not a keyset of this mint, and no fee is known for it
		ops = append(ops, fmt.Sprintf("swap|%du|exact", i))
	}
	if len(ks) >= 2 {
		// inputs of the oldest and the newest keyset in one request, in both orders (each charged its own fee)
		a, b := byKS[ks[0]], byKS[ks[len(ks)-1]]
		ops = append(ops, fmt.Sprintf("swap|%d,%d|exact", a, b), fmt.Sprintf("swap|%d,%d|plus1", a, b), fmt.Sprintf("swap|%d,%d|exact", b, a), fmt.Sprintf("swap|%d,%d|plus1", b, a))
	}
	if len(w.Quotes) < 3 {
		ops = append(ops, "mq|8")
	}
	for qi, q := range w.Quotes {
		if qi == 0 {
			continue
		}
		if q.Payments == 0 {
			ops = append(ops, fmt.Sprintf("settle|%d", qi))
		} else if q.Successes == 0 {
			ops = append(ops, fmt.Sprintf("mint|%d|exact", qi), fmt.Sprintf("mint|%d|inactive", qi), fmt.Sprintf("mint|%d|unknown", qi))
		}
	}
	if len(w.Melts) < 1 {
		ops = append(ops, "meltq|2")
	}
	for j, m := range w.Melts {
		if m.Known == "" {
			if in := w.PickMeltInputs(m, 0, 8); in != "" {
				ops = append(ops, fmt.Sprintf("melt|%d|%s|S", j, in))
			}
			if in := w.PickMeltInputs(m, -1, 8); in != "" {
				ops = append(ops, fmt.Sprintf("melt|%d|%s|S", j, in))
			}
		}
	}
	return ops
}

// c09Probe compares, in every state, the mint's keysets with the independent derivation (added in c09_ref.go once
// package ref is available) and checks that ListKeysets / GetKeysetById / GetActiveKeyset / the keysets table and,
// after a restart (empty handler cache), the three GET handlers agree.
func c09Probe(w *mintops.W) {
	t, err := w.ReadTables()
	if err != nil {
		return
	}
	list := w.M.M.ListKeysets().Keysets
	if len(list) != len(t.Keysets) || len(list) != len(w.Keysets) {
		w.Viol("C09", "keyset-count", "ListKeysets has %d, the store %d, %d were seen so far", len(list), len(t.Keysets), len(w.Keysets))
	}
	active := 0
	var activeID string
	for _, k := range list {
		if k.Active {
			active++
			activeID = k.Id
		}
		seen := w.KeysetByID(k.Id)
		if seen == nil {
			w.Viol("C09", "unknown-keyset-listed", "keyset %s listed but never seen", k.Id)
			continue
		}
		if seen.Fee != k.InputFeePpk {
			w.Viol("C09", "keyset-fee-changed", "keyset %d fee %d, was created with %d", seen.Idx, k.InputFeePpk, seen.Fee)
		}
		got, err := w.M.M.GetKeysetById(k.Id)
		if err != nil || len(got.Keys) != 60 {
			w.Viol("C09", "keyset-by-id", "GetKeysetById(%s): %v, %d keys", k.Id, err, len(got.Keys))
			continue
		}
		for a, pk := range got.Keys {
			if old := seen.Keys[a]; old == nil || !old.IsEqual(pk) {
				w.Viol("C09", "keyset-keys-changed", "keyset %d: public key for amount %d differs from the one first published", seen.Idx, a)
				break
			}
		}
		if mintops.RefCheckKeyset != nil {
			mintops.RefCheckKeyset(w, seen.Idx, k.Id, got.Keys)
		}
	}
	if active != 1 {
		w.Viol("C09", "active-keyset-count", "%d active keysets listed", active)
	}
	if last := w.Keysets[len(w.Keysets)-1]; activeID != last.Id {
		w.Viol("C09", "active-is-not-latest", "active keyset %s is not the last created %s", activeID, last.Id)
	}
	if a := w.M.M.GetActiveKeyset(); a.Id != activeID {
		w.Viol("C09", "get-active-keyset-disagrees", "GetActiveKeyset %s, ListKeysets says %s", a.Id, activeID)
	}
	for _, k := range t.Keysets {
		if k.Active != (k.Id == activeID) {
			w.Viol("C09", "store-active-flag-disagrees", "keysets table: %s active=%v, in-memory active is %s", k.Id, k.Active, activeID)
		}
	}
	// handlers (strict only when the handler-level cache is empty, i.e. on a freshly loaded server — every job's
	// final server instance has served no GET yet unless the history ended without a restart; the cache only holds
	// what these probes themselves put there within one server instance)
	code, body, pan := world.Do(w.M.H, "GET", "/v1/keysets", "\x00nobody")
	if pan != nil || code != 200 {
		w.Viol("C09,C20", "keysets-handler", "GET /v1/keysets: status %d panic %v", code, pan)
		return
	}
	var ksr struct {
		Keysets []struct {
			Id          string `json:"id"`
			Unit        string `json:"unit"`
			Active      bool   `json:"active"`
			InputFeePpk uint   `json:"input_fee_ppk"`
		} `json:"keysets"`
	}
	if json.Unmarshal([]byte(body), &ksr) != nil || len(ksr.Keysets) != len(list) {
		w.Viol("C09,C20", "keysets-handler-body", "GET /v1/keysets: %d keysets, ListKeysets has %d", len(ksr.Keysets), len(list))
	}
	for _, k := range ksr.Keysets {
		if k.Active != (k.Id == activeID) {
			w.Viol("C09", "keysets-handler-active", "GET /v1/keysets: %s active=%v, active keyset is %s", k.Id, k.Active, activeID)
		}
	}
	code, body, pan = world.Do(w.M.H, "GET", "/v1/keys", "\x00nobody")
	var kr struct {
		Keysets []struct {
			Id   string            `json:"id"`
			Keys map[string]string `json:"keys"`
		} `json:"keysets"`
	}
	if pan != nil || code != 200 || json.Unmarshal([]byte(body), &kr) != nil || len(kr.Keysets) != 1 {
		w.Viol("C09,C20", "keys-handler", "GET /v1/keys: status %d panic %v body %.60q", code, pan, body)
	} else if kr.Keysets[0].Id != activeID || len(kr.Keysets[0].Keys) != 60 {
		w.Viol("C09", "keys-handler-not-active", "GET /v1/keys (first request of this server instance) returned keyset %s with %d keys, active is %s", kr.Keysets[0].Id, len(kr.Keysets[0].Keys), activeID)
	}
}

func c09OwnSpecs(quick bool) []*bfs.Spec {
	d := 4
	if !quick {
		d = 5
	}
	sfx := map[bool]string{true: "-q", false: ""}[quick]
	specs := []*bfs.Spec{{Prop: "C09", Name: "C09-fee100" + sfx, Cfg: mintops.Config{Fee: 100}, Init: []string{"fund|8,4,2,1,1"}, Menu: c09Menu, Probe: c09Probe, Depth: d}}
	// ecash of a fee-free and of a fee-bearing keyset already in hand (both directions of the fee change)
	specs = append(specs,
		&bfs.Spec{Prop: "C09", Name: "C09-free-then-fee1000" + sfx, Cfg: mintops.Config{Fee: 0}, Init: []string{"fund|8,8", "rotate|1000", "fund|8,8"}, Menu: c09Menu, Probe: c09Probe, Depth: d - 2},
		&bfs.Spec{Prop: "C09", Name: "C09-fee1000-then-free" + sfx, Cfg: mintops.Config{Fee: 1000}, Init: []string{"fund|8,8", "rotate|0", "fund|8,8"}, Menu: c09Menu, Probe: c09Probe, Depth: d - 2})
	if !quick {
		specs = append(specs, &bfs.Spec{Prop: "C09", Name: "C09-fee0", Cfg: mintops.Config{Fee: 0}, Init: []string{"fund|8,4,2,1,1"}, Menu: c09Menu, Probe: c09Probe, Depth: d})
	}
	return specs
}

var c09All = specMap(c09Specs(true), c09Specs(false))

func init() {
	register(&Prop{ID: "C09", Level: "model_checking", QuickBudget: 300 * time.Second, ThoroughBudget: 25 * time.Minute,
		Run: func(c *rt.Ctx) {
			c.Cov["rule"] = "E3: every history up to the depth bound over {restart, restart+rotate(f), run-time rotate(f) for f in {0,100,1000}, mint on the active keyset, mint naming an inactive / unknown keyset, swap of the oldest unspent proof of each keyset to new outputs at inputs-fee and inputs-fee+1, swap to outputs naming an inactive / unknown keyset, mixed-keyset swaps, melt with inputs exactly sufficient and one short}, at most 4 keysets; in every state every keyset ever seen must still be listed with identical id, 60 keys and fee, ids must equal the independent NUT-02 derivation from the stored seed (m/0'/0'/idx'/i'), exactly one keyset is active and it is the last created, and ListKeysets / GetKeysetById / GetActiveKeyset / the keysets table / the GET handlers agree; the fee boundary is ceil(sum ppk of each input's own keyset / 1000)"
			runSpecs(c, c09Specs(c.Quick()))
			c.Cov["rule_schedules"] = "E1 (beyond the statement's sequential quantifier): a swap / a mint request overlapping a run-time keyset rotation, every interleaving at MintDB call granularity (preemption bound 2, then unbounded with state pruning); every signature handed out names the keyset the output asked for and verifies (DLEQ) under the key that keyset publishes for its amount"
			runSchedAll(c, "C09", []string{"K1-swap-rotate", "K2-mint-rotate"}, 2)
		},
		Worker: dispatchWorker(bfs.Worker(c09All)),
		Replay: func(p string) int {
			if code, ok := replaySched("C09", p); ok {
				return code
			}
			return bfs.ReplayFile("C09", c09All, p)
		},
	})
}

// c09Specs: the property's own searches plus the shallow search over the union of all mint-level menus (seqcommon.go).
func c09Specs(quick bool) []*bfs.Spec {
	return append(c09OwnSpecs(quick), unionSpecs("C09", c09Probe, quick)...)
}
