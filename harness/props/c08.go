package props

import (
	"encoding/base64"
	"encoding/hex"
	"encoding/json"
	"fmt"
	"strings"
	"sync"
	"time"

	"github.com/btcsuite/btcd/btcutil/hdkeychain"
	"github.com/btcsuite/btcd/chaincfg"
	"github.com/elnosh/gonuts/cashu"
	"github.com/elnosh/gonuts/cashu/nuts/nut13"
	"github.com/tyler-smith/go-bip39"

	"verif/harness/rt"
	"verif/harness/wworld"
)

// C08 — unlinkability: no blinding factor (and no output secret before it is spent) ever leaves a wallet towards a
// mint. E3 on the wallet world with a byte-level monitor in the transport.

type c08Mon struct {
	w *wworld.World
	// R: lower-case hex of every blinding factor known to the harness -> where it was learnt
	R map[string]string
	// S: deterministic output secrets (hex) -> origin
	S map[string]string
}

var (
	derivMu    sync.Mutex
	derivCache = map[string][2]string{} // mnemonic|keyset|counter -> {secret, r}
)

func nut13Pair(mnemonic, keysetID string, counter uint32) (string, string) {
	k := fmt.Sprintf("%s|%s|%d", mnemonic, keysetID, counter)
	derivMu.Lock()
	defer derivMu.Unlock()
	if v, ok := derivCache[k]; ok {
		return v[0], v[1]
	}
	seed := bip39.NewSeed(mnemonic, "")
	master, err := hdkeychain.NewMaster(seed, &chaincfg.MainNetParams)
	if err != nil {
		return "", ""
	}
	path, err := nut13.DeriveKeysetPath(master, keysetID)
	if err != nil {
		return "", ""
	}
	s, err1 := nut13.DeriveSecret(path, counter)
	r, err2 := nut13.DeriveBlindingFactor(path, counter)
	if err1 != nil || err2 != nil {
		return "", ""
	}
	v := [2]string{s, hex.EncodeToString(r.Serialize())}
	derivCache[k] = v
	return v[0], v[1]
}

func (m *c08Mon) learnProofs(origin string, ps cashu.Proofs) {
	for _, p := range ps {
		if p.DLEQ != nil && p.DLEQ.R != "" {
			m.R[strings.ToLower(p.DLEQ.R)] = origin
		}
	}
}

// refresh derives the NUT-13 (secret, r) pairs of every wallet seed for counters 0..stored+60 of every keyset.
func (m *c08Mon) refresh() {
	for _, ww := range m.w.Wallets {
		if ww.DB == nil {
			continue
		}
		for _, mk := range ww.DB.Inner.GetKeysets() {
			for _, k := range mk {
				for c := uint32(0); c < k.Counter+60; c++ {
					s, r := nut13Pair(ww.Mnemonic, k.Id, c)
					if r != "" {
						m.R[r] = fmt.Sprintf("NUT-13 blinding factor of %s keyset %s counter %d", ww.Name, k.Id, c)
						m.S[s] = fmt.Sprintf("NUT-13 secret of %s keyset %s counter %d", ww.Name, k.Id, c)
					}
				}
			}
		}
	}
}

func endpointClass(path string) string {
	f := strings.Split(path, "/")
	for i, s := range f {
		if len(s) >= 16 {
			f[i] = "{id}"
		}
	}
	return strings.Join(f, "/")
}

func (m *c08Mon) inspect(ex *wworld.Exchange) {
	m.refresh()
	hay := strings.ToLower(ex.ReqBody + " " + ex.Path + "?" + ex.RawQuery)
	raw := ex.ReqBody
	for r, origin := range m.R {
		if strings.Contains(hay, r) {
			where := "request body"
			var probe struct {
				Inputs []struct {
					DLEQ *struct{ R string } `json:"dleq"`
				} `json:"inputs"`
			}
			if json.Unmarshal([]byte(raw), &probe) == nil {
				for _, in := range probe.Inputs {
					if in.DLEQ != nil && strings.EqualFold(in.DLEQ.R, r) {
						where = "inputs[].dleq.r"
					}
				}
			}
			m.w.Viol("C08", "blinding-factor-sent/"+ex.Method+" "+endpointClass(ex.Path)+"/"+where, "%s sent a blinding factor to the mint in %s of %s %s: r=%s… (%s)", ex.Wallet, where, ex.Method, ex.Path, r[:12], origin)
			continue
		}
		b, _ := hex.DecodeString(r)
		for _, enc := range []string{base64.StdEncoding.EncodeToString(b), base64.URLEncoding.EncodeToString(b), base64.RawURLEncoding.EncodeToString(b), string(b)} {
			if strings.Contains(raw, enc) {
				m.w.Viol("C08", "blinding-factor-sent-encoded/"+ex.Method+" "+endpointClass(ex.Path), "%s sent a blinding factor (base64 / raw) to the mint in %s %s (%s)", ex.Wallet, ex.Method, ex.Path, origin)
			}
		}
	}
	// output secrets may only appear as inputs[].secret of swap / melt
	allowed := map[string]int{}
	if ex.Path == "/v1/swap" || ex.Path == "/v1/melt/bolt11" {
		var req struct {
			Inputs []struct {
				Secret string `json:"secret"`
			} `json:"inputs"`
		}
		if json.Unmarshal([]byte(raw), &req) == nil {
			for _, in := range req.Inputs {
				allowed[in.Secret]++
			}
		}
	}
	for s, origin := range m.S {
		n := strings.Count(hay, s)
		if n > allowed[s] {
			m.w.Viol("C08", "output-secret-sent/"+ex.Method+" "+endpointClass(ex.Path), "%s sent an output secret outside inputs[].secret in %s %s (%s)", ex.Wallet, ex.Method, ex.Path, origin)
		}
	}
}

func c08Setup(w *wworld.World) {
	m := &c08Mon{w: w, R: map[string]string{}, S: map[string]string{}}
	w.OnLoadWallet = func(ww *wworld.WalletW) {
		name := ww.Name
		ww.DB.OnProofs = func(ps cashu.Proofs) { m.learnProofs("DLEQ.r stored by "+name, ps) }
	}
	for _, ww := range w.Wallets {
		w.OnLoadWallet(ww)
	}
	w.R.Monitor = m.inspect
	w.OnTokens = func(ps cashu.Proofs) { m.learnProofs("DLEQ.r of a proof returned to the caller", ps) }
}

func c08Menu(w *wworld.World) []string {
	var ops []string
	for _, ww := range w.Wallets {
		i := ww.Idx
		bal := ww.W.GetBalance()
		if bal < 4 && ww.DB.Inner.GetKeysetCounter(w.Mints[ww.Default].ActiveID()) < 14 {
			ops = append(ops, fmt.Sprintf("mint|%d|16", i))
		}
		// a restored wallet (its proofs carry no DLEQ) tops up once (new proofs carry DLEQ) and then spends nearly
		// everything in one go, so that one request mixes both kinds of inputs in whatever order the wallet picks
		if ww.Gen > 0 && bal == 64 {
			ops = append(ops, fmt.Sprintf("mint|%d|8", i))
		}
		if ww.Gen > 0 && bal > 64 && len(w.Tokens) < 2 {
			ops = append(ops, fmt.Sprintf("send|%d|%d|0", i, bal-3), fmt.Sprintf("melt|%d|%d|S", i, bal-6))
		}
		if bal >= 5 && len(w.Tokens) < 2 {
			ops = append(ops, fmt.Sprintf("send|%d|4|0", i), fmt.Sprintf("send|%d|3|0", i), fmt.Sprintf("send|%d|3|1", i), fmt.Sprintf("htlc|%d|2", i))
			for _, o := range w.Wallets {
				if o.Idx != i && o.Default == ww.Default {
					ops = append(ops, fmt.Sprintf("sendpk|%d|%d|2", i, o.Idx))
					break
				}
			}
		}
		for ti, t := range w.Tokens {
			if t.Kind == "plain" || (t.Kind == "p2pk" && t.To == i) || t.Kind == "htlc" {
				ops = append(ops, fmt.Sprintf("recv|%d|%d|0", i, ti))
				if t.Kind == "plain" {
					ops = append(ops, fmt.Sprintf("recvdup|%d|%d|0", i, ti))
				}
				if t.Mint != ww.Default {
					ops = append(ops, fmt.Sprintf("recv|%d|%d|1", i, ti))
				}
			}
		}
		if bal >= 6 && len(ww.Melts) < 1 {
			ops = append(ops, fmt.Sprintf("melt|%d|4|S", i), fmt.Sprintf("melt|%d|4|F", i), fmt.Sprintf("melt|%d|4|P", i))
		}
		for mi := range ww.Melts {
			ops = append(ops, fmt.Sprintf("checkmelt|%d|%d", i, mi))
		}
		if ww.W.PendingBalance() > 0 {
			ops = append(ops, fmt.Sprintf("reclaim|%d", i), fmt.Sprintf("rmspent|%d", i))
		}
		if ww.Gen == 0 && bal > 0 {
			ops = append(ops, fmt.Sprintf("restore|%d", i))
		}
		if w.Cfg.TwoMints && i == 0 {
			if len(ww.W.TrustedMints()) < 2 {
				ops = append(ops, "addmint|0|b")
			} else if bal >= 10 {
				ops = append(ops, "mintswap|0|8|a|b|S")
			}
		}
	}
	return ops
}

func c08OwnSpecs(quick bool) []*wSpec {
	cfg := wworld.Config{FeeA: 100, FeeB: 0, TwoMints: true, Wallets: []wworld.WalletCfg{{Default: "a"}, {Default: "a"}, {Default: "b"}}}
	// W1 holds proofs with DLEQ{e,s,r}; W2 is created by Restore from a funded mnemonic (its proofs carry no DLEQ)
	// (W2 mints 64 so that after the restore its biggest coins are DLEQ-less ones)
	init := []string{"mint|0|16", "mint|1|64", "restore|1"}
	d := 2
	if !quick {
		d = 4
	}
	sfx := map[bool]string{true: "-q", false: ""}[quick]
	return []*wSpec{{Prop: "C08", Name: "C08-3w2m" + sfx, Cfg: cfg, Init: init, Setup: c08Setup, Menu: c08Menu, Depth: d, NoInvariants: true},
		// the first swap / melt request of the next operation is lost on the wire (whatever the wallet sends then — a
		// retry, a recovery request — is inspected like everything else)
		{Prop: "C08", Name: "C08-lost-request" + sfx, Cfg: cfg, Init: []string{"mint|0|16", "mint|1|16", "send|1|5|0"}, Setup: c08Setup, Menu: func(w *wworld.World) []string {
			var ops []string
			if len(w.R.FailNext) == 0 || (w.R.FailNext["/v1/swap"] == 0 && w.R.FailNext["/v1/melt/bolt11"] == 0) {
				ops = append(ops, "netfail|/v1/swap", "netfail|/v1/melt/bolt11")
			}
			return append(ops, "send|0|3|0", "send|0|3|1", "recv|0|0|0", "melt|0|4|S", "sendpk|0|1|2", "htlc|0|2", "reclaim|1")
		}, Depth: 2, NoInvariants: true},
		// a wallet made of many small coins: requests with far more inputs than usual
		{Prop: "C08", Name: "C08-many-inputs" + sfx, Cfg: wworld.Config{FeeA: 0, Wallets: []wworld.WalletCfg{{Default: "a"}, {Default: "a"}}}, Init: c08ManySmall(40), Setup: c08Setup, Menu: func(w *wworld.World) []string {
			return []string{"melt|0|34|S", "melt|0|36|P", "send|0|35|1", "send|0|38|0"}
		}, Depth: 1, NoInvariants: true},
		{Prop: "C08", Name: "C08-crossmint-p2pk" + sfx, Cfg: crossMintCfg, Init: []string{"mint|2|16", "mint|0|8"}, Setup: c08Setup, Menu: crossMintP2PKMenu, Depth: d + 1, NoInvariants: true}}
}

var c08All = wSpecMap(c08Specs(true), c08Specs(false))

func init() {
	register(&Prop{ID: "C08", Level: "model_checking", QuickBudget: 300 * time.Second, ThoroughBudget: 30 * time.Minute,
		Run: func(c *rt.Ctx) {
			c.Cov["rule"] = "E3 on the wallet world (mints A fee 100 and B; W1 with DLEQ-carrying proofs, W2 created by restore (no DLEQ), W3 on mint B): every history up to the depth bound over {mint, send exact / needing a swap / with fees, send to pubkey, HTLC lock, receive (plain, P2PK, HTLC, untrusted mint with and without swap-to-trusted), melt x {Succeeded, Failed, Pending} (NUT-08 blank outputs when the fee reserve > 0), check melt, reclaim, remove spent, add mint, mint-swap A->B, restore}; a monitor in the transport inspects every byte of every request (body, path, query) against the set of all blinding factors known to the harness (DLEQ.r of every proof passing the wallet store proxy or returned to the caller, NUT-13 blinding factors of every wallet seed for counters 0..stored+60 of every keyset; as hex in any case, base64 and raw bytes) and against all NUT-13 output secrets, which may only appear as inputs[].secret of swap / melt"
			runWSpecs(c, c08Specs(c.Quick()))
		},
		Worker: wWorker(c08All),
		Replay: func(p string) int { return wReplay("C08", c08All, p) },
	})
}

func c08Specs(quick bool) []*wSpec {
	return append(c08OwnSpecs(quick), wUnionSpec("C08", quick, c08Setup, nil, true))
}

func c08ManySmall(n int) []string {
	var ops []string
	for i := 0; i < n; i++ {
		ops = append(ops, "mint|0|1")
	}
	return ops
}
