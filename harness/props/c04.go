package props

import (
	"context"
	"crypto/sha256"
	"database/sql"
	"encoding/hex"
	"encoding/json"
	"fmt"
	"github.com/btcsuite/btcd/btcec/v2/schnorr"
	"github.com/decred/dcrd/dcrec/secp256k1/v4"
	"math/big"
	"os"
	"path/filepath"
	"strings"
	"time"

	"github.com/elnosh/gonuts/cashu"
	"github.com/elnosh/gonuts/cashu/nuts/nut04"
	"github.com/elnosh/gonuts/cashu/nuts/nut05"
	"github.com/elnosh/gonuts/mint/storage"

	"verif/harness/lnmodel"
	"verif/harness/ref"
	"verif/harness/rt"
	"verif/harness/world"
)

// C04 — only genuine mint signatures are honoured, at exactly their signed amount (E4, through Mint.Swap and
// Mint.MeltTokens on a mint with an inactive and an active keyset). Expected accept/reject comes from an independent
// evaluator: seed read from the SQLite file, own BIP32 m/0'/0'/idx'/i', own curve arithmetic (package ref).

type c04Job struct {
	Shard, N int
	Quick    bool
}

type c04Res struct {
	Evals, Accepted, Rejected, DontCare int
	Keys                                []string
	V                                   []rt.Violation
	Samples                             []any
	Err                                 string
}

type c04Case struct {
	ks    int    // base proof keyset index (0 inactive, 1 active)
	denom uint64 // base proof amount
	via   string // swap | melt | swap-second (the mutated proof is the SECOND input, after a genuine proof of the same keyset and denomination)
	mut   string // mutation name
}

var c04Denoms = []uint64{1, 2, 4, 8, 16, 1 << 10, 1 << 20, 1 << 30, 1 << 31, 1 << 32, 1 << 40, 1 << 50, 1 << 58, 1 << 59}

func c04Cases(quick bool) []c04Case {
	var cs []c04Case
	denoms := c04Denoms
	if quick {
		denoms = []uint64{1, 8, 1 << 30, 1 << 59}
	}
	var muts []string
	muts = append(muts, "unchanged")
	for i := 0; i < 60; i++ {
		muts = append(muts, fmt.Sprintf("amount=2^%d", i))
	}
	muts = append(muts, "amount=0", "amount=3", "amount=2^60", "amount=2^63", "amount=2^64-1")
	muts = append(muts, "id=other", "id=unknown", "id=empty", "id=nonhex", "id=upper")
	step := 1
	if quick {
		step = 4
	}
	for b := 0; b < 264; b += step {
		muts = append(muts, fmt.Sprintf("C=flip%d", b))
	}
	muts = append(muts, "C=other-proof", "C=same-secret-other-amount", "C=empty", "C=oddhex", "C=32bytes", "C=uncompressed", "C=x0", "C=G", "C=Y(k=1)", "C=blinded")
	muts = append(muts, "secret+1", "secret-1", "secret-case")
	// the right point followed / preceded by junk that a lenient hex decoder would drop
	muts = append(muts, "C=+0", "C=+zz", "C=+space", "C=+newline", "C=+0g", "C=+xyz0000", "C=space+", "C=+00")
	// proofs whose NUT-10 spending condition is satisfied (right preimage / right signature in the witness): the
	// condition check passing must not stand in for the mint's signature
	muts = append(muts, "htlc-genuine", "htlc-forged-C=G", "htlc-forged-C=other", "p2pk-genuine", "p2pk-forged-C=G")
	for _, ks := range []int{0, 1} {
		for _, d := range denoms {
			for _, via := range []string{"swap", "melt", "swap-second", "swap-after-htlc", "swap-after-verified", "swap-after-failed-melt"} {
				for _, m := range muts {
					if m == fmt.Sprintf("amount=2^%d", log2(d)) {
						continue
					}
					if via == "swap-after-verified" && !strings.HasPrefix(m, "amount=") && !strings.HasPrefix(m, "id=") && m != "unchanged" && m != "C=same-secret-other-amount" && m != "C=uncompressed" {
						continue // the genuine proof went through verification in an earlier, refused request: what verification depends on besides (secret, C)
					}
					if via == "swap-after-failed-melt" && m != "unchanged" && m != "amount=2^5" && m != "amount=2^0" && m != "id=other" && m != "amount=3" {
						continue // the same after a melt whose payment failed and released the genuine proof
					}
					if via == "swap-second" && strings.HasPrefix(m, "C=flip") && m != "C=flip0" && m != "C=flip7" && m != "C=flip8" && m != "C=flip263" {
						continue // position does not multiply the bit-flip family; amount / id / encoding / secret mutations all run in second position
					}
					if via == "swap-after-htlc" && m != "unchanged" && m != "C=G" && m != "C=other-proof" && m != "amount=2^5" && m != "id=other" && m != "secret+1" {
						continue // behind a genuine HTLC input (whose condition check succeeds): a few representative forgeries
					}
					cs = append(cs, c04Case{ks, d, via, m})
				}
				if via == "swap-second" {
					for _, a := range []string{"amount=1000000", "amount=5", "amount=2^59+1"} {
						cs = append(cs, c04Case{ks, d, via, a})
					}
				}
			}
		}
	}
	// all 60 denominations of the active keyset once (unchanged, swap) — amounts >= 2^60 do not exist
	for i := 0; i < 60; i++ {
		cs = append(cs, c04Case{1, 1 << uint(i), "swap", "unchanged-all"})
	}
	// secret length boundary (validly signed)
	for _, via := range []string{"swap", "melt"} {
		cs = append(cs, c04Case{1, 2, via, "secretlen=512"}, c04Case{1, 2, via, "secretlen=513"})
		// the limit is in bytes: multi-byte characters (2-, 3- and 4-byte UTF-8)
		cs = append(cs, c04Case{1, 2, via, "secret=256x2byte"}, c04Case{1, 2, via, "secret=257x2byte"}, c04Case{1, 2, via, "secret=300x3byte"},
			c04Case{1, 2, via, "secret=171x3byte"}, c04Case{1, 2, via, "secret=170x3byte"}, c04Case{1, 2, via, "secret=129x4byte"}, c04Case{1, 2, via, "secret=128x4byte"})
	}
	return cs
}

func log2(a uint64) int {
	n := 0
	for a > 1 {
		a >>= 1
		n++
	}
	return n
}

type c04World struct {
	m     *world.MintW
	ln    *lnmodel.LN
	u     *world.User
	seed  []byte
	ids   [2]string
	pool0 map[uint64][]c04Proof // pre-minted proofs on the inactive keyset
}

type c04Proof struct {
	p   cashu.Proof
	out world.Out
	sig cashu.BlindedSignature
}

func (w *c04World) mintOne(amount uint64, secret string) (c04Proof, error) {
	q, err := w.m.MintQuote(amount, "")
	if err != nil {
		return c04Proof{}, err
	}
	w.ln.Settle(q.PaymentHash)
	id := w.m.ActiveID()
	var outs []world.Out
	if secret == "" {
		outs = w.u.Outputs(id, amount)
	} else {
		outs = w.u.OutputsWithSecrets(id, []uint64{amount}, []string{secret})
	}
	sigs, err := w.m.M.MintTokens(nut04.PostMintBolt11Request{Quote: q.Id, Outputs: world.Msgs(outs)})
	if err != nil {
		return c04Proof{}, err
	}
	ps, err := world.Unblind(sigs, outs, w.m.Keys(id))
	if err != nil {
		return c04Proof{}, err
	}
	return c04Proof{p: ps[0], out: outs[0], sig: sigs[0]}, nil
}

func (w *c04World) fresh(ks int, amount uint64) (c04Proof, error) {
	if ks == 1 {
		return w.mintOne(amount, "")
	}
	l := w.pool0[amount]
	if len(l) == 0 {
		return c04Proof{}, fmt.Errorf("pool of inactive-keyset proofs for %d exhausted", amount)
	}
	w.pool0[amount] = l[1:]
	return l[0], nil
}

func readSeed(dir string) ([]byte, error) {
	db, err := sql.Open("sqlite3", "file:"+filepath.Join(dir, "mint.sqlite.db")+"?mode=ro")
	if err != nil {
		return nil, err
	}
	defer db.Close()
	var s string
	if err := db.QueryRow("SELECT seed FROM seed").Scan(&s); err != nil {
		return nil, err
	}
	return hex.DecodeString(s)
}

// c04Expect is the independent evaluator: accept <=> C == k_{id,amount} * hash_to_curve(secret) and len(secret) <= 512.
// Returns +1 accept, -1 reject, 0 don't care (encodings of the right point the statement does not speak about).
func (w *c04World) expect(p cashu.Proof) int {
	idx := -1
	for i, id := range w.ids {
		if p.Id == id {
			idx = i
		}
	}
	if idx < 0 {
		return -1
	}
	if p.Amount == 0 || p.Amount&(p.Amount-1) != 0 || p.Amount >= 1<<60 {
		return -1
	}
	if len(p.Secret) > 512 {
		return -1
	}
	cb, err := hex.DecodeString(p.C)
	if err != nil {
		return -1
	}
	k := ref.MintKeysetPriv(w.seed, uint32(idx), uint32(log2(p.Amount)))
	var pt ref.Point
	switch len(cb) {
	case 33:
		pt, err = ref.ParseCompressed(cb)
		if err != nil {
			return -1
		}
	case 65:
		pt, err = ref.ParseUncompressed(cb)
		if err != nil {
			return -1
		}
		if ref.Verify([]byte(p.Secret), k, pt) {
			return 0 // another encoding of the genuine point: not addressed by the statement
		}
		return -1
	default:
		return -1
	}
	if ref.Verify([]byte(p.Secret), k, pt) {
		return 1
	}
	return -1
}

func c04Worker(job json.RawMessage) (any, error) {
	var j c04Job
	if err := json.Unmarshal(job, &j); err != nil {
		return nil, err
	}
	res := c04Res{}
	dir, _ := os.MkdirTemp(rt.ScratchRoot(), "c04-")
	defer os.RemoveAll(dir)
	ln := lnmodel.New()
	m, err := world.NewMint(world.Cfg{Name: "a", Dir: dir}, ln)
	if err != nil {
		return c04Res{Err: err.Error()}, nil
	}
	defer m.Shutdown()
	w := &c04World{m: m, ln: ln, u: &world.User{Tag: fmt.Sprintf("c04-%d", j.Shard)}, pool0: map[uint64][]c04Proof{}}
	w.ids[0] = m.ActiveID()
	cases := c04Cases(j.Quick)
	// how many accepted cases on keyset 0 does this shard need per denomination?
	need := map[uint64]int{}
	for i, c := range cases {
		if i%j.N == j.Shard && c.ks == 0 {
			need[c.denom] += 3 // base proof may be consumed by an accept; spare for "other proof" and the genuine first input
		}
	}
	for d, n := range need {
		if n > 9 {
			n = 9
		}
		for k := 0; k < n+2; k++ {
			p, err := w.mintOne(d, "")
			if err != nil {
				return c04Res{Err: "premint: " + err.Error()}, nil
			}
			w.pool0[d] = append(w.pool0[d], p)
		}
	}
	if err := m.Restart(true, 0); err != nil {
		return c04Res{Err: "rotate: " + err.Error()}, nil
	}
	w.ids[1] = m.ActiveID()
	if w.seed, err = readSeed(dir); err != nil {
		return c04Res{Err: "seed: " + err.Error()}, nil
	}
	// the evaluator's own derivation must reproduce the published keysets (else the oracle itself is wrong)
	for idx := 0; idx < 2; idx++ {
		if id := ref.KeysetID(ref.MintKeysetPubs(w.seed, uint32(idx))); id != w.ids[idx] {
			return c04Res{Err: fmt.Sprintf("evaluator derives keyset id %s for index %d, mint publishes %s", id, idx, w.ids[idx])}, nil
		}
	}
	base := map[string]*c04Proof{} // reusable base proof per (ks, denom)
	getBase := func(ks int, d uint64) (*c04Proof, error) {
		k := fmt.Sprintf("%d/%d", ks, d)
		if b := base[k]; b != nil {
			return b, nil
		}
		p, err := w.fresh(ks%10, d)
		if err != nil {
			return nil, err
		}
		base[k] = &p
		return &p, nil
	}
	for i, c := range cases {
		if i%j.N != j.Shard {
			continue
		}
		b, err := getBase(c.ks, c.denom)
		if err != nil {
			return c04Res{Err: err.Error()}, nil
		}
		p := b.p
		switch {
		case c.mut == "unchanged" || c.mut == "unchanged-all":
		case strings.HasPrefix(c.mut, "amount=2^") && c.mut != "amount=2^60" && c.mut != "amount=2^63" && c.mut != "amount=2^64-1" && c.mut != "amount=2^59+1":
			var e uint
			fmt.Sscanf(c.mut, "amount=2^%d", &e)
			p.Amount = 1 << e
		case c.mut == "amount=0":
			p.Amount = 0
		case c.mut == "amount=3":
			p.Amount = 3
		case c.mut == "amount=1000000":
			p.Amount = 1000000
		case c.mut == "amount=5":
			p.Amount = 5
		case c.mut == "amount=2^59+1":
			p.Amount = 1<<59 + 1
		case c.mut == "amount=2^60":
			p.Amount = 1 << 60
		case c.mut == "amount=2^63":
			p.Amount = 1 << 63
		case c.mut == "amount=2^64-1":
			p.Amount = 1<<64 - 1
		case c.mut == "id=other":
			p.Id = w.ids[1-c.ks]
		case c.mut == "id=unknown":
			p.Id = "00ffffffffffffff"
		case c.mut == "id=empty":
			p.Id = ""
		case c.mut == "id=nonhex":
			p.Id = "zz" + p.Id[2:]
		case c.mut == "id=upper":
			p.Id = strings.ToUpper(p.Id)
			if p.Id == b.p.Id {
				p.Id = "00FFFFFFFFFFFFFF"
			}
		case strings.HasPrefix(c.mut, "C=flip"):
			var bit int
			fmt.Sscanf(c.mut, "C=flip%d", &bit)
			cb, _ := hex.DecodeString(p.C)
			cb[bit/8] ^= 1 << uint(bit%8)
			p.C = hex.EncodeToString(cb)
		case c.mut == "C=other-proof":
			o, err := w.mintOne(c.denom, "")
			if err != nil {
				return c04Res{Err: err.Error()}, nil
			}
			p.C = o.p.C
		case c.mut == "C=same-secret-other-amount":
			oa := uint64(16)
			o, err := w.mintOne(oa, b.p.Secret)
			if err != nil {
				return c04Res{Err: err.Error()}, nil
			}
			p.C = o.p.C
		case c.mut == "C=empty":
			p.C = ""
		case c.mut == "C=oddhex":
			p.C = p.C[:len(p.C)-1]
		case c.mut == "C=32bytes":
			p.C = p.C[2:]
		case c.mut == "C=uncompressed":
			cb, _ := hex.DecodeString(p.C)
			pt, _ := ref.ParseCompressed(cb)
			p.C = hex.EncodeToString(pt.SerializeUncompressed())
		case c.mut == "C=x0":
			p.C = "02" + strings.Repeat("00", 32)
		case c.mut == "C=G":
			p.C = hex.EncodeToString(ref.ScalarBaseMult(big.NewInt(1)).SerializeCompressed())
		case c.mut == "C=Y(k=1)":
			p.C = world.Y(p.Secret)
		case c.mut == "C=blinded":
			p.C = b.sig.C_
		case c.mut == "C=+0":
			p.C += "0"
		case c.mut == "C=+zz":
			p.C += "zz"
		case c.mut == "C=+space":
			p.C += " "
		case c.mut == "C=+newline":
			p.C += "\n"
		case c.mut == "C=+0g":
			p.C += "0g"
		case c.mut == "C=+xyz0000":
			p.C += "xyz0000"
		case c.mut == "C=space+":
			p.C = " " + p.C
		case c.mut == "C=+00":
			p.C += "00"
		case strings.HasPrefix(c.mut, "htlc-") || strings.HasPrefix(c.mut, "p2pk-"):
			// a proof honestly signed on a NUT-10 secret, presented with the witness that satisfies its condition
			var secret, witness string
			if strings.HasPrefix(c.mut, "htlc-") {
				pre := sha256.Sum256([]byte(fmt.Sprintf("c04 preimage %d", i)))
				h := sha256.Sum256(pre[:])
				secret = fmt.Sprintf(`["HTLC",{"nonce":"%08x","data":"%x","tags":[]}]`, i, h)
				witness = fmt.Sprintf(`{"preimage":"%x","signatures":[]}`, pre)
			} else {
				key := secp256k1.PrivKeyFromBytes([]byte("c04 p2pk lock key, 32 bytes long"))
				secret = fmt.Sprintf(`["P2PK",{"nonce":"%08x","data":"%x","tags":[]}]`, i, key.PubKey().SerializeCompressed())
				hs := sha256.Sum256([]byte(secret))
				sg, _ := schnorr.Sign(key, hs[:])
				witness = fmt.Sprintf(`{"signatures":["%x"]}`, sg.Serialize())
			}
			sp, err := w.mintOne(c.denom, secret)
			if err != nil {
				return c04Res{Err: "mint nut10 secret: " + err.Error()}, nil
			}
			p = sp.p
			p.Witness = witness
			switch {
			case strings.HasSuffix(c.mut, "C=G"):
				p.C = hex.EncodeToString(ref.ScalarBaseMult(big.NewInt(1)).SerializeCompressed())
			case strings.HasSuffix(c.mut, "C=other"):
				o, err := w.mintOne(c.denom, "")
				if err != nil {
					return c04Res{Err: err.Error()}, nil
				}
				p.C = o.p.C
			}
		case c.mut == "secret+1":
			p.Secret += "0"
		case c.mut == "secret-1":
			p.Secret = p.Secret[:len(p.Secret)-1]
		case c.mut == "secret-case":
			p.Secret = strings.ToUpper(p.Secret)
			if p.Secret == b.p.Secret {
				p.Secret = strings.ToLower(p.Secret)
			}
		case c.mut == "secretlen=512" || c.mut == "secretlen=513":
			n := 512
			if c.mut == "secretlen=513" {
				n = 513
			}
			sp, err := w.mintOne(c.denom, strings.Repeat("s", n-8)+fmt.Sprintf("%08d", i))
			if err != nil {
				return c04Res{Err: "mint long secret: " + err.Error()}, nil
			}
			p = sp.p
		case strings.HasPrefix(c.mut, "secret=") && strings.HasSuffix(c.mut, "byte"):
			var n, width int
			fmt.Sscanf(c.mut, "secret=%dx%dbyte", &n, &width)
			ch := map[int]string{2: "é", 3: "€", 4: "𝔘"}[width]
			sec := strings.Repeat(ch, n)
			if c.via == "melt" { // a different secret of the same byte length for the second use
				sec = strings.Repeat(ch, n-1) + map[int]string{2: "ü", 3: "₭", 4: "𝔙"}[width]
			}
			sp, err := w.mintOne(c.denom, sec)
			if err != nil {
				return c04Res{Err: "mint multi-byte secret: " + err.Error()}, nil
			}
			p = sp.p
		default:
			return c04Res{Err: "unknown mutation " + c.mut}, nil
		}
		exp := w.expect(p)
		// run
		var opErr error
		switch c.via {
		case "swap":
			outs := w.u.Outputs(w.ids[1], world.Split(nonzero(p.Amount))...)
			if p.Amount == 0 || p.Amount >= 1<<60 || p.Amount&(p.Amount-1) != 0 {
				outs = w.u.Outputs(w.ids[1], 1)
			}
			_, opErr = c04Guard(func() error { _, e := w.m.M.Swap(cashu.Proofs{p}, world.Msgs(outs)); return e })
		case "swap-second":
			first, err := getBase(c.ks+10, c.denom) // a second genuine proof of the same keyset and denomination
			if err != nil {
				return c04Res{Err: err.Error()}, nil
			}
			amts := world.Split(first.p.Amount)
			if exp >= 0 {
				amts = append(amts, world.Split(p.Amount)...) // honest request: outputs mirror the two inputs
			}
			outs := w.u.Outputs(w.ids[1], amts...)
			_, opErr = c04Guard(func() error { _, e := w.m.M.Swap(cashu.Proofs{first.p, p}, world.Msgs(outs)); return e })
			if opErr == nil {
				delete(base, fmt.Sprintf("%d/%d", c.ks+10, c.denom))
			}
		case "swap-after-verified", "swap-after-failed-melt":
			// the genuine proof first passes verification in a request that does not consume it
			var preErr error
			if c.via == "swap-after-verified" {
				signed, err := w.mintOne(b.p.Amount, "") // its output is signed already: a swap asking for it again is refused after the inputs were verified
				if err != nil {
					return c04Res{Err: err.Error()}, nil
				}
				outs := []world.Out{signed.out}
				_, preErr = c04Guard(func() error { _, e := w.m.M.Swap(cashu.Proofs{b.p}, world.Msgs(outs)); return e })
			} else {
				comp, err := w.mintOne(2, "")
				if err != nil {
					return c04Res{Err: err.Error()}, nil
				}
				inv := ln.NewExternalInvoice(1)
				mq, err := m.MeltQuote(inv.Request)
				if err != nil {
					return c04Res{Err: "melt quote: " + err.Error()}, nil
				}
				ln.PayScript[inv.Hash] = []lnmodel.Answer{lnmodel.Failed}
				ln.StatusScript[inv.Hash] = []lnmodel.Answer{lnmodel.Failed}
				var mres storage.MeltQuote
				_, preErr = c04Guard(func() error {
					var e error
					mres, e = w.m.M.MeltTokens(context.Background(), nut05.PostMeltBolt11Request{Quote: mq.Id, Inputs: cashu.Proofs{b.p, comp.p}})
					return e
				})
				if preErr == nil && mres.State == nut05.Unpaid {
					preErr = fmt.Errorf("unpaid")
				}
			}
			if preErr == nil {
				return c04Res{Err: fmt.Sprintf("case %d (%s/%s): the preparing request was expected to be refused and was accepted", i, c.via, c.mut)}, nil
			}
			outs := w.u.Outputs(w.ids[1], world.Split(nonzero(p.Amount))...)
			if p.Amount == 0 || p.Amount >= 1<<60 || p.Amount&(p.Amount-1) != 0 {
				outs = w.u.Outputs(w.ids[1], 1)
			}
			_, opErr = c04Guard(func() error { _, e := w.m.M.Swap(cashu.Proofs{p}, world.Msgs(outs)); return e })
		case "swap-after-htlc":
			pre := sha256.Sum256([]byte(fmt.Sprintf("c04 first preimage %d", i)))
			h := sha256.Sum256(pre[:])
			first, err := w.mintOne(c.denom, fmt.Sprintf(`["HTLC",{"nonce":"f%07x","data":"%x","tags":[]}]`, i, h))
			if err != nil {
				return c04Res{Err: err.Error()}, nil
			}
			first.p.Witness = fmt.Sprintf(`{"preimage":"%x","signatures":[]}`, pre)
			amts := world.Split(first.p.Amount)
			if exp >= 0 {
				amts = append(amts, world.Split(p.Amount)...)
			}
			outs := w.u.Outputs(w.ids[1], amts...)
			_, opErr = c04Guard(func() error { _, e := w.m.M.Swap(cashu.Proofs{first.p, p}, world.Msgs(outs)); return e })
		case "melt":
			comp, err := w.mintOne(2, "")
			if err != nil {
				return c04Res{Err: err.Error()}, nil
			}
			inv := ln.NewExternalInvoice(1)
			mq, err := m.MeltQuote(inv.Request)
			if err != nil {
				return c04Res{Err: "melt quote: " + err.Error()}, nil
			}
			_, opErr = c04Guard(func() error {
				_, e := w.m.M.MeltTokens(context.Background(), nut05.PostMeltBolt11Request{Quote: mq.Id, Inputs: cashu.Proofs{p, comp.p}})
				return e
			})
		}
		res.Evals++
		accepted := opErr == nil
		key := fmt.Sprintf("ks%d/%d/%s/%s", c.ks, c.denom, c.via, c.mut)
		res.Keys = append(res.Keys, key)
		if accepted {
			res.Accepted++
			delete(base, fmt.Sprintf("%d/%d", c.ks, c.denom)) // consumed (if it was the base secret)
		} else {
			res.Rejected++
		}
		mclass := c.mut
		if strings.HasPrefix(mclass, "C=flip") {
			mclass = "C=bitflip"
		} else if strings.HasPrefix(mclass, "amount=2^") && mclass != "amount=2^60" && mclass != "amount=2^63" {
			mclass = "amount=other-denomination"
		}
		switch {
		case exp == 0:
			res.DontCare++
		case exp > 0 && !accepted:
			res.V = append(res.V, rt.Violation{Property: "C04", Key: "C04/genuine-proof-rejected/" + c.via + "/" + mclass,
				What:   fmt.Sprintf("%s of %s (keyset %d, amount %d): the independent evaluator says C == k*hash_to_curve(secret) for exactly this (id, amount), but the mint refused: %v", c.via, c.mut, c.ks, p.Amount, opErr),
				Replay: map[string]any{"case": c, "index": i, "quick": j.Quick}})
		case exp < 0 && accepted:
			res.V = append(res.V, rt.Violation{Property: "C04", Key: "C04/invalid-proof-accepted/" + c.via + "/" + mclass,
				What:   fmt.Sprintf("%s accepted a proof derived from a valid one (keyset %d, amount %d) by %s: id=%q amount=%d C=%.20s… secretlen=%d — C is not k*hash_to_curve(secret) for the claimed (id, amount) / input malformed", c.via, c.ks, c.denom, c.mut, p.Id, p.Amount, p.C, len(p.Secret)),
				Replay: map[string]any{"case": c, "index": i, "quick": j.Quick}})
		}
		if len(res.Samples) < 2 {
			res.Samples = append(res.Samples, map[string]any{"case": key, "expected_accept": exp, "accepted": accepted})
		}
	}
	return res, nil
}

func nonzero(a uint64) uint64 {
	if a == 0 {
		return 1
	}
	return a
}

// c04Guard runs f under recover (a panic is reported as an error string; C06 owns panics).
func c04Guard(f func() error) (pan any, err error) {
	defer func() {
		if r := recover(); r != nil {
			pan = r
			err = fmt.Errorf("panic: %v", r)
		}
	}()
	return nil, f()
}

func runC04(c *rt.Ctx) {
	if err := ref.SelfTest(); err != nil {
		rt.HarnessError("reference implementation self-test failed: %v", err)
	}
	n := 48
	if c.Quick() {
		n = 32
	}
	jobs := make([]any, n)
	for i := range jobs {
		jobs[i] = c04Job{Shard: i, N: n, Quick: c.Quick()}
	}
	var acc, rej, dc int
	c.Pool.Map(jobs, func(i int, r rt.JobResult) {
		if r.Died {
			rt.HarnessError("C04 worker died: %s", r.Stderr)
		}
		var res c04Res
		if err := json.Unmarshal(r.Out, &res); err != nil {
			rt.HarnessError("bad result: %v", err)
		}
		if res.Err != "" {
			rt.HarnessError("C04 shard %d: %s", i, res.Err)
		}
		c.Count("evaluations", int64(res.Evals))
		acc += res.Accepted
		rej += res.Rejected
		dc += res.DontCare
		for _, k := range res.Keys {
			c.Distinct(k)
		}
		for _, v := range res.V {
			c.AddViolation(v)
		}
		for _, s := range res.Samples {
			c.Sample(s)
		}
	})
	c.Cov["accepted"], c.Cov["rejected"], c.Cov["dont_care"] = acc, rej, dc
	c.Cov["cases_total"] = len(c04Cases(c.Quick()))
	c.Cov["rule"] = "for every honest proof (keyset {inactive idx 0, active idx 1} x denominations) and every single-field mutation (amount -> each other key and {0,3,2^60,2^63,2^64-1}; id -> other / unknown / empty / non-hex / upper-case; C -> single-bit flips of the 33 bytes, C of another proof, C of the same secret at another amount, empty, odd hex, 32 bytes, uncompressed, x=0, G, hash_to_curve(secret) (k=1), the blinded C_; secret +1/-1 char, case; validly signed 512 / 513 byte secrets), sent through Mint.Swap and Mint.MeltTokens; expected = independent evaluator (seed from the SQLite file, own BIP32 + secp256k1); a case is distinct by (keyset, denomination, path, mutation)"
	if acc == 0 || rej == 0 {
		c.Cov["vacuous"] = true
	}
}

func replayC04(path string) int {
	b, err := os.ReadFile(path)
	if err != nil {
		fmt.Println(err)
		return 2
	}
	var v struct {
		Key    string
		Replay struct {
			Index int
			Quick bool
		}
	}
	json.Unmarshal(b, &v)
	n := len(c04Cases(v.Replay.Quick))
	// run exactly that case: shard = index of n shards
	out, _ := c04Worker(mustJSON(c04Job{Shard: v.Replay.Index, N: n, Quick: v.Replay.Quick}))
	res := out.(c04Res)
	if res.Err != "" {
		fmt.Println("error:", res.Err)
		return 2
	}
	for _, x := range res.V {
		fmt.Println(x.Key, x.What)
	}
	if len(res.V) > 0 {
		fmt.Printf("VIOLATION property=C04 replay=%s\n", path)
		return 1
	}
	fmt.Println("no violation on replay")
	return 0
}

func mustJSON(v any) json.RawMessage {
	b, _ := json.Marshal(v)
	return b
}

func init() {
	register(&Prop{ID: "C04", Level: "exploration", QuickBudget: 90 * time.Second, ThoroughBudget: 15 * time.Minute,
		Run: runC04, Worker: c04Worker, Replay: replayC04})
}
