package props

import (
	"encoding/hex"
	"encoding/json"
	"fmt"
	"io"
	"os"
	"path/filepath"
	"sort"
	"strings"
	"time"

	"github.com/decred/dcrd/dcrec/secp256k1/v4"

	"github.com/elnosh/gonuts/cashu"
	"github.com/elnosh/gonuts/cashu/nuts/nut04"
	"github.com/elnosh/gonuts/cashu/nuts/nut05"
	"github.com/elnosh/gonuts/cashu/nuts/nut20"

	"verif/harness/bfs"
	"verif/harness/grammar"
	"verif/harness/mintops"
	"verif/harness/rt"
	"verif/harness/world"
)

// C06 — rejected or malformed requests change nothing and never crash a handler.
// E3 builds the states (every state reachable by <= d honest operations); in each state the whole request grammar is
// sent through the real HTTP handler (hook H2) under recover(): a panic is a violation, every non-200 answer must
// leave the full snapshot (all tables, Lightning ledger) unchanged, and afterwards the honest requests are accepted.

func c06Menu(w *mintops.W) []string {
	var ops []string
	if len(w.Quotes) < 2 {
		ops = append(ops, "mq|8", "mq|8|k")
	}
	for qi, q := range w.Quotes {
		if qi == 0 {
			continue
		}
		if q.Payments == 0 {
			ops = append(ops, fmt.Sprintf("settle|%d", qi))
		} else if q.Successes == 0 {
			ops = append(ops, fmt.Sprintf("pollq|%d", qi), fmt.Sprintf("mint|%d|exact", qi))
		}
	}
	if u := w.UnspentIdx(1); len(u) > 0 {
		ops = append(ops, fmt.Sprintf("swap|%d|exact", u[0]))
	}
	if len(w.Melts) < 1 {
		ops = append(ops, "meltq|4")
	}
	for j, m := range w.Melts {
		if m.Known == "" {
			if u := w.UnspentIdx(1); len(u) > 0 && w.Proofs[u[0]].P.Amount >= 8 {
				ops = append(ops, fmt.Sprintf("melt|%d|%d|S", j, u[0]), fmt.Sprintf("melt|%d|%d|P", j, u[0]), fmt.Sprintf("melt|%d|%d|F|N", j, u[0]))
			}
		}
	}
	if len(w.Keysets) < 2 {
		ops = append(ops, "rotate|100")
	}
	return ops
}

type c06Req struct {
	Endpoint string // stable endpoint name for keys
	Method   string
	Path     string
	Body     string // "\x00nobody" for GET
	Class    string
	Hdr      []string
	Honest   bool
}

func jsonStr(v any) string {
	b, _ := json.Marshal(v)
	return string(b)
}

func msgsJSON(outs []world.Out) []map[string]any {
	var l []map[string]any
	for _, o := range outs {
		l = append(l, map[string]any{"amount": o.Msg.Amount, "id": o.Msg.Id, "B_": o.Msg.B_})
	}
	return l
}

func proofsJSON(ps cashu.Proofs) []map[string]any {
	var l []map[string]any
	for _, p := range ps {
		l = append(l, map[string]any{"amount": p.Amount, "id": p.Id, "secret": p.Secret, "C": p.C})
	}
	return l
}

// c06Honest builds the valid request of every endpoint for this state.
func c06Honest(w *mintops.W) []c06Req {
	act := w.M.ActiveID()
	var reqs []c06Req
	reqs = append(reqs, c06Req{Endpoint: "mintquote", Method: "POST", Path: "/v1/mint/quote/bolt11", Body: jsonStr(map[string]any{"amount": 8, "unit": "sat"})})
	// mint: prefer a paid, unissued quote
	qid := "aaaaaaaaaaaaaaaaaaaaaaaaaaaaaaaaaaaaaaaaaaaaaaaaaaaaaaaaaaaaaaaa"
	var qamt uint64 = 8
	pick := -1
	for qi, q := range w.Quotes {
		if qi > 0 && q.Payments > 0 && q.Successes == 0 && q.Key == nil {
			pick = qi
		}
	}
	if pick < 0 {
		for qi, q := range w.Quotes {
			if qi > 0 && q.Key == nil {
				pick = qi
			}
		}
	}
	if pick >= 0 {
		qid, qamt = w.Quotes[pick].Q.Id, w.Quotes[pick].Q.Amount
	}
	mintOuts := w.U.Outputs(act, 4, 2, 2)
	_ = qamt
	reqs = append(reqs, c06Req{Endpoint: "mint", Method: "POST", Path: "/v1/mint/bolt11", Body: jsonStr(map[string]any{"quote": qid, "outputs": msgsJSON(mintOuts)})})
	reqs = append(reqs, c06Req{Endpoint: "mintquote-state", Method: "GET", Path: "/v1/mint/quote/bolt11/" + qid, Body: "\x00nobody"})
	// swap: the first and third unspent proofs; melt (below): the second one (so the honest requests do not collide)
	un := w.UnspentIdx(3)
	var ins, meltIns cashu.Proofs
	for k, i := range un {
		if k == 1 {
			meltIns = append(meltIns, w.Proofs[i].P)
		} else {
			ins = append(ins, w.Proofs[i].P)
		}
	}
	if len(ins) > 0 {
		fee := w.FeeFor(ins).Uint64()
		var sum uint64
		for _, p := range ins {
			sum += p.Amount
		}
		net := sum - fee
		var amts []uint64
		if net >= 2 {
			amts = append(world.Split(net-1), 1)
		} else {
			amts = world.Split(net)
		}
		reqs = append(reqs, c06Req{Endpoint: "swap", Method: "POST", Path: "/v1/swap", Body: jsonStr(map[string]any{"inputs": proofsJSON(ins), "outputs": msgsJSON(w.U.Outputs(act, amts...))})})
	}
	inv := w.LN.NewExternalInvoice(3)
	reqs = append(reqs, c06Req{Endpoint: "meltquote", Method: "POST", Path: "/v1/melt/quote/bolt11", Body: jsonStr(map[string]any{"request": inv.Request, "unit": "sat"})})
	mid := qid
	usable, haveMelt := false, false
	for _, m := range w.Melts {
		mid = m.Q.Id
		usable = m.Known == ""
		haveMelt = true
	}
	mqs := c06Req{Endpoint: "meltquote-state", Method: "GET", Path: "/v1/melt/quote/bolt11/" + mid, Body: "\x00nobody"}
	if !haveMelt {
		mqs.Endpoint = "meltquote-state-unusable-quote"
	}
	reqs = append(reqs, mqs)
	if len(meltIns) > 0 {
		r := c06Req{Endpoint: "melt", Method: "POST", Path: "/v1/melt/bolt11", Body: jsonStr(map[string]any{"quote": mid, "inputs": proofsJSON(meltIns)})}
		if !usable || meltIns[0].Amount < 6 {
			r.Endpoint = "melt-unusable-quote" // there is no honest melt in this state; still a base for mutants
		}
		reqs = append(reqs, r)
	}
	var ys []string
	for i := 0; i < cap2(len(w.Proofs), 2); i++ {
		ys = append(ys, w.Proofs[i].Y)
	}
	reqs = append(reqs, c06Req{Endpoint: "checkstate", Method: "POST", Path: "/v1/checkstate", Body: jsonStr(map[string]any{"Ys": ys})})
	var ro []world.Out
	for i := 0; i < cap2(len(w.Outs), 2); i++ {
		ro = append(ro, w.Outs[i].O)
	}
	reqs = append(reqs, c06Req{Endpoint: "restore", Method: "POST", Path: "/v1/restore", Body: jsonStr(map[string]any{"outputs": msgsJSON(ro)})})
	for _, g := range []string{"/v1/keys", "/v1/keysets", "/v1/keys/" + act, "/v1/info"} {
		reqs = append(reqs, c06Req{Endpoint: "get" + strings.ReplaceAll(strings.TrimSuffix(g, "/"+act), "/", "-"), Method: "GET", Path: g, Body: "\x00nobody"})
	}
	for i := range reqs {
		reqs[i].Honest = true
		reqs[i].Class = "honest"
	}
	return reqs
}

// c06Requests: the grammar for this state = structural mutants of every honest POST body + path / method / header
// mutants + semantically invalid requests.
func c06Requests(w *mintops.W, honest []c06Req, pairs bool) []c06Req {
	var out []c06Req
	for _, h := range honest {
		if h.Method == "POST" {
			for _, m := range grammar.Mutants(h.Body, pairs) {
				out = append(out, c06Req{Endpoint: h.Endpoint, Method: "POST", Path: h.Path, Body: m.Body, Class: m.Class})
			}
			out = append(out,
				c06Req{Endpoint: h.Endpoint, Method: "POST", Path: h.Path, Body: h.Body, Class: "header:content-type-text", Hdr: []string{"Content-Type", "text/plain"}},
				c06Req{Endpoint: h.Endpoint, Method: "GET", Path: h.Path, Body: "\x00nobody", Class: "method:GET"},
				c06Req{Endpoint: h.Endpoint, Method: "PUT", Path: h.Path, Body: h.Body, Class: "method:PUT"},
				c06Req{Endpoint: h.Endpoint, Method: "POST", Path: strings.Replace(h.Path, "bolt11", "bolt12", 1), Body: h.Body, Class: "path:method-bolt12"},
			)
		} else {
			out = append(out,
				c06Req{Endpoint: h.Endpoint, Method: "POST", Path: h.Path, Body: "{}", Class: "method:POST"},
				c06Req{Endpoint: h.Endpoint, Method: "GET", Path: h.Path + "/", Body: "\x00nobody", Class: "path:trailing-slash"},
				c06Req{Endpoint: h.Endpoint, Method: "GET", Path: strings.Replace(h.Path, "bolt11", "bolt12", 1), Body: "\x00nobody", Class: "path:method-bolt12"},
			)
			if i := strings.LastIndex(h.Path, "/"); i > 3 && (strings.Contains(h.Endpoint, "state") || strings.HasPrefix(h.Endpoint, "get-v1-keys")) && h.Path != "/v1/keys" && h.Path != "/v1/keysets" {
				for cls, id := range map[string]string{"id:unknown": "00ffffffffffffff", "id:non-hex": "zz%20zz", "id:long": strings.Repeat("a", 5000), "id:quote-like": strings.Repeat("ab", 32), "id:sql": "x'%20OR%20'1'='1"} {
					out = append(out, c06Req{Endpoint: h.Endpoint, Method: "GET", Path: h.Path[:i+1] + id, Body: "\x00nobody", Class: cls})
				}
			}
		}
	}
	// semantically invalid requests
	act := w.M.ActiveID()
	// crafted NUT-10 secrets inside an input (the lock is evaluated before the mint's signature, so no valid C is needed)
	if u := w.UnspentIdx(1); len(u) > 0 {
		base := w.Proofs[u[0]].P
		mid := "aaaaaaaaaaaaaaaaaaaaaaaaaaaaaaaaaaaaaaaaaaaaaaaaaaaaaaaaaaaaaaaa"
		for _, m := range w.Melts {
			mid = m.Q.Id
		}
		for _, m := range grammar.Nut10Secrets("02" + strings.Repeat("11", 32)) {
			p := base
			p.Secret = m.Body
			for _, wit := range []string{"", `{"signatures":["00"],"preimage":"00"}`} {
				pj := proofsJSON(cashu.Proofs{p})
				cls := "inputs[].secret:nut10:" + m.Class
				if wit != "" {
					pj[0]["witness"] = wit
					cls += "+witness"
				}
				out = append(out, c06Req{Endpoint: "swap", Method: "POST", Path: "/v1/swap", Class: cls,
					Body: jsonStr(map[string]any{"inputs": pj, "outputs": msgsJSON(w.U.Outputs(act, 1))})})
				out = append(out, c06Req{Endpoint: "melt", Method: "POST", Path: "/v1/melt/bolt11", Class: cls,
					Body: jsonStr(map[string]any{"quote": mid, "inputs": pj})})
			}
		}
	}
	for i, p := range w.Proofs {
		if p.St != mintops.Unspent && i < 4 {
			out = append(out, c06Req{Endpoint: "swap", Method: "POST", Path: "/v1/swap", Class: "semantic:used-input",
				Body: jsonStr(map[string]any{"inputs": proofsJSON(cashu.Proofs{p.P}), "outputs": msgsJSON(w.U.Outputs(act, world.Split(p.P.Amount)...))})})
		}
	}
	if u := w.UnspentIdx(1); len(u) > 0 {
		p := w.Proofs[u[0]].P
		out = append(out,
			c06Req{Endpoint: "swap", Method: "POST", Path: "/v1/swap", Class: "semantic:outputs-over-inputs",
				Body: jsonStr(map[string]any{"inputs": proofsJSON(cashu.Proofs{p}), "outputs": msgsJSON(w.U.Outputs(act, world.Split(p.Amount+1)...))})},
			c06Req{Endpoint: "swap", Method: "POST", Path: "/v1/swap", Class: "semantic:unknown-keyset-outputs",
				Body: jsonStr(map[string]any{"inputs": proofsJSON(cashu.Proofs{p}), "outputs": msgsJSON(w.U.Outputs("00ffffffffffffff", world.Split(p.Amount)...))})},
			c06Req{Endpoint: "swap", Method: "POST", Path: "/v1/swap", Class: "semantic:duplicate-input",
				Body: jsonStr(map[string]any{"inputs": proofsJSON(cashu.Proofs{p, p}), "outputs": msgsJSON(w.U.Outputs(act, world.Split(2*p.Amount)...))})},
		)
		// the same proof twice, the copies differing in a member that does not identify it (a whole-struct duplicate check
		// cannot see them; the store's key is the secret alone): a witness the plain secret does not need, a DLEQ object
		for _, extra := range [][2]any{{"witness", "x"}, {"dleq", map[string]any{"e": strings.Repeat("11", 32), "s": strings.Repeat("22", 32), "r": strings.Repeat("33", 32)}}} {
			kind := extra[0].(string)
			for _, first := range []bool{false, true} {
				pj := proofsJSON(cashu.Proofs{p, p})
				pos := map[bool]int{true: 0, false: 1}[first]
				pj[pos][extra[0].(string)] = extra[1]
				total := 2 * p.Amount
				if fee := w.FeeFor(cashu.Proofs{p, p}).Uint64(); fee < total {
					total -= fee
				}
				cls := fmt.Sprintf("semantic:same-input-twice-different-%s(%s copy)", kind, map[bool]string{true: "first", false: "second"}[first])
				out = append(out, c06Req{Endpoint: "swap", Method: "POST", Path: "/v1/swap", Class: cls,
					Body: jsonStr(map[string]any{"inputs": pj, "outputs": msgsJSON(w.U.Outputs(act, world.Split(total)...))})})
				for _, m := range w.Melts {
					if m.Known == "" {
						out = append(out, c06Req{Endpoint: "melt", Method: "POST", Path: "/v1/melt/bolt11", Class: cls,
							Body: jsonStr(map[string]any{"quote": m.Q.Id, "inputs": pj})})
						break
					}
				}
			}
		}
		// two outputs with the same B_ that differ in another field (struct-inequal, so a whole-struct duplicate check
		// cannot see them; the signature table is unique on B_ alone)
		if p.Amount >= 2 {
			fee := w.FeeFor(cashu.Proofs{p}).Uint64()
			if p.Amount-fee >= 2 {
				o := w.U.Outputs(act, 1)[0]
				half := msgsJSON([]world.Out{o, o})
				half[1]["witness"] = "x"
				out = append(out, c06Req{Endpoint: "swap", Method: "POST", Path: "/v1/swap", Class: "semantic:same-B_-different-witness",
					Body: jsonStr(map[string]any{"inputs": proofsJSON(cashu.Proofs{p}), "outputs": half})})
				o2 := w.U.Outputs(act, 1)[0]
				two := msgsJSON([]world.Out{o2, o2})
				if p.Amount-fee >= 3 {
					two[1]["amount"] = 2
					out = append(out, c06Req{Endpoint: "swap", Method: "POST", Path: "/v1/swap", Class: "semantic:same-B_-different-amount",
						Body: jsonStr(map[string]any{"inputs": proofsJSON(cashu.Proofs{p}), "outputs": two})})
				}
			}
		}
		for _, k := range w.Keysets {
			if !k.Active {
				out = append(out, c06Req{Endpoint: "swap", Method: "POST", Path: "/v1/swap", Class: "semantic:inactive-keyset-outputs",
					Body: jsonStr(map[string]any{"inputs": proofsJSON(cashu.Proofs{p}), "outputs": msgsJSON(w.U.Outputs(k.Id, world.Split(p.Amount)...))})})
				break
			}
		}
	}
	for qi, q := range w.Quotes {
		if qi == 0 {
			continue
		}
		cls := "semantic:mint-unpaid-quote"
		if q.Successes > 0 {
			cls = "semantic:mint-issued-quote"
		} else if q.Payments > 0 {
			// paid: over-amount and invalid amount keep it refused
			out = append(out, c06Req{Endpoint: "mint", Method: "POST", Path: "/v1/mint/bolt11", Class: "semantic:mint-over-amount",
				Body: jsonStr(map[string]any{"quote": q.Q.Id, "outputs": msgsJSON(w.U.Outputs(act, world.Split(q.Q.Amount+1)...))})})
			if q.Key == nil && q.Q.Amount >= 3 {
				o := w.U.Outputs(act, 1)[0]
				two := msgsJSON([]world.Out{o, o})
				two[1]["amount"] = 2
				out = append(out, c06Req{Endpoint: "mint", Method: "POST", Path: "/v1/mint/bolt11", Class: "semantic:same-B_-different-amount",
					Body: jsonStr(map[string]any{"quote": q.Q.Id, "outputs": two})})
			}
			out = append(out, c06Req{Endpoint: "mint", Method: "POST", Path: "/v1/mint/bolt11", Class: "semantic:mint-amount-not-a-key",
				Body: jsonStr(map[string]any{"quote": q.Q.Id, "outputs": msgsJSON(w.U.Outputs(act, 3))})})
			if q.Key == nil {
				// optional NUT-20 field on a quote that was created without a public key: the request may be served (field
				// ignored) or refused, but not crash nor leave the quote half-way
				outs := w.U.Outputs(act, world.Split(q.Q.Amount)...)
				stray, _ := secp256k1.GeneratePrivateKey()
				good, _ := nut20.SignMintQuote(stray, q.Q.Id, world.Msgs(outs))
				sigs := map[string]any{"well-formed": hex.EncodeToString(good.Serialize()), "zeros64": strings.Repeat("00", 64), "short-hex": "abcd", "non-hex": "zz", "empty": "", "number": 7}
				for _, kind := range sortedKeys(sigs) {
					sig := sigs[kind]
					out = append(out, c06Req{Endpoint: "mint", Method: "POST", Path: "/v1/mint/bolt11", Class: "semantic:unlocked-quote-with-signature-" + kind,
						Body: jsonStr(map[string]any{"quote": q.Q.Id, "outputs": msgsJSON(outs), "signature": sig})})
				}
			}
			if q.Key != nil {
				out = append(out, c06Req{Endpoint: "mint", Method: "POST", Path: "/v1/mint/bolt11", Class: "semantic:mint-locked-quote-without-signature",
					Body: jsonStr(map[string]any{"quote": q.Q.Id, "outputs": msgsJSON(w.U.Outputs(act, world.Split(q.Q.Amount)...))})})
			}
			continue
		}
		out = append(out, c06Req{Endpoint: "mint", Method: "POST", Path: "/v1/mint/bolt11", Class: cls,
			Body: jsonStr(map[string]any{"quote": q.Q.Id, "outputs": msgsJSON(w.U.Outputs(act, world.Split(q.Q.Amount)...))})})
	}
	// optional fields of the quote endpoints
	pks := map[string]any{"not-on-curve": "02" + strings.Repeat("00", 32), "garbage33": strings.Repeat("ab", 33), "uncompressed": "04" + strings.Repeat("11", 64), "non-hex": "zz", "short": "02ab", "number": 5, "xonly32": strings.Repeat("11", 32)}
	for _, kind := range sortedKeys(pks) {
		pk := pks[kind]
		out = append(out, c06Req{Endpoint: "mintquote", Method: "POST", Path: "/v1/mint/quote/bolt11", Class: "semantic:mintquote-pubkey-" + kind,
			Body: jsonStr(map[string]any{"amount": 8, "unit": "sat", "pubkey": pk})})
	}
	out = append(out, c06Req{Endpoint: "mintquote", Method: "POST", Path: "/v1/mint/quote/bolt11", Class: "semantic:mintquote-long-description",
		Body: jsonStr(map[string]any{"amount": 8, "unit": "sat", "description": strings.Repeat("d", 5000)})})
	opts := map[string]any{"mpp-1000": map[string]any{"mpp": map[string]any{"amount": 1000}}, "mpp-0": map[string]any{"mpp": map[string]any{"amount": 0}}, "mpp-empty": map[string]any{"mpp": map[string]any{}},
		"mpp-null": map[string]any{"mpp": nil}, "mpp-huge": map[string]any{"mpp": map[string]any{"amount": json.Number("18446744073709551615")}}, "mpp-negative": map[string]any{"mpp": map[string]any{"amount": -1}},
		"other-option": map[string]any{"amountless": map[string]any{"amount_msat": 1000}}, "options-array": []any{1}, "options-string": "mpp"}
	for _, kind := range sortedKeys(opts) {
		opt := opts[kind]
		inv := w.LN.NewExternalInvoice(4)
		out = append(out, c06Req{Endpoint: "meltquote", Method: "POST", Path: "/v1/melt/quote/bolt11", Class: "semantic:meltquote-options-" + kind,
			Body: jsonStr(map[string]any{"request": inv.Request, "unit": "sat", "options": opt})})
	}
	for _, m := range w.Melts {
		if u := w.UnspentIdx(3); len(u) > 0 {
			small := w.Proofs[u[0]].P
			for _, i := range u {
				if w.Proofs[i].P.Amount < small.Amount {
					small = w.Proofs[i].P
				}
			}
			if small.Amount < m.Q.Amount+m.Q.FeeReserve {
				out = append(out, c06Req{Endpoint: "melt", Method: "POST", Path: "/v1/melt/bolt11", Class: "semantic:melt-insufficient-inputs",
					Body: jsonStr(map[string]any{"quote": m.Q.Id, "inputs": proofsJSON(cashu.Proofs{small})})})
			}
		}
	}
	return out
}

func sortedKeys(m map[string]any) []string {
	var ks []string
	for k := range m {
		ks = append(ks, k)
	}
	sort.Strings(ks)
	return ks
}

func copyFile(src, dst string) error {
	in, err := os.Open(src)
	if err != nil {
		return err
	}
	defer in.Close()
	tmp := dst + ".tmp"
	out, err := os.Create(tmp)
	if err != nil {
		return err
	}
	if _, err := io.Copy(out, in); err != nil {
		out.Close()
		return err
	}
	out.Close()
	return os.Rename(tmp, dst)
}

func mclass(c string) string {
	if len(c) > 90 {
		return c[:90]
	}
	return c
}

func c06Probe(pairs bool) func(w *mintops.W) {
	return func(w *mintops.W) {
		dbPath := filepath.Join(w.M.Dir, "mint.sqlite.db")
		// normalise: let polls adopt what the backend already knows, so that reads cannot advance states later
		for qi := range w.Quotes {
			if qi > 0 {
				w.M.M.GetMintQuoteState(w.Quotes[qi].Q.Id)
			}
		}
		for _, m := range w.Melts {
			w.M.M.GetMeltQuoteState(bgCtx, m.Q.Id)
		}
		honest := c06Honest(w)
		reqs := c06Requests(w, honest, pairs)
		// snapshot of everything
		w.M.Shutdown()
		snapFile := dbPath + ".snap"
		if err := copyFile(dbPath, snapFile); err != nil {
			w.Viol("HARNESS", "snapshot", "%v", err)
			return
		}
		lnSnap := w.LN.Save()
		fee := w.Keysets[len(w.Keysets)-1].Fee
		restore := func() bool {
			w.M.Shutdown()
			os.Remove(dbPath + "-journal")
			os.Remove(dbPath + "-wal")
			if err := copyFile(snapFile, dbPath); err != nil {
				w.Viol("HARNESS", "restore", "%v", err)
				return false
			}
			w.LN.Restore(lnSnap)
			if err := w.M.Load(false, fee); err != nil {
				w.Viol("C06,C07", "mint-does-not-start-after-restore", "LoadMint: %v", err)
				return false
			}
			return true
		}
		if !restore() {
			return
		}
		base, err := world.Dump(w.M.Dir, true)
		if err != nil {
			w.Viol("HARNESS", "dump", "%v", err)
			return
		}
		basePay := w.LN.PayCalls()
		nReq, nRej, nAcc := 0, 0, 0
		for _, r := range reqs {
			code, body, pan := world.Do(w.M.H, r.Method, r.Path, r.Body, r.Hdr...)
			nReq++
			after, err := world.Dump(w.M.Dir, true)
			if err != nil {
				w.Viol("HARNESS", "dump", "%v", err)
				return
			}
			changed := after != base
			paid := w.LN.PayCalls() != basePay
			if pan != nil {
				w.Viol("C06", "handler-panic/"+r.Endpoint+"/"+mclass(r.Class), "%s %s with %s panicked: %v (body %.200q)", r.Method, r.Path, r.Class, pan, r.Body)
			}
			if code != 200 || pan != nil {
				nRej++
				if changed {
					w.Viol("C06", "state-changed-by-rejected-request/"+r.Endpoint+"/"+mclass(r.Class), "%s %s with %s answered %d %.120q but changed the store: %s", r.Method, r.Path, r.Class, code, body, diffLines(base, after))
				}
				if paid {
					w.Viol("C06", "payment-attempted-by-rejected-request/"+r.Endpoint+"/"+mclass(r.Class), "%s %s with %s answered %d but a Lightning payment was attempted", r.Method, r.Path, r.Class, code)
				}
				if code != 400 && code != 404 && code != 405 && pan == nil {
					w.Viol("C20", "unexpected-status/"+r.Endpoint, "%s %s with %s answered status %d", r.Method, r.Path, r.Class, code)
				}
			} else {
				nAcc++
			}
			if changed || paid {
				if !restore() {
					return
				}
				basePay = w.LN.PayCalls()
			}
		}
		// the same through the Go API for degenerate arguments (nil / empty lists, zero values)
		api := []struct {
			name string
			f    func() error
		}{
			{"Swap(nil,nil)", func() error { _, e := w.M.M.Swap(nil, nil); return e }},
			{"Swap(empty,empty)", func() error { _, e := w.M.M.Swap(cashu.Proofs{}, cashu.BlindedMessages{}); return e }},
			{"MintTokens(zero)", func() error { _, e := w.M.M.MintTokens(nut04.PostMintBolt11Request{}); return e }},
			{"MeltTokens(zero)", func() error { _, e := w.M.M.MeltTokens(bgCtx, nut05.PostMeltBolt11Request{}); return e }},
			{"ProofsStateCheck(nil)", func() error { _, e := w.M.M.ProofsStateCheck(nil); return e }},
			{"ProofsStateCheck(empty)", func() error { _, e := w.M.M.ProofsStateCheck([]string{}); return e }},
			{"ProofsStateCheck([\"\"])", func() error { _, e := w.M.M.ProofsStateCheck([]string{""}); return e }},
			{"RestoreSignatures(nil)", func() error { _, _, e := w.M.M.RestoreSignatures(nil); return e }},
			{"RequestMintQuote(zero)", func() error { _, e := w.M.M.RequestMintQuote(nut04.PostMintQuoteBolt11Request{}); return e }},
			{"RequestMeltQuote(zero)", func() error { _, e := w.M.M.RequestMeltQuote(nut05.PostMeltQuoteBolt11Request{}); return e }},
			{"GetMintQuoteState(\"\")", func() error { _, e := w.M.M.GetMintQuoteState(""); return e }},
			{"GetMeltQuoteState(\"\")", func() error { _, e := w.M.M.GetMeltQuoteState(bgCtx, ""); return e }},
			{"GetKeysetById(\"\")", func() error { _, e := w.M.M.GetKeysetById(""); return e }},
		}
		for _, a := range api {
			var err error
			var pan any
			func() {
				defer func() { pan = recover() }()
				err = a.f()
			}()
			nReq++
			after, derr := world.Dump(w.M.Dir, true)
			if derr != nil {
				w.Viol("HARNESS", "dump", "%v", derr)
				return
			}
			if pan != nil {
				w.Viol("C06", "api-panic/"+a.name, "%s panicked: %v", a.name, pan)
			}
			if (err != nil || pan != nil) && after != base {
				w.Viol("C06", "state-changed-by-rejected-request/api/"+a.name, "%s returned %v but changed the store: %s", a.name, err, diffLines(base, after))
			}
			if after != base {
				if !restore() {
					return
				}
			}
		}
		w.Outcomes["c06-requests"] += nReq
		w.Outcomes["c06-rejected"] += nRej
		w.Outcomes["c06-accepted-mutants"] += nAcc
		// (3) after all the rejections the honest requests are still accepted
		for _, h := range honest {
			if strings.HasSuffix(h.Endpoint, "unusable-quote") {
				continue
			}
			if h.Endpoint == "mint" {
				ok := false
				for qi, q := range w.Quotes {
					if qi > 0 && q.Payments > 0 && q.Successes == 0 && q.Key == nil && strings.Contains(h.Body, q.Q.Id) {
						ok = true
					}
				}
				if !ok {
					continue
				}
			}
			if strings.Contains(h.Endpoint, "state") && strings.Contains(h.Path, "aaaaaaaa") {
				continue
			}
			code, body, pan := world.Do(w.M.H, h.Method, h.Path, h.Body)
			if pan != nil || code != 200 {
				w.Viol("C06", "honest-request-refused-after-rejections/"+h.Endpoint, "after %d rejected requests the honest %s %s is answered %d %.160q (panic %v)", nRej, h.Method, h.Path, code, body, pan)
			}
		}
	}
}

func diffLines(a, b string) string {
	am := map[string]bool{}
	for _, l := range strings.Split(a, "\n") {
		am[l] = true
	}
	bm := map[string]bool{}
	for _, l := range strings.Split(b, "\n") {
		bm[l] = true
	}
	var d []string
	for l := range am {
		if !bm[l] {
			d = append(d, "-"+shortLine(l))
		}
	}
	for l := range bm {
		if !am[l] {
			d = append(d, "+"+shortLine(l))
		}
	}
	if len(d) > 4 {
		d = d[:4]
	}
	return strings.Join(d, " | ")
}

func shortLine(l string) string {
	f := strings.Fields(l)
	for i, x := range f {
		if len(x) > 28 {
			f[i] = x[:28] + "…"
		}
	}
	return strings.Join(f, " ")
}

func c06Specs(quick bool) []*bfs.Spec {
	// a melt quote on the invoice of an own mint quote that is already paid / issued (accepted by the mint: a second
	// payment of that quote): the states in which the internal-settlement path meets a quote that is not UNPAID
	internal := func(name string, init ...string) *bfs.Spec {
		return &bfs.Spec{Prop: "C06", Name: name, Cfg: mintops.Config{Fee: 0}, Init: append([]string{"fund|8,8,4"}, init...), Menu: c06Menu, Probe: c06Probe(false), Depth: 1}
	}
	sfx := map[bool]string{true: "-q", false: ""}[quick]
	extra := []*bfs.Spec{
		internal("C06-internal-of-issued"+sfx, "mq|8", "settle|1", "mint|1|exact", "meltqi|1"),
		internal("C06-internal-of-paid"+sfx, "mq|8", "settle|1", "pollq|1", "meltqi|1"),
	}
	if quick {
		return append([]*bfs.Spec{{Prop: "C06", Name: "C06-q", Cfg: mintops.Config{Fee: 0}, Init: []string{"fund|8,8,4"}, Menu: c06Menu, Probe: c06Probe(false), Depth: 3}}, extra...)
	}
	return append(extra, []*bfs.Spec{
		{Prop: "C06", Name: "C06-fee0", Cfg: mintops.Config{Fee: 0}, Init: []string{"fund|8,8,4"}, Menu: c06Menu, Probe: c06Probe(true), Depth: 4},
		{Prop: "C06", Name: "C06-fee100", Cfg: mintops.Config{Fee: 100}, Init: []string{"fund|8,8,4"}, Menu: c06Menu, Probe: c06Probe(false), Depth: 3},
	}...)
}

var c06All = specMap(c06Specs(true), c06Specs(false))

func init() {
	register(&Prop{ID: "C06", Level: "model_checking", QuickBudget: 300 * time.Second, ThoroughBudget: 25 * time.Minute,
		Run: func(c *rt.Ctx) {
			c.Cov["rule"] = "E3 builds every state reachable by <= d honest operations from {mint quote (plain / NUT-20), settle, poll, mint, swap, melt quote, melt x {Succeeded, Pending, Failed->NotFound}, rotate}; in each distinct state the request grammar is sent through the real HTTP handler under recover(): for each of the 7 POST endpoints a valid request for this state and all its single structural mutants (every field dropped / null / retyped to string, number, bool, array, object; lists emptied, with a duplicated element, truncated; strings empty / non-hex / odd hex / 10000 chars / wrong-length hex / unknown id / upper-case / shortened; numbers 0, -1, 1.5, 2^63, 2^64-1, 1e30; thorough: all pairs of list-field mutants), whole-body forms (empty, null, [], string, number, {}, truncated, trailing garbage, 5000-deep nesting), wrong Content-Type, other HTTP methods, unsupported {method} path segment, GET endpoints with unknown / non-hex / long / SQL-like ids, and the semantically invalid requests (used input, outputs over inputs, unknown / inactive keyset, duplicate input, unpaid / issued quote, over amount, missing NUT-20 signature, insufficient melt inputs) and requests carrying optional fields in unusual shapes (a NUT-20 signature on a quote without key: well-formed / zeros / short / non-hex / empty / number; mint-quote pubkey not on the curve / garbage / uncompressed / x-only / non-hex; 5000-char description; melt-quote options mpp 1000 / 0 / empty / null / 2^64-1 / -1 / unknown option / array / string). Oracle: no panic; every non-200 answer leaves the dump of all tables and the Lightning ledger byte-identical and triggers no payment; afterwards every honest request of the state is answered 200"
			runSpecs(c, c06Specs(c.Quick()))
			c.Cov["rule_schedules"] = "E1 (beyond the statement's quantifier): two swaps with different inputs asking for the same outputs, every interleaving at MintDB call granularity with at most B preemptions; a swap answered with an error leaves its input UNSPENT, an accepted one SPENT, at most one is accepted"
			b := 2
			if !c.Quick() {
				b = 3
			}
			if c.Quick() {
				runSched(c, "C06", []string{"R1-swap-swap-same-outputs", "R2-mint-swap-same-outputs"}, b)
			} else {
				runSchedAll(c, "C06", []string{"R1-swap-swap-same-outputs", "R2-mint-swap-same-outputs"}, b)
			}
		},
		Worker: dispatchWorker(bfs.Worker(c06All)),
		Replay: func(p string) int {
			if code, ok := replaySched("C06", p); ok {
				return code
			}
			return bfs.ReplayFile("C06", c06All, p)
		},
	})
}
