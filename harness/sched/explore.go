package sched

import (
	"encoding/json"
	"fmt"

	"verif/harness/rt"
)

// Job / Res are exchanged with worker subprocesses: one execution of scenario Scn under the choice prefix.
type Job struct {
	Scn    string
	Prefix []int
	Keys   bool // compute a state key at every decision past the prefix (ExploreAll)
}

type Res struct {
	Trace    []Decision
	V        []rt.Violation
	Obs      string // canonical observation log of this execution (results of every call + final state)
	Outcome  string // coarse outcome class (for the distinct-outcome counter)
	Err      string
	Collided bool // the scenario's collision predicate held (e.g. both threads passed verification before either wrote)
}

type Stats struct {
	Executions int
	Outcomes   map[string]int
	Collisions int
	BoundDone  int
	Complete   bool
	MaxLen     int
}

// Explore enumerates all executions of a scenario with at most `bound` preemptions (iterative: 0, 1, .., bound).
// It is the brief's idiom, run in waves so that executions of one wave go to the worker pool in parallel.
func Explore(c *rt.Ctx, prop, scn string, bound int) Stats {
	st := Stats{Outcomes: map[string]int{}, Complete: true, BoundDone: -1}
	// determinism check: default schedule twice, identical observation logs
	var first [2]Res
	c.Pool.Map([]any{Job{Scn: scn}, Job{Scn: scn}}, func(i int, r rt.JobResult) {
		if r.Died {
			rt.HarnessError("scenario %s: worker died on the default schedule: %s", scn, r.Stderr)
		}
		json.Unmarshal(r.Out, &first[i])
	})
	if first[0].Err != "" {
		rt.HarnessError("scenario %s default schedule: %s", scn, first[0].Err)
	}
	if first[0].Obs != first[1].Obs || len(first[0].Trace) != len(first[1].Trace) {
		rt.HarnessError("scenario %s is not deterministic: the default schedule gave two different observation logs:\n%s\n---\n%s", scn, first[0].Obs, first[1].Obs)
	}
	type item struct {
		prefix []int
		cost   int // preemptions used by the prefix
	}
	seenPrefix := map[string]bool{}
	for b := 0; b <= bound; b++ {
		// wave-based exploration of all executions with <= b preemptions; executions already produced by an earlier
		// iteration are re-run (their subtrees are needed) but counted and reported once (seenPrefix holds full schedules)
		frontier := []item{{nil, 0}}
		for len(frontier) > 0 {
			if c.Expired() {
				st.Complete = false
				return st
			}
			jobs := make([]any, 0, len(frontier))
			var todo []item
			for _, it := range frontier {
				todo = append(todo, it)
				jobs = append(jobs, Job{Scn: scn, Prefix: it.prefix})
			}
			var next []item
			c.Pool.Map(jobs, func(i int, r rt.JobResult) {
				it := todo[i]
				if r.Died {
					c.Violate(prop+"/worker-died/"+scn, fmt.Sprintf("scenario %s: the process died under schedule %v: %s", scn, it.prefix, tailS(r.Stderr)), map[string]any{"scn": scn, "prefix": it.prefix})
					return
				}
				var res Res
				if err := json.Unmarshal(r.Out, &res); err != nil {
					rt.HarnessError("bad worker result: %v", err)
				}
				if res.Err != "" {
					rt.HarnessError("scenario %s schedule %v: %s", scn, it.prefix, res.Err)
				}
				full := fmt.Sprint(choices(res.Trace))
				first := !seenPrefix[full]
				seenPrefix[full] = true
				if first {
					st.Executions++
					st.Outcomes[res.Outcome]++
					if res.Collided {
						st.Collisions++
					}
					if len(res.Trace) > st.MaxLen {
						st.MaxLen = len(res.Trace)
					}
					c.Distinct(scn + "|" + res.Obs)
					for _, v := range res.V {
						if v.Property == "HARNESS" {
							rt.HarnessError("scenario %s schedule %v: %s", scn, choices(res.Trace), v.What)
						}
						if !rt.HasProp(v.Property, prop) {
							c.Info(fmt.Sprintf("(outside %s) %s/%s: %s", prop, v.Property, v.Key, v.What))
							continue
						}
						c.Violate(prop+"/"+v.Key, fmt.Sprintf("[%s] schedule %v (%s): %s", scn, choices(res.Trace), describe(res.Trace), v.What), map[string]any{"scn": scn, "prefix": choices(res.Trace)})
					}
					if st.Executions <= 3 {
						c.Sample(map[string]any{"scenario": scn, "schedule": describe(res.Trace), "outcome": res.Outcome})
					}
				}
				// children: deviate at every point at or after the prefix
				pre := 0
				for j, d := range res.Trace {
					if j < len(it.prefix) {
						if d.RunningEnabled && d.Chosen != 0 {
							pre++
						}
						continue
					}
					for alt := 1; alt < len(d.Enabled); alt++ {
						cost := pre
						if d.RunningEnabled {
							cost++
						}
						if cost > b {
							continue
						}
						np := append(append([]int{}, choices(res.Trace[:j])...), alt)
						next = append(next, item{np, cost})
					}
					if d.RunningEnabled && d.Chosen != 0 {
						pre++
					}
				}
			})
			frontier = next
		}
		st.BoundDone = b
	}
	return st
}

// AllStats describes an unbounded exploration with state pruning.
type AllStats struct {
	Executions int
	States     int // distinct state keys claimed (every alternative of each was expanded)
	Pruned     int // decisions at which an execution reached an already claimed state and was cut
	Outcomes   map[string]int
	Complete   bool
	MaxLen     int
	MaxPre     int // largest number of preemptions in an explored execution
}

// ExploreAll enumerates the executions of a scenario WITHOUT a preemption bound. The search is a graph search over
// state keys (sched.stateKey: store tables, backend ledger, and for every thread its position and everything it has
// observed): the first execution that reaches a state claims it and spawns one child per alternative thread there;
// an execution that reaches a claimed state is cut from that decision on (its continuation from there was, or will be,
// produced by the claimant). Two executions with the same key have the same futures because every thread's local state
// is a function of the results it observed and all shared state is in the key; the oracle of a complete execution is a
// function of the final key. Executions are judged in job order, so the search tree is the same in every run.
func ExploreAll(c *rt.Ctx, prop, scn string, known map[string]int) AllStats {
	st := AllStats{Outcomes: map[string]int{}, Complete: true}
	claimed := map[string]bool{}
	frontier := [][]int{nil}
	for len(frontier) > 0 {
		if c.Expired() {
			st.Complete = false
			return st
		}
		jobs := make([]any, 0, len(frontier))
		for _, p := range frontier {
			jobs = append(jobs, Job{Scn: scn, Prefix: p, Keys: true})
		}
		todo := frontier
		var next [][]int
		c.Pool.Map(jobs, func(i int, r rt.JobResult) {
			prefix := todo[i]
			if r.Died {
				c.Violate(prop+"/worker-died/"+scn, fmt.Sprintf("scenario %s: the process died under schedule %v: %s", scn, prefix, tailS(r.Stderr)), map[string]any{"scn": scn, "prefix": prefix})
				return
			}
			var res Res
			if err := json.Unmarshal(r.Out, &res); err != nil {
				rt.HarnessError("bad worker result: %v", err)
			}
			if res.Err != "" {
				rt.HarnessError("scenario %s schedule %v: %s", scn, prefix, res.Err)
			}
			st.Executions++
			st.Outcomes[res.Outcome]++
			if len(res.Trace) > st.MaxLen {
				st.MaxLen = len(res.Trace)
			}
			pre := 0
			for _, d := range res.Trace {
				if d.RunningEnabled && d.Chosen != 0 {
					pre++
				}
			}
			if pre > st.MaxPre {
				st.MaxPre = pre
			}
			c.Distinct(scn + "|" + res.Obs)
			for _, v := range res.V {
				if v.Property == "HARNESS" {
					rt.HarnessError("scenario %s schedule %v: %s", scn, choices(res.Trace), v.What)
				}
				if !rt.HasProp(v.Property, prop) {
					continue
				}
				c.Violate(prop+"/"+v.Key, fmt.Sprintf("[%s] schedule %v (%s): %s", scn, choices(res.Trace), describe(res.Trace), v.What), map[string]any{"scn": scn, "prefix": choices(res.Trace)})
			}
			for j := len(prefix); j < len(res.Trace); j++ {
				d := res.Trace[j]
				if d.Key == "" {
					rt.HarnessError("scenario %s: no state key at decision %d", scn, j)
				}
				if claimed[d.Key] {
					st.Pruned++
					break
				}
				claimed[d.Key] = true
				for alt := 1; alt < len(d.Enabled); alt++ {
					next = append(next, append(append([]int{}, choices(res.Trace[:j])...), alt))
				}
			}
		})
		frontier = next
	}
	st.States = len(claimed)
	// cross-check of the key: every outcome class the bounded search saw must have been reached by the pruned search
	// (a key that merged states with different futures would lose outcomes)
	for o := range known {
		if st.Outcomes[o] == 0 && st.Complete {
			// never a verdict about the code: the unbounded search of this scenario is reported as not completed
			c.Info(fmt.Sprintf("scenario %s: outcome %q was reached by the preemption-bounded search but not by the unbounded pruned search (state key too coarse, or an execution that did not replay): the unbounded search of this scenario is not counted as complete", scn, o))
			st.Complete = false
		}
	}
	return st
}

func ReportAll(c *rt.Ctx, scn string, st AllStats) {
	c.Count("states", int64(st.States))
	c.Count("transitions", int64(st.Executions))
	c.Count("traces_validated_against_impl", int64(st.Executions))
	sc, _ := c.Cov["schedules_unbounded"].([]any)
	c.Cov["schedules_unbounded"] = append(sc, map[string]any{"scenario": scn, "preemption_bound": "none", "executions": st.Executions, "distinct_state_keys": st.States,
		"cut_at_claimed_state": st.Pruned, "distinct_outcomes": st.Outcomes, "longest_schedule": st.MaxLen, "most_preemptions_in_an_execution": st.MaxPre, "complete": st.Complete})
	if !st.Complete {
		c.Exhaustive = false
	}
}

func choices(tr []Decision) []int {
	c := make([]int, len(tr))
	for i, d := range tr {
		c[i] = d.Chosen
	}
	return c
}

func describe(tr []Decision) string {
	s := ""
	last := ""
	for _, d := range tr {
		if d.At != last {
			if s != "" {
				s += " > "
			}
			s += d.At
		}
		last = d.At
	}
	if len(s) > 600 {
		s = s[:600] + "…"
	}
	return s
}

func tailS(s string) string {
	if len(s) > 1500 {
		return s[len(s)-1500:]
	}
	return s
}

// Report folds scenario statistics into the evidence.
func Report(c *rt.Ctx, scn string, bound int, st Stats) {
	c.Count("states", int64(len(st.Outcomes)))
	c.Count("transitions", int64(st.Executions))
	c.Count("traces_validated_against_impl", int64(st.Executions))
	sc, _ := c.Cov["schedules"].([]any)
	c.Cov["schedules"] = append(sc, map[string]any{"scenario": scn, "preemption_bound": bound, "bound_completed": st.BoundDone, "executions": st.Executions,
		"distinct_outcomes": st.Outcomes, "collisions_exercised": st.Collisions, "longest_schedule": st.MaxLen, "complete": st.Complete,
		"vacuous": len(st.Outcomes) < 2 && st.Collisions == 0})
	if !st.Complete {
		c.Exhaustive = false
	}
}
