// Package sched is engine E1: a cooperative scheduler that owns every interleaving of a few harness threads (and
// adopted background goroutines of the mint) at the granularity of MintDB and Lightning calls.
// One execution = one choice sequence; the explorer (explore.go) enumerates choice sequences by iterative
// preemption bounding.
//
// Real locks in the code under test are handled by inspecting goroutine wait states (runtime.Stack): a resumed
// thread that blocks in sync.Mutex.Lock / RWMutex before reaching its next point is marked blocked (disabled) until
// the holder releases the lock; "no enabled thread while some are unfinished" is reported as a deadlock.
package sched

import (
	"bytes"
	"crypto/sha256"
	"encoding/hex"
	"fmt"
	"io"
	"runtime"
	"sort"
	"strconv"
	"sync"
	"sync/atomic"
	"time"

	"verif/harness/dbwrap"
)

const watchdog = 30 * time.Second

type thread struct {
	id      int
	name    string
	gid     int64
	resume  chan struct{}
	at      string // point it is parked at
	done    bool
	adopted bool
	blocked bool // blocked on a lock held by a parked thread
	parked  bool
	steps   int // how many times it was granted a step
	blockNo int // order in which currently blocked threads went to wait (the lock's queue order)
}

type evKind int

const (
	evParked evKind = iota
	evDone
)

type event struct {
	t    *thread
	kind evKind
}

// Decision is one scheduling point of an execution.
type Decision struct {
	Enabled        []int  // thread ids in canonical order: the running thread first if still enabled, then ascending
	Chosen         int    // index into Enabled
	At             string // point the chosen thread was parked at
	RunningEnabled bool
	Key            string `json:",omitempty"` // state key before the decision (only with KeyFn, only past the prefix)
}

type Sched struct {
	mu      sync.Mutex
	threads []*thread
	byGID   map[int64]*thread
	events  chan event
	adoptCh chan *thread
	free    atomic.Bool
	Prefix  []int
	Trace   []Decision
	// Err is set on a harness-level problem (watchdog, diverging prefix)
	Err      error
	Deadlock string // set when unfinished threads exist but none is enabled
	bodies   []func()
	names    []string
	// KeyFn, if set, renders the shared state (store, backend); Run combines it with every thread's local state
	// (ResultsFn: what goroutine gid has observed so far) into Decision.Key at every decision past the prefix.
	KeyFn     func() string
	ResultsFn func(gid int64) string
	blockSeq  int
}

// stateKey must be called while every thread is parked, blocked or finished.
func (s *Sched) stateKey() string {
	h := sha256.New()
	io.WriteString(h, s.KeyFn())
	s.mu.Lock()
	type tk struct {
		name, rest string
		block      int
	}
	var ts []tk
	for _, t := range s.threads {
		st := "parked@" + t.at
		switch {
		case t.done:
			st = "done"
		case t.blocked:
			st = "blocked@" + t.at
		}
		r := ""
		if s.ResultsFn != nil {
			r = s.ResultsFn(t.gid)
		}
		b := 0
		if t.blocked && !t.done {
			b = t.blockNo
		}
		ts = append(ts, tk{t.name, fmt.Sprintf("%s|%d|%s", st, t.steps, r), b})
	}
	s.mu.Unlock()
	// harness threads have unique names; adopted background goroutines ("bg") are ordered by what they have seen
	sort.SliceStable(ts, func(i, j int) bool {
		if ts[i].name != ts[j].name {
			return ts[i].name < ts[j].name
		}
		return ts[i].rest < ts[j].rest
	})
	// lock queue order: rank of each blocked thread among the blocked ones
	var bl []int
	for _, t := range ts {
		if t.block > 0 {
			bl = append(bl, t.block)
		}
	}
	sort.Ints(bl)
	for _, t := range ts {
		rank := 0
		for i, b := range bl {
			if t.block == b && b > 0 {
				rank = i + 1
			}
		}
		fmt.Fprintf(h, "\n%s|%s|q%d", t.name, t.rest, rank)
	}
	return hex.EncodeToString(h.Sum(nil)[:12])
}

func New(prefix []int) *Sched {
	s := &Sched{byGID: map[int64]*thread{}, events: make(chan event, 64), adoptCh: make(chan *thread, 8), Prefix: prefix}
	s.free.Store(true)
	return s
}

// Go declares a harness thread; it starts parked at "begin" when Run is called.
func (s *Sched) Go(name string, body func()) {
	s.names = append(s.names, name)
	s.bodies = append(s.bodies, body)
}

// Point is called by the hooks before every MintDB / Lightning call (and by harness-defined steps).
func (s *Sched) Point(name string) {
	if s.free.Load() {
		return
	}
	gid := dbwrap.GID()
	s.mu.Lock()
	t := s.byGID[gid]
	adopted := false
	if t == nil || t.done {
		t = &thread{id: len(s.threads), name: "bg", gid: gid, resume: make(chan struct{}), adopted: true}
		s.threads = append(s.threads, t)
		s.byGID[gid] = t
		adopted = true
	}
	if t.adopted && t.blocked {
		adopted = false // registered while blocked on a lock; now it simply parks like any thread
	}
	t.at = name
	t.parked = true
	s.mu.Unlock()
	if adopted {
		s.adoptCh <- t
	} else {
		s.events <- event{t, evParked}
	}
	<-t.resume
}

// WaitAdopted blocks the calling (running) thread until n background goroutines have parked at their first point.
func (s *Sched) WaitAdopted(n int) bool {
	for i := 0; i < n; i++ {
		select {
		case <-s.adoptCh:
		case <-time.After(watchdog):
			s.Err = fmt.Errorf("watchdog: background goroutine did not reach a point")
			return false
		}
	}
	return true
}

// AdoptBackground is called by the running harness thread after it woke background goroutines of the code under
// test (pairs of {owner goroutine, helper goroutine that hands the event over and exits}). It returns when every
// owner has parked at its first point (adopted as a schedulable thread), is blocked on a lock held by a parked
// thread (adopted as a blocked thread), or has finished / gone quiet without reaching any point.
func (s *Sched) AdoptBackground(pairs [][2]int64) bool {
	if s.free.Load() {
		return true // free-running pass: nothing is scheduled
	}
	deadline := time.Now().Add(watchdog)
	for _, pr := range pairs {
		owner, helper := pr[0], pr[1]
		for {
			s.mu.Lock()
			t := s.byGID[owner]
			parked := t != nil && !t.done && t.parked
			s.mu.Unlock()
			if parked {
				select {
				case <-s.adoptCh:
				default:
				}
				break
			}
			st := gstates()
			if _, alive := st[helper]; alive && helper != 0 {
				// the event has not been handed over yet
			} else if os, ok := st[owner]; !ok {
				break // exited without touching the store
			} else if lockState(os) {
				s.mu.Lock()
				if s.byGID[owner] == nil || s.byGID[owner].done {
					s.blockSeq++
					nt := &thread{id: len(s.threads), name: "bg", gid: owner, resume: make(chan struct{}), adopted: true, blocked: true, at: "lock", blockNo: s.blockSeq}
					s.threads = append(s.threads, nt)
					s.byGID[owner] = nt
				}
				s.mu.Unlock()
				break
			} else if !activeState(os) {
				// waiting for something else than a lock: re-check once the helper is gone (handled above); quiet => nothing to adopt
				s.mu.Lock()
				t := s.byGID[owner]
				parkedNow := t != nil && !t.done && t.parked
				s.mu.Unlock()
				if !parkedNow {
					break
				}
				continue
			}
			if time.Now().After(deadline) {
				s.Err = fmt.Errorf("watchdog: background goroutine did not settle")
				return false
			}
			time.Sleep(20 * time.Microsecond)
		}
	}
	return true
}

// gstates returns the wait state of every goroutine ("running", "runnable", "syscall", "sync.Mutex.Lock", "chan receive", ...).
func gstates() map[int64]string {
	buf := make([]byte, 1<<18)
	for {
		n := runtime.Stack(buf, true)
		if n < len(buf) {
			buf = buf[:n]
			break
		}
		buf = make([]byte, 2*len(buf))
	}
	out := map[int64]string{}
	for _, blk := range bytes.Split(buf, []byte("\n\n")) {
		if !bytes.HasPrefix(blk, []byte("goroutine ")) {
			continue
		}
		rest := blk[len("goroutine "):]
		sp := bytes.IndexByte(rest, ' ')
		if sp < 0 {
			continue
		}
		id, err := strconv.ParseInt(string(rest[:sp]), 10, 64)
		if err != nil {
			continue
		}
		lb := bytes.IndexByte(rest, '[')
		rb := bytes.IndexByte(rest, ']')
		if lb < 0 || rb < lb {
			continue
		}
		st := string(rest[lb+1 : rb])
		if c := bytes.IndexByte([]byte(st), ','); c >= 0 {
			st = st[:c]
		}
		out[id] = st
	}
	return out
}

// WaitGone waits until the goroutines have exited (used by sequential worlds to wait for the mint's watcher).
func WaitGone(gids []int64, limit time.Duration) bool {
	deadline := time.Now().Add(limit)
	for {
		st := gstates()
		alive := false
		for _, g := range gids {
			if _, ok := st[g]; ok {
				alive = true
			}
		}
		if !alive {
			return true
		}
		if time.Now().After(deadline) {
			return false
		}
		time.Sleep(50 * time.Microsecond)
	}
}

// persistsInLock samples the goroutine's wait state a few more times: true only if it is waiting for a lock in all of them.
func persistsInLock(gid int64) bool {
	for i := 0; i < 4; i++ {
		time.Sleep(150 * time.Microsecond)
		st, ok := gstates()[gid]
		if !ok || !lockState(st) {
			return false
		}
	}
	return true
}

func lockState(st string) bool {
	switch st {
	case "sync.Mutex.Lock", "sync.RWMutex.Lock", "sync.RWMutex.RLock", "semacquire":
		return true
	}
	return false
}

func activeState(st string) bool {
	return st == "running" || st == "runnable" || st == "syscall"
}

// drain consumes pending events (parked flags are set by Point itself; done flags here).
func (s *Sched) drain() {
	for {
		select {
		case ev := <-s.events:
			if ev.kind == evDone {
				s.mu.Lock()
				ev.t.done = true
				s.mu.Unlock()
			}
		default:
			return
		}
	}
}

// await waits until thread t has parked at a point, finished, blocked on a lock, or (adopted threads) gone quiet.
// Returns false on watchdog.
func (s *Sched) await(t *thread) bool {
	deadline := time.Now().Add(watchdog)
	spin := 0
	for {
		s.drain()
		s.mu.Lock()
		ok := t.parked || t.done
		s.mu.Unlock()
		if ok {
			return true
		}
		spin++
		if spin < 200 {
			runtime.Gosched()
			continue
		}
		if spin%20 == 0 {
			st, ok := gstates()[t.gid]
			s.mu.Lock()
			settled := t.parked || t.done
			s.mu.Unlock()
			switch {
			case settled:
				return true
			case ok && lockState(st):
				// a lock that is merely contended for a moment (held by a RUNNING goroutine: the store's connection pool,
				// the logger) is released within microseconds; only a wait that persists is a lock held by a parked thread
				if !persistsInLock(t.gid) {
					continue
				}
				s.mu.Lock()
				settledNow := t.parked || t.done
				if !settledNow {
					t.blocked = true
					s.blockSeq++
					t.blockNo = s.blockSeq
				}
				s.mu.Unlock()
				return true
			case t.adopted && (!ok || !activeState(st)):
				// background goroutine exited or went back to waiting for the environment: its step is over
				s.mu.Lock()
				t.done = true
				s.mu.Unlock()
				return true
			}
		}
		if time.Now().After(deadline) {
			return false
		}
		time.Sleep(20 * time.Microsecond)
	}
}

// settleBlocked re-examines threads that were blocked on a lock: those that got the lock have either parked at their
// next point (event consumed here) or finished.
func (s *Sched) settleBlocked() bool {
	for {
		s.mu.Lock()
		var pend []*thread
		for _, t := range s.threads {
			if t.blocked && !t.done {
				pend = append(pend, t)
			}
		}
		s.mu.Unlock()
		if len(pend) == 0 {
			return true
		}
		states := gstates()
		progressed := false
		for _, t := range pend {
			st, ok := states[t.gid]
			if ok && lockState(st) {
				continue // still waiting for the lock
			}
			// it is running towards its next point: wait for that
			s.mu.Lock()
			t.blocked = false
			s.mu.Unlock()
			if !s.await(t) {
				return false
			}
			progressed = true
		}
		if !progressed {
			return true
		}
	}
}

// Run starts the declared threads and schedules until every thread has finished.
func (s *Sched) Run() {
	s.free.Store(false)
	for i := range s.bodies {
		t := &thread{id: len(s.threads), name: s.names[i], resume: make(chan struct{})}
		s.threads = append(s.threads, t)
		body := s.bodies[i]
		ready := make(chan struct{})
		go func() {
			t.gid = dbwrap.GID()
			s.mu.Lock()
			s.byGID[t.gid] = t
			t.at = "begin"
			t.parked = true
			s.mu.Unlock()
			close(ready)
			<-t.resume
			body()
			s.events <- event{t, evDone}
		}()
		<-ready
	}
	running := -1
	step := 0
	for {
		s.mu.Lock()
		var enabled []int
		runEn := false
		unfinished := 0
		for _, t := range s.threads {
			if !t.done {
				unfinished++
			}
			if !t.done && !t.blocked && t.id == running {
				runEn = true
			}
		}
		if runEn {
			enabled = append(enabled, running)
		}
		for _, t := range s.threads {
			if !t.done && !t.blocked && t.id != running {
				enabled = append(enabled, t.id)
			}
		}
		s.mu.Unlock()
		if len(enabled) == 0 {
			if unfinished > 0 {
				s.Deadlock = fmt.Sprintf("%d unfinished thread(s), all blocked on locks", unfinished)
				s.free.Store(true)
			}
			break
		}
		choice := 0
		if step < len(s.Prefix) {
			choice = s.Prefix[step]
			if choice >= len(enabled) {
				s.Err = fmt.Errorf("diverging prefix at step %d: choice %d of %d enabled", step, choice, len(enabled))
				s.free.Store(true)
				s.releaseAll()
				return
			}
		}
		t := s.threads[enabled[choice]]
		d := Decision{Enabled: enabled, Chosen: choice, At: t.name + ":" + t.at, RunningEnabled: runEn}
		if s.KeyFn != nil && step >= len(s.Prefix) {
			d.Key = s.stateKey()
		}
		s.Trace = append(s.Trace, d)
		step++
		s.mu.Lock()
		t.parked = false
		t.steps++
		s.mu.Unlock()
		t.resume <- struct{}{}
		if !s.await(t) {
			s.Err = fmt.Errorf("watchdog: thread %s did not park or finish after %s", t.name, t.at)
			s.free.Store(true)
			return
		}
		if !s.settleBlocked() {
			s.Err = fmt.Errorf("watchdog: a thread released from a lock did not park or finish")
			s.free.Store(true)
			return
		}
		running = t.id
	}
	s.free.Store(true)
}

func (s *Sched) releaseAll() {
	s.mu.Lock()
	defer s.mu.Unlock()
	for _, t := range s.threads {
		if !t.done {
			select {
			case t.resume <- struct{}{}:
			default:
			}
		}
	}
}

// Choices returns the choice sequence of the recorded execution.
func (s *Sched) Choices() []int {
	c := make([]int, len(s.Trace))
	for i, d := range s.Trace {
		c[i] = d.Chosen
	}
	return c
}

// RunFree starts all declared threads as ordinary goroutines at once and waits for them: no scheduling, points are
// no-ops. Used for the separate free-running pass under the race detector (a cooperative scheduler's hand-offs are
// happens-before edges that blind the detector).
func (s *Sched) RunFree() {
	s.free.Store(true)
	var wg sync.WaitGroup
	start := make(chan struct{})
	for i := range s.bodies {
		wg.Add(1)
		body := s.bodies[i]
		go func() {
			defer wg.Done()
			<-start
			body()
		}()
	}
	close(start)
	wg.Wait()
}
