// Package sched is engine E1: a cooperative scheduler that owns every interleaving of a few harness threads (and
// adopted background goroutines of the mint) at the granularity of MintDB and Lightning calls.
// One execution = one choice sequence; the explorer (explore.go) enumerates choice sequences by iterative
// preemption bounding.
package sched

import (
	"fmt"
	"sync"
	"sync/atomic"
	"time"

	"verif/harness/dbwrap"
)

const watchdog = 30 * time.Second

type thread struct {
	id     int
	name   string
	gid    int64
	resume chan struct{}
	at     string // point it is parked at
	done   bool
	adopted bool
}

type evKind int

const (
	evParked evKind = iota
	evDone
)

type event struct {
	t    *thread
	kind evKind
}

// Decision is one scheduling point of an execution.
type Decision struct {
	Enabled        []int  // thread ids in canonical order: the running thread first if still enabled, then ascending
	Chosen         int    // index into Enabled
	At             string // point the chosen thread was parked at
	RunningEnabled bool
}

type Sched struct {
	mu      sync.Mutex
	threads []*thread
	byGID   map[int64]*thread
	events  chan event
	adoptCh chan *thread
	free    atomic.Bool
	Prefix  []int
	Trace   []Decision
	// Err is set on a harness-level problem (watchdog, diverging prefix)
	Err error
	bodies []func()
	names  []string
}

func New(prefix []int) *Sched {
	s := &Sched{byGID: map[int64]*thread{}, events: make(chan event, 64), adoptCh: make(chan *thread, 8), Prefix: prefix}
	s.free.Store(true)
	return s
}

// Go declares a harness thread; it starts parked at "begin" when Run is called.
func (s *Sched) Go(name string, body func()) {
	s.names = append(s.names, name)
	s.bodies = append(s.bodies, body)
}

// Point is called by the hooks before every MintDB / Lightning call (and by harness-defined steps).
func (s *Sched) Point(name string) {
	if s.free.Load() {
		return
	}
	gid := dbwrap.GID()
	s.mu.Lock()
	t := s.byGID[gid]
	adopted := false
	if t == nil || t.done {
		t = &thread{id: len(s.threads), name: "bg", gid: gid, resume: make(chan struct{}), adopted: true}
		s.threads = append(s.threads, t)
		s.byGID[gid] = t
		adopted = true
	}
	t.at = name
	s.mu.Unlock()
	if adopted {
		s.adoptCh <- t
	} else {
		s.events <- event{t, evParked}
	}
	<-t.resume
}

// CallReturned is called by the DB wrapper's After hook: an adopted background goroutine is considered finished
// when the call it was parked before has returned (the mint's watcher makes exactly one store call after waking).
func (s *Sched) CallReturned() {
	if s.free.Load() {
		return
	}
	gid := dbwrap.GID()
	s.mu.Lock()
	t := s.byGID[gid]
	s.mu.Unlock()
	if t != nil && t.adopted && !t.done {
		s.mu.Lock()
		t.done = true
		s.mu.Unlock()
		s.events <- event{t, evDone}
	}
}

// WaitAdopted blocks the calling (running) thread until n background goroutines have parked at their first point.
func (s *Sched) WaitAdopted(n int) bool {
	for i := 0; i < n; i++ {
		select {
		case <-s.adoptCh:
		case <-time.After(watchdog):
			s.Err = fmt.Errorf("watchdog: background goroutine did not reach a point")
			return false
		}
	}
	return true
}

// Run starts the declared threads and schedules until every thread has finished.
func (s *Sched) Run() {
	s.free.Store(false)
	for i := range s.bodies {
		t := &thread{id: len(s.threads), name: s.names[i], resume: make(chan struct{})}
		s.threads = append(s.threads, t)
		body := s.bodies[i]
		ready := make(chan struct{})
		go func() {
			t.gid = dbwrap.GID()
			s.mu.Lock()
			s.byGID[t.gid] = t
			t.at = "begin"
			s.mu.Unlock()
			close(ready)
			<-t.resume
			body()
			s.mu.Lock()
			t.done = true
			s.mu.Unlock()
			s.events <- event{t, evDone}
		}()
		<-ready
	}
	running := -1
	step := 0
	for {
		s.mu.Lock()
		var enabled []int
		runEn := false
		for _, t := range s.threads {
			if !t.done && t.id == running {
				runEn = true
			}
		}
		if runEn {
			enabled = append(enabled, running)
		}
		for _, t := range s.threads {
			if !t.done && t.id != running {
				enabled = append(enabled, t.id)
			}
		}
		s.mu.Unlock()
		if len(enabled) == 0 {
			break
		}
		choice := 0
		if step < len(s.Prefix) {
			choice = s.Prefix[step]
			if choice >= len(enabled) {
				s.Err = fmt.Errorf("diverging prefix at step %d: choice %d of %d enabled", step, choice, len(enabled))
				s.free.Store(true)
				s.releaseAll()
				return
			}
		}
		t := s.threads[enabled[choice]]
		s.Trace = append(s.Trace, Decision{Enabled: enabled, Chosen: choice, At: t.name + ":" + t.at, RunningEnabled: runEn})
		step++
		t.resume <- struct{}{}
		select {
		case ev := <-s.events:
			if ev.t != t {
				s.Err = fmt.Errorf("event from thread %d while %d was running", ev.t.id, t.id)
				s.free.Store(true)
				s.releaseAll()
				return
			}
		case <-time.After(watchdog):
			s.Err = fmt.Errorf("watchdog: thread %s did not park or finish after %s", t.name, t.at)
			s.free.Store(true)
			return
		}
		running = t.id
	}
	s.free.Store(true)
}

func (s *Sched) releaseAll() {
	s.mu.Lock()
	defer s.mu.Unlock()
	for _, t := range s.threads {
		if !t.done {
			select {
			case t.resume <- struct{}{}:
			default:
			}
		}
	}
}

// Choices returns the choice sequence of the recorded execution.
func (s *Sched) Choices() []int {
	c := make([]int, len(s.Trace))
	for i, d := range s.Trace {
		c[i] = d.Chosen
	}
	return c
}
