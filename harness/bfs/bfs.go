// Package bfs is engine E3: explicit-state breadth-first search over operation sequences of the mint-level
// world. A state is the history that reaches it; a successor is produced by replaying the whole history on a
// fresh real mint plus one operation (in a worker subprocess); states are deduplicated on the canonical form.
package bfs

import (
	"encoding/json"
	"fmt"
	"os"
	"sort"
	"strings"

	"verif/harness/mintops"
	"verif/harness/rt"
	"verif/harness/world"
)

type Spec struct {
	Prop  string
	Name  string
	Cfg   mintops.Config
	Init  []string // set-up operations, not counted as depth
	Menu  func(w *mintops.W) []string
	Probe func(w *mintops.W) // extra checks in every state, run after the canonical form is taken (may mutate)
	Depth int
}

type Job struct {
	Spec string
	Hist []string
}

type Res struct {
	Canon    string
	Next     []string
	V        []rt.Violation
	Outcomes map[string]int
	Err      string
	LastObs  string
}

var scratchRoot string

func scratch() string {
	if scratchRoot == "" {
		scratchRoot = world.Scratch(fmt.Sprintf("w%d", os.Getpid()))
	}
	d, _ := os.MkdirTemp(scratchRoot, "j")
	return d
}

// Exec is the worker side: build, replay, check the last transition, invariants, canon, menu, probes.
func Exec(s *Spec, hist []string) (res Res) {
	dir := scratch()
	defer os.RemoveAll(dir)
	w, err := mintops.New(dir, s.Cfg)
	if err != nil {
		return Res{Err: "world: " + err.Error()}
	}
	defer w.Close()
	all := append(append([]string{}, s.Init...), hist...)
	mark := 0
	for i, op := range all {
		if i == len(all)-1 && len(hist) > 0 {
			mark = len(w.V)
			w.Outcomes = map[string]int{}
		}
		if err := w.Exec(op); err != nil {
			if len(w.V) > 0 {
				// an honest set-up / history operation was refused and an oracle already says why: report that, do not
				// treat it as a harness problem (e.g. a limit predicate changed under a deliberate modification)
				return Res{Canon: fmt.Sprintf("operation-failed:%d", i), V: w.V}
			}
			return Res{Err: fmt.Sprintf("op %d %q: %v", i, op, err), V: w.V}
		}
	}
	if len(hist) == 0 {
		mark = 0
	}
	w.Invariants()
	res.Canon = w.Canon()
	if s.Menu != nil {
		res.Next = s.Menu(w)
	}
	if len(w.Obs) > 0 {
		res.LastObs = w.Obs[len(w.Obs)-1]
	}
	if s.Probe != nil {
		s.Probe(w)
	}
	res.V = append(res.V, w.V[mark:]...)
	res.Outcomes = w.Outcomes
	return res
}

type Stats struct {
	States, Transitions, MaxDepth int
	PerDepth                      []int
	Outcomes                      map[string]int
	Complete                      bool
}

// Run is the coordinator side.
func Run(c *rt.Ctx, s *Spec) Stats {
	st := Stats{Outcomes: map[string]int{}, Complete: true}
	seen := map[string]bool{}
	frontier := [][]string{{}}
	for depth := 0; depth <= s.Depth; depth++ {
		if len(frontier) == 0 {
			break
		}
		if c.Expired() {
			st.Complete = false
			break
		}
		var next [][]string
		newStates := 0
		// the level is processed in chunks so that the soft budget is honoured inside a level too; a level that was cut
		// short is NOT counted as completed
		const chunk = 1500
		cut := false
		for lo := 0; lo < len(frontier); lo += chunk {
			if lo > 0 && c.Expired() {
				cut = true
				break
			}
			hi := lo + chunk
			if hi > len(frontier) {
				hi = len(frontier)
			}
			part := frontier[lo:hi]
			jobs := make([]any, len(part))
			for i, h := range part {
				jobs[i] = Job{Spec: s.Name, Hist: h}
			}
			// results are judged in job order (not completion order): which history represents a canonical state, and so
			// the whole search, is the same in every run
			results := make([]rt.JobResult, len(jobs))
			c.Pool.Map(jobs, func(i int, r rt.JobResult) { results[i] = r })
			for i, r := range results {
				h := part[i]
				if r.Died {
					c.Violate(s.Prop+"/worker-died/"+s.Name, fmt.Sprintf("the process died while executing history %v of scenario %s (a panic outside any recoverable goroutine?): %s", h, s.Name, tail(r.Stderr)), map[string]any{"spec": s.Name, "hist": h})
					continue
				}
				var res Res
				if err := json.Unmarshal(r.Out, &res); err != nil {
					rt.HarnessError("bad worker result: %v", err)
				}
				if res.Err != "" {
					rt.HarnessError("scenario %s history %v: %s", s.Name, h, res.Err)
				}
				st.Transitions++
				if os.Getenv("VERIF_DEBUG_BFS") != "" {
					fmt.Printf("BFS %s %v -> %d violations, canon %s\n", s.Name, h, len(res.V), res.Canon)
				}
				for k, v := range res.Outcomes {
					st.Outcomes[k] += v
				}
				for _, v := range res.V {
					if v.Property == "HARNESS" {
						rt.HarnessError("scenario %s history %v: %s", s.Name, h, v.What)
					}
					if !rt.HasProp(v.Property, s.Prop) {
						c.Info(fmt.Sprintf("(outside %s) %s/%s: %s", s.Prop, v.Property, v.Key, v.What))
						continue
					}
					c.Violate(s.Prop+"/"+v.Key, fmt.Sprintf("[%s] after history %v: %s", s.Name, h, v.What), map[string]any{"spec": s.Name, "hist": h})
				}
				if seen[res.Canon] {
					continue
				}
				seen[res.Canon] = true
				newStates++
				c.Distinct(s.Name + "|" + res.Canon)
				if len(h) > 0 && len(h) <= 3 {
					c.Sample(map[string]any{"scenario": s.Name, "history": h, "last": res.LastObs, "state": res.Canon})
				}
				if depth < s.Depth {
					for _, op := range res.Next {
						nh := append(append([]string{}, h...), op)
						next = append(next, nh)
					}
				}
			}
		}
		st.PerDepth = append(st.PerDepth, newStates)
		st.States += newStates
		if cut {
			st.Complete = false
			break
		}
		st.MaxDepth = depth
		sort.Slice(next, func(i, j int) bool { return strings.Join(next[i], ";") < strings.Join(next[j], ";") })
		frontier = next
	}
	return st
}

func tail(s string) string {
	if len(s) > 1500 {
		return s[len(s)-1500:]
	}
	return s
}

// Report folds the statistics of one scenario into the evidence.
func Report(c *rt.Ctx, s *Spec, st Stats) {
	c.Count("states", int64(st.States))
	c.Count("transitions", int64(st.Transitions))
	c.Count("traces_validated_against_impl", int64(st.Transitions))
	sc, _ := c.Cov["scenarios"].([]any)
	vac := []string{}
	kinds := map[string]map[string]bool{}
	for k := range st.Outcomes {
		p := strings.SplitN(k, ":", 2)
		if len(p) < 2 {
			continue
		}
		if kinds[p[0]] == nil {
			kinds[p[0]] = map[string]bool{}
		}
		kinds[p[0]][p[1]] = true
	}
	for k, v := range kinds {
		if len(v) < 2 && (k == "swap" || k == "mint" || k == "melt") {
			vac = append(vac, k)
		}
	}
	c.Cov["scenarios"] = append(sc, map[string]any{"name": s.Name, "depth_completed": st.MaxDepth, "depth_bound": s.Depth, "complete": st.Complete,
		"states": st.States, "transitions": st.Transitions, "new_states_per_depth": st.PerDepth, "outcomes": st.Outcomes, "single_outcome_kinds": vac})
	if !st.Complete {
		c.Exhaustive = false
	}
}

// Worker dispatches a job to the named spec.
func Worker(specs map[string]*Spec) func(job json.RawMessage) (any, error) {
	return func(job json.RawMessage) (any, error) {
		var j Job
		if err := json.Unmarshal(job, &j); err != nil {
			return nil, err
		}
		s := specs[j.Spec]
		if s == nil {
			return nil, fmt.Errorf("unknown spec %q", j.Spec)
		}
		return Exec(s, j.Hist), nil
	}
}

// ReplayFile re-runs one recorded history without the explorer; returns 1 if a violation of prop is observed.
func ReplayFile(prop string, specs map[string]*Spec, path string) int {
	b, err := os.ReadFile(path)
	if err != nil {
		fmt.Println(err)
		return 2
	}
	var v struct {
		Key    string
		Replay struct {
			Spec string
			Hist []string
		}
	}
	if err := json.Unmarshal(b, &v); err != nil {
		fmt.Println(err)
		return 2
	}
	s := specs[v.Replay.Spec]
	if s == nil {
		fmt.Println("unknown spec", v.Replay.Spec)
		return 2
	}
	res := Exec(s, v.Replay.Hist)
	if res.Err != "" {
		fmt.Println("error:", res.Err)
		return 2
	}
	fmt.Println("history:", v.Replay.Hist)
	fmt.Println("state:  ", res.Canon)
	code := 0
	for _, x := range res.V {
		fmt.Printf("  %s/%s: %s\n", x.Property, x.Key, x.What)
		if rt.HasProp(x.Property, prop) {
			code = 1
		}
	}
	if code == 1 {
		fmt.Printf("VIOLATION property=%s replay=%s\n", prop, path)
	} else {
		fmt.Println("no violation of", prop, "on replay")
	}
	return code
}
