// Package grammar derives structurally mutated JSON requests from a valid request tree (C06): every field
// dropped, null, retyped; every list emptied / with a duplicated element; strings and numbers replaced by boundary
// values; plus whole-body malformations.
package grammar

import (
	"encoding/json"
	"fmt"
	"sort"
	"strings"
)

type Mutant struct {
	Class string // mutation class (stable, used in finding keys), e.g. "outputs[]:empty", "inputs[].C:odd-hex"
	Body  string
}

var retypes = map[string]string{"string": `"x"`, "number": `1`, "bool": `true`, "array": `[]`, "object": `{}`}

var stringVals = map[string]string{
	"empty":         `""`,
	"non-hex":       `"zz-not-hex-zz"`,
	"odd-hex":       `"abc"`,
	"long":          `"` + strings.Repeat("a", 10000) + `"`,
	"wrong-len-hex": `"02abcdef"`,
	"unknown-id":    `"00ffffffffffffff"`,
	"unknown-quote": `"aaaaaaaaaaaaaaaaaaaaaaaaaaaaaaaaaaaaaaaaaaaaaaaaaaaaaaaaaaaaaaaa"`,
}

var numberVals = map[string]string{
	"0": "0", "-1": "-1", "1.5": "1.5", "2^63": "9223372036854775808", "2^64-1": "18446744073709551615", "1e30": "1000000000000000000000000000000",
}

// Mutants returns the single-point mutants of a JSON body (and, if pairs is set, all pairs of list-field mutants).
func Mutants(body string, pairs bool) []Mutant {
	var root any
	dec := json.NewDecoder(strings.NewReader(body))
	dec.UseNumber() // keep 64-bit amounts exact
	if err := dec.Decode(&root); err != nil {
		return nil
	}
	var out []Mutant
	// simpler and robust: enumerate paths explicitly, mutate by re-walking a deep copy
	paths := collect(root, "", nil)
	for _, p := range paths {
		for _, m := range nodeMutants(p) {
			cp := deepCopy(root)
			nr := apply(cp, p.steps, m.raw, m.drop)
			b, _ := json.Marshal(nr)
			out = append(out, Mutant{Class: p.name + ":" + m.class, Body: string(b)})
		}
	}
	if pairs {
		var lists []pathInfo
		for _, p := range paths {
			if p.kind == "array" {
				lists = append(lists, p)
			}
		}
		for i := 0; i < len(lists); i++ {
			for j := i + 1; j < len(lists); j++ {
				if strings.HasPrefix(lists[j].name, lists[i].name+"[]") || strings.HasPrefix(lists[i].name, lists[j].name+"[]") {
					continue
				}
				for _, a := range nodeMutants(lists[i]) {
					for _, b := range nodeMutants(lists[j]) {
						cp := deepCopy(root)
						nr := apply(cp, lists[i].steps, a.raw, a.drop)
						nr = apply(nr, lists[j].steps, b.raw, b.drop)
						bb, _ := json.Marshal(nr)
						out = append(out, Mutant{Class: lists[i].name + ":" + a.class + "+" + lists[j].name + ":" + b.class, Body: string(bb)})
					}
				}
			}
		}
	}
	// whole-body forms
	out = append(out,
		Mutant{"body:empty", ""}, Mutant{"body:null", "null"}, Mutant{"body:array", "[]"}, Mutant{"body:string", `"x"`},
		Mutant{"body:number", "1"}, Mutant{"body:empty-object", "{}"},
		Mutant{"body:truncated", body[:len(body)/2]}, Mutant{"body:trailing-garbage", body + "}}garbage"},
		Mutant{"body:deep-nesting", strings.Repeat("[", 5000) + strings.Repeat("]", 5000)},
	)
	return out
}

type step struct {
	key string
	idx int // -1 for object key
}

type pathInfo struct {
	name  string
	steps []step
	kind  string
	val   any
}

func collect(v any, name string, steps []step) []pathInfo {
	var out []pathInfo
	if name != "" {
		out = append(out, pathInfo{name: name, steps: append([]step{}, steps...), kind: kindOf(v), val: v})
	}
	switch t := v.(type) {
	case map[string]any:
		for _, k := range sortedKeysAny(t) {
			out = append(out, collect(t[k], join(name, k), append(steps, step{key: k, idx: -1}))...)
		}
	case []any:
		if len(t) > 0 {
			out = append(out, collect(t[0], name+"[]", append(steps, step{idx: 0}))...)
		}
	}
	return out
}

type nm struct {
	class string
	raw   string
	drop  bool
}

func nodeMutants(p pathInfo) []nm {
	var ms []nm
	ms = append(ms, nm{"dropped", "", true}, nm{"null", "null", false})
	for _, t := range sortedKeys(retypes) {
		if t != p.kind {
			ms = append(ms, nm{"as-" + t, retypes[t], false})
		}
	}
	switch p.kind {
	case "string":
		for _, k := range sortedKeys(stringVals) {
			ms = append(ms, nm{k, stringVals[k], false})
		}
		if s, ok := p.val.(string); ok && len(s) > 2 {
			b, _ := json.Marshal(strings.ToUpper(s))
			if strings.ToUpper(s) != s {
				ms = append(ms, nm{"upper-case", string(b), false})
			}
			b2, _ := json.Marshal(s[:len(s)-2])
			ms = append(ms, nm{"shortened", string(b2), false})
		}
	case "number":
		for _, k := range sortedKeys(numberVals) {
			ms = append(ms, nm{k, numberVals[k], false})
		}
	case "array":
		ms = append(ms, nm{"empty", "[]", false})
		if l := p.val.([]any); len(l) > 0 {
			b, _ := json.Marshal(append(append([]any{}, l...), l[0]))
			ms = append(ms, nm{"dup-element", string(b), false})
			if len(l) > 1 {
				b, _ := json.Marshal(l[:1])
				ms = append(ms, nm{"truncated", string(b), false})
			}
		}
	}
	return ms
}

func apply(root any, steps []step, raw string, drop bool) any {
	if len(steps) == 0 {
		return rawVal(raw)
	}
	s := steps[0]
	if s.idx < 0 {
		m := root.(map[string]any)
		if len(steps) == 1 {
			if drop {
				delete(m, s.key)
			} else {
				m[s.key] = rawVal(raw)
			}
			return m
		}
		m[s.key] = apply(m[s.key], steps[1:], raw, drop)
		return m
	}
	l := root.([]any)
	if len(steps) == 1 {
		if drop {
			return append(l[:s.idx], l[s.idx+1:]...)
		}
		l[s.idx] = rawVal(raw)
		return l
	}
	l[s.idx] = apply(l[s.idx], steps[1:], raw, drop)
	return l
}

func rawVal(raw string) any { return json.RawMessage(raw) }

func deepCopy(v any) any {
	b, _ := json.Marshal(v)
	var o any
	d := json.NewDecoder(strings.NewReader(string(b)))
	d.UseNumber()
	d.Decode(&o)
	return o
}

func kindOf(v any) string {
	switch v.(type) {
	case string:
		return "string"
	case float64, json.Number:
		return "number"
	case bool:
		return "bool"
	case []any:
		return "array"
	case map[string]any:
		return "object"
	case nil:
		return "null"
	}
	return fmt.Sprintf("%T", v)
}

func join(p, k string) string {
	if p == "" {
		return k
	}
	return p + "." + k
}

func sortedKeys(m map[string]string) []string {
	var k []string
	for x := range m {
		k = append(k, x)
	}
	sort.Strings(k)
	return k
}

func sortedKeysAny(m map[string]any) []string {
	var k []string
	for x := range m {
		k = append(k, x)
	}
	sort.Strings(k)
	return k
}

// Nut10Secrets returns crafted secret strings that are (nearly) well-formed NUT-10 secrets: the structural mutations
// of C06 applied INSIDE the secret's embedded JSON (tags with missing values, wrong arities, odd numbers, ...).
func Nut10Secrets(pub string) []Mutant {
	var out []Mutant
	for _, kind := range []string{"P2PK", "HTLC"} {
		data := pub
		if kind == "HTLC" {
			data = strings.Repeat("ab", 32)
		}
		tagSets := map[string]string{
			"tag-name-only-locktime": `[["locktime"]]`, "tag-name-only-sigflag": `[["sigflag"]]`, "tag-name-only-n_sigs": `[["n_sigs"]]`,
			"tag-name-only-pubkeys": `[["pubkeys"]]`, "tag-name-only-refund": `[["refund"]]`, "empty-tag": `[[]]`, "tags-null": `null`,
			"tags-not-lists": `["locktime","1"]`, "six-tags": `[["a","1"],["b","1"],["c","1"],["d","1"],["e","1"],["f","1"]]`,
			"locktime-not-a-number": `[["locktime","x"]]`, "locktime-negative": `[["locktime","-1"]]`, "locktime-huge": `[["locktime","99999999999999999999999"]]`,
			"n_sigs-negative": `[["n_sigs","-1"]]`, "n_sigs-huge": `[["n_sigs","999999999999"]]`, "n_sigs-not-a-number": `[["n_sigs","x"]]`,
			"pubkeys-non-hex": `[["n_sigs","1"],["pubkeys","zz"]]`, "pubkeys-empty-string": `[["n_sigs","1"],["pubkeys",""]]`,
			"refund-non-hex": `[["locktime","1"],["refund","zz"]]`, "sigflag-unknown": `[["sigflag","SIG_NONE"]]`,
			"tag-with-number-elements": `[["locktime",1]]`,
		}
		for _, name := range sortedKeys(tagSets) {
			out = append(out, Mutant{Class: kind + ":" + name, Body: fmt.Sprintf(`["%s",{"nonce":"00","data":"%s","tags":%s}]`, kind, data, tagSets[name])})
		}
		out = append(out,
			Mutant{Class: kind + ":no-payload", Body: fmt.Sprintf(`["%s"]`, kind)},
			Mutant{Class: kind + ":payload-empty-object", Body: fmt.Sprintf(`["%s",{}]`, kind)},
			Mutant{Class: kind + ":payload-null", Body: fmt.Sprintf(`["%s",null]`, kind)},
			Mutant{Class: kind + ":payload-string", Body: fmt.Sprintf(`["%s","x"]`, kind)},
			Mutant{Class: kind + ":data-empty", Body: fmt.Sprintf(`["%s",{"nonce":"00","data":"","tags":[]}]`, kind)},
			Mutant{Class: kind + ":data-non-hex", Body: fmt.Sprintf(`["%s",{"nonce":"00","data":"zz","tags":[]}]`, kind)},
			Mutant{Class: kind + ":three-elements", Body: fmt.Sprintf(`["%s",{"nonce":"00","data":"%s","tags":[]},1]`, kind, data)},
		)
	}
	out = append(out, Mutant{Class: "kind-number", Body: `[1,{"nonce":"00","data":"00","tags":[]}]`}, Mutant{Class: "kind-unknown", Body: `["XYZ",{"nonce":"00","data":"00","tags":[["locktime"]]}]`})
	return out
}
