package mintops

import (
	"encoding/json"
	"fmt"
	"strings"

	"github.com/elnosh/gonuts/cashu"
	"github.com/elnosh/gonuts/cashu/nuts/nut04"
	"github.com/elnosh/gonuts/cashu/nuts/nut07"

	"verif/harness/dbwrap"
	"verif/harness/world"
)

const (
	UnknownY   = "02a9acc1e48c25eeeb9289b5031cc57da9fe72f3fe2861d264bdc074209b107ba2" // a valid point nobody spent
	NotAPointY = "02ffffffffffffffffffffffffffffffffffffffffffffffffffffffffffffffff"
	NonHexY    = "zz-not-hex"
)

func (w *W) proofByY(y string) (int, *TProof) {
	// hex is case-insensitive: another spelling names the same point
	for i, p := range w.Proofs {
		if strings.EqualFold(p.Y, y) {
			return i, p
		}
	}
	return -1, nil
}

// QueryStates asks the state-check endpoint (Go API or HTTP handler) for an arbitrary Y list and compares with the
// model (C15). Malformed entries only demand "no panic / no crash of the whole answer is not demanded either".
func (w *W) QueryStates(ys []string, viaHTTP bool) {
	touched := map[*TMelt]bool{}
	malformed := false
	for _, y := range ys {
		if _, p := w.proofByY(y); p != nil && p.St == Pending && p.Melt >= 0 {
			touched[w.Melts[p.Melt]] = true
		}
		if y == NonHexY || y == NotAPointY {
			malformed = true
		}
	}
	from := len(w.LN.Calls)
	var states []nut07.ProofState
	var err error
	where := fmt.Sprintf("ProofsStateCheck(%s)", w.nameYs(ys))
	if viaHTTP {
		where = "POST /v1/checkstate " + w.nameYs(ys)
		b, _ := json.Marshal(map[string]any{"Ys": ys})
		code, body, pan := world.Do(w.M.H, "POST", "/v1/checkstate", string(b))
		if pan != nil {
			w.viol("C06", "handler-panic/checkstate", "%s panicked: %v", where, pan)
			return
		}
		if code != 200 {
			err = fmt.Errorf("status %d %s", code, body)
		} else {
			var r struct {
				States []struct {
					Y, State, Witness string
				} `json:"states"`
			}
			if e := json.Unmarshal([]byte(body), &r); e != nil {
				w.viol("C20", "checkstate-body", "%s: undecodable body %q", where, body)
				return
			}
			for _, s := range r.States {
				states = append(states, nut07.ProofState{Y: s.Y, State: nut07.StringToState(s.State), Witness: s.Witness})
			}
		}
	} else {
		func() {
			defer func() {
				if r := recover(); r != nil {
					w.viol("C06", "api-panic/ProofsStateCheck", "%s panicked: %v", where, r)
					err = fmt.Errorf("panic")
				}
			}()
			states, err = w.M.M.ProofsStateCheck(ys)
		}()
	}
	for m := range touched {
		w.applyLN(m, from, false)
		w.settleModel(m)
	}
	if err != nil {
		if !malformed && len(ys) > 0 {
			w.viol("C15", "state-check-failed", "%s: %v", where, err)
		}
		return
	}
	if len(states) != len(ys) {
		w.viol("C15", "state-check-length", "%s: %d states for %d Ys", where, len(states), len(ys))
		return
	}
	for k, y := range ys {
		s := states[k]
		if !strings.EqualFold(s.Y, y) {
			w.viol("C15", "state-check-order", "%s: entry %d answers for another Y", where, k)
			continue
		}
		n, p := w.proofByY(y)
		exp, wit := "UNSPENT", ""
		if p != nil {
			exp = stName[p.St]
			if p.St == Spent {
				wit = p.Wit
			}
		} else if y == NonHexY || y == NotAPointY {
			continue
		}
		if s.State.String() != exp {
			sp := ""
			if p != nil && p.Y != y {
				sp = "/Y-in-upper-case-hex"
			}
			w.viol("C15", fmt.Sprintf("state-check-state/model=%s/got=%s%s", exp, s.State, sp), "%s: entry %d (p%d) reported %s, model %s", where, k, n, s.State, exp)
		}
		if p != nil && p.St == Spent && s.Witness != wit {
			w.viol("C15", "state-check-witness", "%s: p%d spent with witness %q, reported %q", where, n, wit, s.Witness)
		}
	}
}

func (w *W) nameYs(ys []string) string {
	var n []string
	for _, y := range ys {
		if i, p := w.proofByY(y); p != nil {
			n = append(n, fmt.Sprintf("p%d", i))
		} else {
			switch y {
			case UnknownY:
				n = append(n, "unknown")
			case NotAPointY:
				n = append(n, "not-a-point")
			case NonHexY:
				n = append(n, "non-hex")
			default:
				n = append(n, short(y))
			}
		}
	}
	return "[" + strings.Join(n, ",") + "]"
}

const UnknownB = "02c0ded2bc1f1305fb0faac5e6c03ee3a1924234985427b6167ca569d13df435cf"

// QueryRestore asks the restore endpoint for an arbitrary B_ list and compares with the model (C15): exactly the
// signed ones, in request order, each with the originally returned amount, keyset id, C_, e, s.
func (w *W) QueryRestore(bs []string, viaHTTP bool) {
	msgs := make(cashu.BlindedMessages, len(bs))
	malformed := false
	var names []string
	for i, b := range bs {
		msgs[i] = cashu.BlindedMessage{B_: b, Id: w.Keysets[0].Id}
		if j, ok := w.outIdx[b]; ok {
			msgs[i] = w.Outs[j].O.Msg
			names = append(names, fmt.Sprintf("o%d", j))
		} else if b == UnknownB {
			names = append(names, "unknown")
		} else {
			malformed = true
			names = append(names, "malformed")
		}
	}
	where := "RestoreSignatures[" + strings.Join(names, ",") + "]"
	var outs cashu.BlindedMessages
	var sigs cashu.BlindedSignatures
	var err error
	if viaHTTP {
		where = "POST /v1/restore [" + strings.Join(names, ",") + "]"
		b, _ := json.Marshal(map[string]any{"outputs": msgs})
		code, body, pan := world.Do(w.M.H, "POST", "/v1/restore", string(b))
		if pan != nil {
			w.viol("C06", "handler-panic/restore", "%s panicked: %v", where, pan)
			return
		}
		if code != 200 {
			err = fmt.Errorf("status %d %s", code, body)
		} else {
			var r struct {
				Outputs    cashu.BlindedMessages   `json:"outputs"`
				Signatures cashu.BlindedSignatures `json:"signatures"`
			}
			if e := json.Unmarshal([]byte(body), &r); e != nil {
				w.viol("C20", "restore-body", "%s: undecodable body %q", where, body)
				return
			}
			outs, sigs = r.Outputs, r.Signatures
		}
	} else {
		outs, sigs, err = w.M.M.RestoreSignatures(msgs)
	}
	if err != nil {
		if !malformed {
			w.viol("C15", "restore-failed", "%s: %v", where, err)
		}
		return
	}
	var expB []string
	for _, b := range bs {
		if j, ok := w.outIdx[b]; ok && w.Outs[j].Signed {
			expB = append(expB, b)
		}
	}
	if len(outs) != len(sigs) {
		w.viol("C15", "restore-lengths", "%s: %d outputs, %d signatures", where, len(outs), len(sigs))
		return
	}
	if len(sigs) != len(expB) {
		w.viol("C15", fmt.Sprintf("restore-count/%s", cmpWord(len(sigs), len(expB))), "%s: returned %d signatures, the mint handed out %d of these", where, len(sigs), len(expB))
		return
	}
	for k, b := range expB {
		o := w.Outs[w.outIdx[b]]
		if outs[k].B_ != b {
			w.viol("C15", "restore-order", "%s: entry %d is for another B_", where, k)
			continue
		}
		s := sigs[k]
		if s.Amount != o.Sig.Amount || s.Id != o.Sig.Id || s.C_ != o.Sig.C_ || s.DLEQ == nil || s.DLEQ.E != o.Sig.DLEQ.E || s.DLEQ.S != o.Sig.DLEQ.S {
			w.viol("C15", "restore-signature-differs", "%s: entry %d differs from the signature originally returned (amount %d vs %d, id %s vs %s)", where, k, s.Amount, o.Sig.Amount, s.Id, o.Sig.Id)
		}
	}
}

func cmpWord(a, b int) string {
	if a < b {
		return "too-few"
	}
	return "too-many"
}

// Seqs enumerates all sequences of length 1..maxLen over the alphabet.
func Seqs(alpha []string, maxLen int) [][]string {
	var out [][]string
	var rec func(cur []string)
	rec = func(cur []string) {
		if len(cur) > 0 {
			out = append(out, append([]string{}, cur...))
		}
		if len(cur) == maxLen {
			return
		}
		for _, a := range alpha {
			rec(append(cur, a))
		}
	}
	rec(nil)
	return out
}

// ProbeInfo checks the info endpoint against the exact predicate (C16): minting disabled <=> maxBal>0 && balance>=maxBal,
// through the Go API and the HTTP handler.
func (w *W) ProbeInfo() {
	bal, err := w.M.M.TotalBalance()
	if err != nil {
		w.viol("C16", "balance-query-error", "TotalBalance: %v", err)
		return
	}
	exp := w.Cfg.Limits.MaxBalance > 0 && bal >= w.Cfg.Limits.MaxBalance
	info, err := w.M.M.RetrieveMintInfo()
	if err != nil {
		w.viol("C16", "info-error", "RetrieveMintInfo: %v", err)
		return
	}
	if info.Nuts.Nut04.Disabled != exp {
		w.viol("C16", fmt.Sprintf("info-disabled/expected=%v", exp), "RetrieveMintInfo: nut04.disabled=%v with balance %d, max balance %d", info.Nuts.Nut04.Disabled, bal, w.Cfg.Limits.MaxBalance)
	}
	code, body, pan := world.Do(w.M.H, "GET", "/v1/info", "\x00nobody")
	if pan != nil {
		w.viol("C06", "handler-panic/info", "GET /v1/info panicked: %v", pan)
		return
	}
	var r struct {
		Nuts map[string]json.RawMessage `json:"nuts"`
	}
	if code != 200 || json.Unmarshal([]byte(body), &r) != nil {
		w.viol("C20", "info-body", "GET /v1/info: status %d body %.80q", code, body)
		return
	}
	var n4 struct {
		Disabled bool `json:"disabled"`
	}
	json.Unmarshal(r.Nuts["4"], &n4)
	if n4.Disabled != exp {
		w.viol("C16", fmt.Sprintf("info-handler-disabled/expected=%v", exp), "GET /v1/info: nuts.4.disabled=%v with balance %d, max balance %d", n4.Disabled, bal, w.Cfg.Limits.MaxBalance)
	}
}

var errInjectedRead = fmt.Errorf("verif: injected storage read failure")

// QueryUnderReadFaults repeats a query (whose fault-free answer QueryStates / QueryRestore have judged) once per storage
// read call k of the request, with an error injected at exactly that call: the mint may fail the request, but an
// answer it does give must still be the truth — identical to the fault-free one, never one that silently drops or
// changes an entry (C15: "exactly those the mint has signed", "each one's true state"). Only read calls are faulted
// (faults at writes are C07's subject) and in-flight melts whose outcome the backend already knows are left out, so
// the probe itself never changes the store.
func (w *W) QueryUnderReadFaults(restore bool, items []string) {
	var msgs cashu.BlindedMessages
	if restore {
		for _, b := range items {
			j, ok := w.outIdx[b]
			if !ok {
				msgs = append(msgs, cashu.BlindedMessage{B_: b, Id: w.Keysets[0].Id})
				continue
			}
			msgs = append(msgs, w.Outs[j].O.Msg)
		}
	} else {
		for _, y := range items {
			if _, p := w.proofByY(y); p != nil && p.St == Pending && p.Melt >= 0 {
				if lp := w.LN.Payments[w.Melts[p.Melt].Hash]; lp == nil || lp.Status.String() != "Pending" {
					return
				}
			}
		}
	}
	run := func() (ans string, err error) {
		defer func() {
			if r := recover(); r != nil {
				err = fmt.Errorf("panic: %v", r)
			}
		}()
		if restore {
			outs, sigs, e := w.M.M.RestoreSignatures(msgs)
			if e != nil {
				return "", e
			}
			b, _ := json.Marshal([]any{outs, sigs})
			return string(b), nil
		}
		st, e := w.M.M.ProofsStateCheck(items)
		if e != nil {
			return "", e
		}
		b, _ := json.Marshal(st)
		return string(b), nil
	}
	what := "state-check"
	if restore {
		what = "restore"
	}
	w.UnderReadFaults("C15", what, fmt.Sprintf("%s of %d entries", what, len(items)), run)
}

// UnderReadFaults runs a read-only request once fault-free and then once per storage read call k it makes, with an
// error injected at exactly that call: each faulted run must fail or give the identical answer.
func (w *W) UnderReadFaults(prop, what, descr string, run func() (string, error)) {
	me := dbwrap.GID()
	var names []string
	k := -1
	n := 0
	prev := w.M.DB.Before
	w.M.DB.Before = func(c *dbwrap.Call) error {
		if dbwrap.GID() != me {
			return nil
		}
		i := n
		n++
		if k < 0 {
			names = append(names, c.Name)
		}
		if i == k {
			return errInjectedRead
		}
		return nil
	}
	defer func() { w.M.DB.Before = prev }()
	base, err := run()
	if err != nil {
		return
	}
	for kk, name := range names {
		if !strings.HasPrefix(name, "Get") {
			continue
		}
		k, n = kk, 0
		got, err := run()
		w.Outcomes[what+"-under-read-fault"]++
		if err == nil && got != base {
			w.viol(prop, what+"-under-read-fault/"+name, "%s with a storage error injected at its read call %d (%s) answered without error, but not the truth: %.300s  instead of  %.300s", descr, kk, name, got, base)
		}
	}
}

// ProbeLimitsUnderReadFaults: the balance figures, the info flag and the refusal of a mint quote that would exceed the
// maximum balance must not change when one storage read of the request fails — the request may fail instead (C16).
func (w *W) ProbeLimitsUnderReadFaults() {
	recov := func(f func() (string, error)) func() (string, error) {
		return func() (ans string, err error) {
			defer func() {
				if r := recover(); r != nil {
					err = fmt.Errorf("panic: %v", r)
				}
			}()
			return f()
		}
	}
	w.UnderReadFaults("C16", "total-balance", "TotalBalance()", recov(func() (string, error) {
		b, err := w.M.M.TotalBalance()
		return fmt.Sprint(b), err
	}))
	w.UnderReadFaults("C16", "issued-ecash", "IssuedEcash()", recov(func() (string, error) {
		m, err := w.M.M.IssuedEcash()
		b, _ := json.Marshal(m)
		return string(b), err
	}))
	w.UnderReadFaults("C16", "redeemed-ecash", "RedeemedEcash()", recov(func() (string, error) {
		m, err := w.M.M.RedeemedEcash()
		b, _ := json.Marshal(m)
		return string(b), err
	}))
	w.UnderReadFaults("C16", "info-disabled", "RetrieveMintInfo().nuts[4].disabled", recov(func() (string, error) {
		info, err := w.M.M.RetrieveMintInfo()
		if err != nil {
			return "", err
		}
		return fmt.Sprint(info.Nuts.Nut04.Disabled), nil
	}))
	if max := w.Cfg.Limits.MaxBalance; max > 0 {
		bal, err := w.M.M.TotalBalance()
		if err != nil || bal > max {
			return
		}
		over := max - bal + 1 // smallest amount that lifts the balance above the maximum
		if lim := w.Cfg.Limits.MintingSettings.MaxAmount; lim > 0 && over > lim {
			return
		}
		w.UnderReadFaults("C16", "over-balance-mint-quote", fmt.Sprintf("RequestMintQuote(%d) at balance %d, max balance %d", over, bal, max), recov(func() (string, error) {
			_, err := w.M.M.RequestMintQuote(nut04.PostMintQuoteBolt11Request{Amount: over, Unit: "sat"})
			if err != nil {
				return "refused", nil
			}
			return "granted", nil
		}))
	}
}
