package mintops

import (
	"crypto/sha256"
	"fmt"

	"github.com/decred/dcrd/dcrec/secp256k1/v4"
	"github.com/elnosh/gonuts/cashu/nuts/nut07"
)

func sha256Sum(b []byte) [32]byte { return sha256.Sum256(b) }

// compareStates checks a ProofsStateCheck answer against the model: same length, same order, state, witness (C15).
func (w *W) compareStates(where string, idx []int, states []nut07.ProofState) {
	if len(states) != len(idx) {
		w.viol("C15", "state-check-length", "%s: %d states for %d Ys", where, len(states), len(idx))
		return
	}
	for k, n := range idx {
		p := w.Proofs[n]
		s := states[k]
		if s.Y != p.Y {
			w.viol("C15", "state-check-order", "%s: entry %d has Y of another proof", where, k)
			continue
		}
		if s.State.String() != stName[p.St] {
			prop := "C15"
			if p.St == Spent {
				prop = "C01,C05,C15"
			} else if p.St == Pending {
				prop = "C05,C15"
			}
			w.viol(prop, fmt.Sprintf("state-check-state/model=%s/got=%s", stName[p.St], s.State), "%s: p%d reported %s, model %s", where, n, s.State, stName[p.St])
		}
		if p.St == Spent && s.Witness != p.Wit {
			w.viol("C15", "state-check-witness", "%s: p%d spent with witness %q, reported %q", where, n, p.Wit, s.Witness)
		}
	}
}

// Viol lets probes outside this package record violations.
func (w *W) Viol(prop, key, format string, a ...any) { w.viol(prop, key, format, a...) }

func (w *W) KeysetByID(id string) *KS { return w.ksByID(id) }

// RefCheckKeyset is installed by package props once the independent reference derivation is linked in.
var RefCheckKeyset func(w *W, idx int, id string, keys map[uint64]*secp256k1.PublicKey)
