package mintops

import (
	"fmt"

	"github.com/elnosh/gonuts/cashu"

	"verif/harness/world"
)

// Uncertain marks entities touched by an interrupted operation: the durability pass (Invariants before Resync)
// skips them, because the client does not know whether the operation took effect.
type Uncertain struct {
	Proofs map[int]bool
	Outs   map[string]bool
	Quotes map[int]bool
	Melts  map[int]bool
}

func NewUncertain() *Uncertain {
	return &Uncertain{Proofs: map[int]bool{}, Outs: map[string]bool{}, Quotes: map[int]bool{}, Melts: map[int]bool{}}
}

// Resync adopts the store's truth for every entity (what a client learns by state checks, polls and restore after a
// crash). Newly discovered signatures are unblinded into tracked proofs (the client restores them).
func (w *W) Resync() error {
	t, err := w.ReadTables()
	if err != nil {
		return err
	}
	meltIdx := map[string]int{}
	for i, m := range w.Melts {
		meltIdx[m.Q.Id] = i
	}
	for _, m := range w.Melts {
		m.Inputs = nil
	}
	for i, p := range w.Proofs {
		if wit, ok := t.Spent[p.Y]; ok {
			p.St, p.Wit, p.Melt = Spent, wit, -1
		} else if mq, ok := t.Pending[p.Y]; ok {
			p.St = Pending
			p.Melt = -1
			if j, ok := meltIdx[mq]; ok {
				p.Melt = j
				w.Melts[j].Inputs = append(w.Melts[j].Inputs, i)
			}
		} else {
			p.St, p.Melt = Unspent, -1
		}
	}
	for _, o := range w.Outs {
		sig, ok := t.Sigs[o.O.Msg.B_]
		if ok && !o.Signed {
			o.Signed, o.Sig = true, sig
			ks := w.ksByID(sig.Id)
			if ks == nil || ks.Keys[sig.Amount] == nil {
				w.viol("C07", "restored-signature-unknown-key", "restored signature names keyset %s amount %d", sig.Id, sig.Amount)
				continue
			}
			ps, err := world.Unblind(cashu.BlindedSignatures{sig}, []world.Out{o.O}, ks.Keys)
			if err != nil {
				w.viol("C07", "restored-signature-unusable", "%v", err)
				continue
			}
			w.Proofs = append(w.Proofs, &TProof{P: ps[0], Y: world.Y(ps[0].Secret), KS: ks.Idx, Melt: -1})
		} else if !ok && o.Signed {
			o.Signed = false
		}
	}
	// state of newly tracked proofs
	for _, p := range w.Proofs {
		if _, ok := t.Spent[p.Y]; ok {
			p.St = Spent
		}
	}
	w.SyncPayments()
	for _, q := range w.Quotes {
		switch t.MintQ[q.Q.Id] {
		case "ISSUED":
			if q.Successes == 0 {
				q.Successes = 1
			}
			if q.Payments == 0 {
				q.Payments = 1 // settled internally by the interrupted melt
			}
		case "PAID", "PENDING":
			if q.Payments == 0 {
				q.Payments = 1
			}
		}
	}
	for _, m := range w.Melts {
		st := t.MeltQ[m.Q.Id]
		switch st[0] {
		case "PENDING":
			m.Known = "none"
		case "PAID":
			m.Known = "success"
			m.Preimage = st[1]
		case "UNPAID":
			if m.Known == "none" || m.Known == "success" {
				m.Known = "failure"
			}
		}
	}
	w.syncKeysets()
	return nil
}

// ClientValue sums the proofs the client knows that the mint reports UNSPENT (through the store, side-effect free).
func (w *W) ClientValue() (unspent, pending uint64, err error) {
	t, err := w.ReadTables()
	if err != nil {
		return 0, 0, err
	}
	seen := map[string]bool{}
	for _, p := range w.Proofs {
		if seen[p.Y] {
			continue
		}
		seen[p.Y] = true
		if _, ok := t.Spent[p.Y]; ok {
			continue
		}
		if _, ok := t.Pending[p.Y]; ok {
			pending += p.P.Amount
			continue
		}
		unspent += p.P.Amount
	}
	return
}

func (w *W) String() string {
	return fmt.Sprintf("world(%d proofs, %d quotes, %d melts)", len(w.Proofs), len(w.Quotes), len(w.Melts))
}
