package mintops

import (
	"encoding/hex"
	"encoding/json"
	"fmt"
	"github.com/elnosh/gonuts/mint/storage"
	"math/big"
	"sort"
	"strconv"
	"strings"
	"time"

	"github.com/decred/dcrd/dcrec/secp256k1/v4"
	"github.com/elnosh/gonuts/cashu"
	"github.com/elnosh/gonuts/cashu/nuts/nut04"
	"github.com/elnosh/gonuts/cashu/nuts/nut05"
	"github.com/elnosh/gonuts/cashu/nuts/nut20"

	"verif/harness/lnmodel"
	"verif/harness/sched"
	"verif/harness/world"
)

// Op strings: kind|arg|arg...   (ints comma separated)
//   fund|a,b,c            mint proofs of these denominations (quote, settle, mint)
//   mq|amount[|k]         RequestMintQuote (k: NUT-20 locked)
//   settle|qi             user pays the invoice (LN model)
//   fire|qi               backend delivers the 'invoice settled' notification to the mint's watcher
//   pollq|qi              GetMintQuoteState
//   mint|qi|variant       exact | less | over | same | wrap | bad3 | inactive | unknown | badsig | nosig
//   swap|pi,..|variant    exact | plus1 | nofee | wrap | inactive | unknown | dupout ; inputs may carry suffix w (changed witness) or a (changed amount field) or d (DLEQ pointer set)
//   meltq|amount          RequestMeltQuote on a fresh external invoice
//   meltqi|qi             RequestMeltQuote on the invoice of own mint quote qi
//   meltqp|amount         MPP partial melt quote (half of a fresh external invoice of 2*amount)
//   melt|mi|pi,..|PAY[|S1,S2]  MeltTokens; PAY in S P F E ; status answers in N E F P S
//   pollm|mi|S            GetMeltQuoteState with scripted status answers
//   check|pi,..|S         ProofsStateCheck of tracked proofs with scripted status answers
//   restart               Shutdown + LoadMint
//   rotate|fee            Shutdown + LoadMint with RotateKeyset
//   rotrt|fee             RotateKeyset at run time

func ints(s string) []int {
	if s == "" {
		return nil
	}
	var r []int
	for _, f := range strings.Split(s, ",") {
		f = strings.TrimRight(f, "wadu")
		n, _ := strconv.Atoi(f)
		r = append(r, n)
	}
	return r
}

func answers(s string) []lnmodel.Answer {
	var r []lnmodel.Answer
	for _, ch := range strings.ReplaceAll(s, ",", "") {
		switch ch {
		case 'S':
			r = append(r, lnmodel.Succeeded)
		case 'P':
			r = append(r, lnmodel.Pending)
		case 'F':
			r = append(r, lnmodel.Failed)
		case 'E':
			r = append(r, lnmodel.Error)
		case 'N':
			r = append(r, lnmodel.NotFound)
		}
	}
	return r
}

func errCode(err error) string {
	if err == nil {
		return "ok"
	}
	if ce, ok := err.(*cashu.Error); ok {
		return fmt.Sprintf("E%d", ce.Code)
	}
	if ce, ok := err.(cashu.Error); ok {
		return fmt.Sprintf("E%d", ce.Code)
	}
	return "Eother"
}

func (w *W) note(op string, err error) {
	kind := strings.SplitN(op, "|", 2)[0]
	w.Outcomes[kind+":"+errCode(err)]++
	w.Obs = append(w.Obs, op+" -> "+errCode(err))
}

// SyncPayments counts a Lightning settlement of a quote's invoice (by the user, or by a payment routed through the
// backend) exactly once as a payment.
func (w *W) SyncPayments() {
	for _, q := range w.Quotes {
		if inv := w.LN.Invoices[q.Q.PaymentHash]; inv != nil && inv.Settled && !q.LNCounted {
			q.LNCounted = true
			q.Payments++
		}
	}
}

// Exec runs one operation, applies the transition oracles and updates the model.
func (w *W) Exec(op string) error {
	w.SyncPayments()
	defer w.SyncPayments()
	f := strings.Split(op, "|")
	arg := func(i int) string {
		if i < len(f) {
			return f[i]
		}
		return ""
	}
	switch f[0] {
	case "fund":
		var amts []uint64
		for _, n := range ints(arg(1)) {
			amts = append(amts, uint64(n))
		}
		return w.opFund(amts)
	case "mq":
		a, _ := strconv.ParseUint(arg(1), 10, 64)
		return w.opMintQuote(op, a, arg(2) == "k")
	case "settle":
		q := w.Quotes[ints(arg(1))[0]]
		inv := w.LN.Invoices[q.Q.PaymentHash]
		if !inv.Settled {
			w.LN.Settle(q.Q.PaymentHash)
		}
		w.SyncPayments()
		return nil
	case "fire":
		return w.opFire(ints(arg(1))[0])
	case "pollq":
		return w.opPollQuote(op, ints(arg(1))[0])
	case "mint":
		return w.opMint(op, ints(arg(1))[0], arg(2))
	case "swap":
		return w.opSwap(op, arg(1), arg(2))
	case "meltq":
		a, _ := strconv.ParseUint(arg(1), 10, 64)
		return w.opMeltQuote(op, a, -1, false)
	case "meltqi":
		return w.opMeltQuote(op, 0, ints(arg(1))[0], false)
	case "meltqp":
		a, _ := strconv.ParseUint(arg(1), 10, 64)
		return w.opMeltQuote(op, a, -1, true)
	case "meltqpi": // MPP partial (1 sat) melt quote on the invoice of own mint quote qi
		return w.opMeltQuote(op, 1, ints(arg(1))[0], true)
	case "meltqpm": // MPP partial melt quote with an arbitrary msat part (0, sub-sat, non-round) of an external 8 sat invoice
		msat, _ := strconv.ParseUint(arg(1), 10, 64)
		inv := w.LN.NewExternalInvoice(8)
		mq, err := w.api().RequestMeltQuote(nut05.PostMeltQuoteBolt11Request{Request: inv.Request, Unit: "sat", Options: map[string]nut05.MppOption{"mpp": {AmountMsat: msat}}})
		w.note(op, err)
		w.judgeMeltLimit(op, msat, err, w.Cfg.MPP && msat < 8000)
		if err == nil {
			w.Melts = append(w.Melts, &TMelt{Q: mq, Hash: inv.Hash, Internal: -1, Partial: true})
		}
		return nil
	case "meltqm": // external invoice whose amount is not a whole number of sats (msat)
		msat, _ := strconv.ParseUint(arg(1), 10, 64)
		n := len(w.Melts)
		if err := w.opMeltQuoteRaw(op, w.LN.NewExternalInvoiceMsat(msat).Request, "", -1); err != nil {
			return err
		}
		var e error
		if len(w.Melts) == n {
			e = fmt.Errorf("refused")
		}
		w.judgeMeltLimit(op, msat, e, true)
		return nil
	case "meltqh": // an invoice forged by a third party: payment hash of own mint quote qi, another amount (sat)
		qi := ints(arg(1))[0]
		a, _ := strconv.ParseUint(arg(2), 10, 64)
		return w.opMeltQuoteRaw(op, w.LN.ForgeInvoice(w.Quotes[qi].Q.PaymentHash, a*1000), w.Quotes[qi].Q.PaymentHash, qi)
	case "melt":
		return w.opMelt(op, ints(arg(1))[0], arg(2), arg(3), arg(4))
	case "pollm":
		return w.opPollMelt(op, ints(arg(1))[0], arg(2))
	case "check":
		return w.opCheck(op, arg(1), arg(2))
	case "info": // read the info endpoint now (so that a later read can be compared after the balance moved)
		w.ProbeInfo()
		if bal, err := w.M.M.TotalBalance(); err == nil && w.Cfg.Limits.MaxBalance > 0 && bal >= w.Cfg.Limits.MaxBalance {
			w.InfoReadWhileDisabled = true // part of the canonical state: the server instance has served 'disabled' once
		}
		return nil
	case "hrestore":
		// POST /v1/restore with a FIXED batch (byte-identical request every time) made of the B_ of the outputs the client
		// produces next: first nothing of it is signed, later operations sign some of them. Every answer must be the truth
		// at that moment (C15), whatever the server answered to the same bytes before (C20: only mint and swap are cached)
		if w.RestoreBatch == nil {
			peek := *w.U // copy: does not consume the client's counter
			for _, o := range peek.Outputs(w.M.ActiveID(), 1, 1, 1, 1, 1, 1) {
				w.RestoreBatch = append(w.RestoreBatch, o.Msg)
			}
		}
		body, _ := json.Marshal(map[string]any{"outputs": w.RestoreBatch})
		code, resp, pan := world.Do(w.M.H, "POST", "/v1/restore", string(body))
		w.note(op, nil)
		w.HRestores++
		if pan != nil || code != 200 {
			w.viol("C15,C20", "fixed-restore-batch-refused", "POST /v1/restore of the fixed batch: status %d panic %v body %.120q", code, pan, resp)
			return nil
		}
		var r struct {
			Outputs    cashu.BlindedMessages   `json:"outputs"`
			Signatures cashu.BlindedSignatures `json:"signatures"`
		}
		json.Unmarshal([]byte(resp), &r)
		var exp []string
		for _, bm := range w.RestoreBatch {
			if j, ok := w.outIdx[bm.B_]; ok && w.Outs[j].Signed {
				exp = append(exp, bm.B_)
			}
		}
		w.hrestoreSignedThen = len(exp)
		var got []string
		for _, o := range r.Outputs {
			got = append(got, o.B_)
		}
		if strings.Join(got, ",") != strings.Join(exp, ",") || len(r.Signatures) != len(exp) {
			w.viol("C15,C20", "fixed-restore-batch-stale-or-wrong", "POST /v1/restore of the fixed batch (use %d): %d of its outputs are signed by now, the answer lists %d outputs and %d signatures", w.HRestores, len(exp), len(got), len(r.Signatures))
			return nil
		}
		for i, sg := range r.Signatures {
			if o := w.Outs[w.outIdx[exp[i]]]; o.Sig.C_ != sg.C_ || o.Sig.Amount != sg.Amount || o.Sig.Id != sg.Id {
				w.viol("C15", "fixed-restore-batch-signature-differs", "POST /v1/restore of the fixed batch: entry %d differs from the signature originally returned", i)
			}
		}
		return nil
	case "restart":
		return w.opRestart(op, false, 0)
	case "rotate":
		fee, _ := strconv.Atoi(arg(1))
		return w.opRestart(op, true, uint(fee))
	case "rotrt":
		fee, _ := strconv.Atoi(arg(1))
		_, err := w.M.M.RotateKeyset(uint(fee))
		w.note(op, err)
		w.syncKeysets()
		if err != nil {
			w.viol("C09", "runtime-rotation-failed", "RotateKeyset(%d): %v", fee, err)
		}
		return nil
	}
	return fmt.Errorf("unknown op %q", op)
}

func (w *W) opFund(amts []uint64) error {
	var sum uint64
	for _, a := range amts {
		sum += a
	}
	if err := w.opMintQuote("fund", sum, false); err != nil {
		return err
	}
	qi := len(w.Quotes) - 1
	q := w.Quotes[qi]
	w.LN.Settle(q.Q.PaymentHash)
	w.SyncPayments()
	outs := w.U.Outputs(w.M.ActiveID(), amts...)
	w.trackOuts(outs)
	q.LastOuts = outs
	sigs, err := w.api().MintTokens(nut04.PostMintBolt11Request{Quote: q.Q.Id, Outputs: world.Msgs(outs)})
	if err != nil {
		return fmt.Errorf("fund: %v", err)
	}
	q.Successes++
	q.Issued += sum
	w.recordSigs("fund", outs, sigs)
	return nil
}

func (w *W) opMintQuote(op string, amount uint64, locked bool) error {
	var key *secp256k1.PrivateKey
	pub := ""
	if locked {
		h := sha256sum(fmt.Sprintf("quote key %d", len(w.Quotes)))
		key = secp256k1.PrivKeyFromBytes(h)
		pub = hex.EncodeToString(key.PubKey().SerializeCompressed())
	}
	// limit oracle (C16) evaluated in unbounded integers before the call
	bal, _ := w.M.M.TotalBalance()
	lim := w.Cfg.Limits
	refuse := false
	if lim.MintingSettings.MaxAmount > 0 && amount > lim.MintingSettings.MaxAmount {
		refuse = true
	}
	if lim.MaxBalance > 0 {
		s := new(big.Int).Add(new(big.Int).SetUint64(bal), new(big.Int).SetUint64(amount))
		if s.Cmp(new(big.Int).SetUint64(lim.MaxBalance)) > 0 {
			refuse = true
		}
	}
	var q storage.MintQuote
	var err error
	if w.Cfg.ViaHTTP {
		q, err = w.api().RequestMintQuote(nut04.PostMintQuoteBolt11Request{Amount: amount, Unit: "sat", Pubkey: pub})
		if err == nil && !w.LN.WaitBlocked(q.PaymentHash, 1) {
			err = fmt.Errorf("harness: invoice watcher did not subscribe")
		}
	} else {
		q, err = w.M.MintQuote(amount, pub)
	}
	w.note(op, err)
	if refuse && err == nil {
		w.viol("C16", "mint-quote-over-limit-accepted", "RequestMintQuote(%d) accepted with balance %d, limits %+v", amount, bal, lim)
	}
	if !refuse && err != nil && amount > 0 && amount < 1<<62 {
		w.viol("C16", "mint-quote-within-limits-refused", "RequestMintQuote(%d) refused (%v) with balance %d, limits %+v", amount, err, bal, lim)
	}
	if err != nil {
		if op == "fund" {
			return err
		}
		return nil
	}
	if q.State != nut04.Unpaid {
		w.viol("C03", "new-quote-not-unpaid", "new mint quote has state %s", q.State)
	}
	w.Quotes = append(w.Quotes, &TQuote{Q: q, Key: key})
	return nil
}

func sha256sum(s string) []byte {
	h := sha256Sum([]byte(s))
	return h[:]
}

func (w *W) quoteStateExpect(q *TQuote, got nut04.State, where string) {
	// a quote may be reported PAID/ISSUED only if a payment exists
	if (got == nut04.Paid || got == nut04.Issued || got == nut04.Pending) && q.Payments == 0 {
		w.viol("C03", "quote-paid-without-payment", "%s reports %s, no payment exists", where, got)
	}
}

func (w *W) opFire(qi int) error {
	q := w.Quotes[qi]
	g := w.LN.DeliverGIDs(q.Q.PaymentHash)
	q.Fired = true
	if len(g) == 0 {
		return nil // no live watcher (mint restarted since) or invoice not settled: nothing happens
	}
	// the watcher goroutine handles the notification (store reads / writes) and exits
	if !sched.WaitGone(g, 20*time.Second) {
		return fmt.Errorf("harness: watcher goroutine did not finish after delivery")
	}
	return nil
}

func (w *W) opPollQuote(op string, qi int) error {
	q := w.Quotes[qi]
	got, err := w.api().GetMintQuoteState(q.Q.Id)
	w.note(op, err)
	if err != nil {
		w.viol("C20", "mint-quote-poll-failed", "GetMintQuoteState: %v", err)
		return nil
	}
	w.quoteStateExpect(q, got.State, "GetMintQuoteState")
	if q.Payments > 0 && q.Successes == 0 && got.State != nut04.Paid {
		w.viol("C03", "paid-quote-not-reported-paid", "q%d is paid and not issued, poll reports %s", qi, got.State)
	}
	return nil
}

func (w *W) opMint(op string, qi int, variant string) error {
	q := w.Quotes[qi]
	act := w.active()
	amt := q.Q.Amount
	var outs []world.Out
	honest := false
	over := false
	switch variant {
	case "exact":
		outs = w.U.Outputs(act.Id, world.Split(amt)...)
		honest = true
	case "upperB":
		outs = w.U.Outputs(act.Id, world.Split(amt)...)
		for i := range outs {
			outs[i].Msg.B_ = strings.ToUpper(outs[i].Msg.B_)
		}
		honest = true
	case "less":
		if amt < 2 {
			return nil
		}
		outs = w.U.Outputs(act.Id, world.Split(amt-1)...)
	case "over":
		outs = w.U.Outputs(act.Id, world.Split(amt+1)...)
		over = true
	case "same":
		if len(q.LastOuts) == 0 {
			outs = w.U.Outputs(act.Id, world.Split(amt)...)
			honest = true
		} else {
			outs = q.LastOuts
		}
	case "wrap":
		// 32 outputs of 2^59 (each a valid denomination) sum to 2^64 = 0 mod 2^64, plus the honest split of the amount
		big32 := make([]uint64, 32)
		for i := range big32 {
			big32[i] = 1 << 59
		}
		outs = w.U.Outputs(act.Id, append(big32, world.Split(amt)...)...)
		over = true
	case "bad3":
		outs = w.U.Outputs(act.Id, 3)
	case "inactive", "unknown":
		id := "00ffffffffffffff"
		if variant == "inactive" {
			id = ""
			for _, k := range w.Keysets {
				if !k.Active {
					id = k.Id
				}
			}
			if id == "" {
				return nil
			}
		}
		outs = w.U.Outputs(id, world.Split(amt)...)
	case "badsig", "nosig", "sig-cut", "sig-padded", "sig-onebyte", "sig-doubled":
		outs = w.U.Outputs(act.Id, world.Split(amt)...)
	case "unsorted", "sig-reordered", "sig-sorted", "sig-added", "sig-removed", "sig-otherquote":
		// several outputs of different amounts in an order that is not sorted (amount >= 8): 4,1,2,1,...
		if amt < 8 {
			return nil
		}
		outs = w.U.Outputs(act.Id, append([]uint64{4, 1, 2, 1}, world.Split(amt-8)...)...)
		honest = variant == "unsorted"
	default:
		return fmt.Errorf("mint variant %q", variant)
	}
	w.trackOuts(outs)
	alreadySigned := false
	for _, o := range outs {
		if w.Outs[w.outIdx[o.Msg.B_]].Signed {
			alreadySigned = true
		}
	}
	req := nut04.PostMintBolt11Request{Quote: q.Q.Id, Outputs: world.Msgs(outs)}
	sigOK := true
	if q.Key != nil {
		switch variant {
		case "nosig":
			sigOK = false
		case "badsig":
			other := secp256k1.PrivKeyFromBytes(sha256sum("another key"))
			s, _ := nut20.SignMintQuote(other, q.Q.Id, req.Outputs)
			req.Signature = hex.EncodeToString(s.Serialize())
			sigOK = false
		case "sig-cut", "sig-padded", "sig-onebyte", "sig-doubled":
			// well-formed hex that is not a 64-byte signature: the genuine signature minus its last byte, plus one byte,
			// a single byte, twice in a row
			s, _ := nut20.SignMintQuote(q.Key, q.Q.Id, req.Outputs)
			b := s.Serialize()
			switch variant {
			case "sig-cut":
				b = b[:len(b)-1]
			case "sig-padded":
				b = append(b, 0)
			case "sig-onebyte":
				b = []byte{0}
			case "sig-doubled":
				b = append(append([]byte{}, b...), b...)
			}
			req.Signature = hex.EncodeToString(b)
			sigOK = false
		case "sig-reordered", "sig-sorted", "sig-added", "sig-removed", "sig-otherquote":
			// a genuine signature by the right key, but not over exactly the submitted outputs of this quote
			signed := append(cashu.BlindedMessages{}, req.Outputs...)
			qid := q.Q.Id
			switch variant {
			case "sig-reordered": // signed in the submitted order rotated by one
				signed = append(signed[1:], signed[0])
			case "sig-sorted": // signed over the outputs sorted by amount
				sort.SliceStable(signed, func(i, j int) bool { return signed[i].Amount < signed[j].Amount })
			case "sig-added": // an output is submitted that the signature does not cover
				signed = signed[:len(signed)-1]
			case "sig-removed": // the signature covers an output that is not submitted
				req.Outputs = req.Outputs[:len(req.Outputs)-1]
				outs = outs[:len(outs)-1]
			case "sig-otherquote":
				qid = w.Quotes[0].Q.Id
			}
			s, _ := nut20.SignMintQuote(q.Key, qid, signed)
			req.Signature = hex.EncodeToString(s.Serialize())
			sigOK = false
		default:
			s, _ := nut20.SignMintQuote(q.Key, q.Q.Id, req.Outputs)
			req.Signature = hex.EncodeToString(s.Serialize())
		}
	}
	sigs, err := w.api().MintTokens(req)
	w.note(op, err)
	q.LastOuts = outs
	paid := q.Payments > 0
	if err == nil {
		sum := cashu.BlindedSignatures(sigs).Amount()
		switch {
		case !paid:
			w.viol("C03", "issued-before-payment", "MintTokens(q%d,%s) succeeded, the invoice is not settled", qi, variant)
		case q.Successes >= q.Payments:
			w.viol("C03", "issued-again-after-issuance", "MintTokens(q%d,%s) succeeded although the quote was already issued %d× for %d payment(s)", qi, variant, q.Successes, q.Payments)
		}
		if over || bigSumMsgs(req.Outputs).Cmp(new(big.Int).SetUint64(amt)) > 0 {
			w.viol("C02,C03", "mint-outputs-over-quote-amount", "MintTokens(q%d,%s): outputs %s accepted for quote amount %d", qi, variant, bigSumMsgs(req.Outputs), amt)
		}
		if !sigOK {
			w.viol("C03", "nut20-invalid-signature-accepted", "MintTokens(q%d,%s) accepted without a valid NUT-20 signature", qi, variant)
		}
		if alreadySigned {
			w.viol("C15", "output-signed-twice", "MintTokens(q%d,%s): an output that already had a signature was signed again", qi, variant)
		}
		if variant == "inactive" || variant == "unknown" {
			w.viol("C09", "signed-on-"+variant+"-keyset", "MintTokens(q%d,%s) accepted", qi, variant)
		}
		q.Successes++
		q.Issued += sum
		w.recordSigs(op, outs, sigs)
	} else if honest && paid && q.Successes == 0 && !alreadySigned && sigOK && amt < 1<<60 {
		// (amounts from 2^60 on have binary digits for which no key exists: the plain binary split is not an honest request)
		// (a second payment of an already issued quote is the payer's loss; the statement does not demand a second issuance)
		w.viol("C06,C03", "honest-mint-refused", "MintTokens(q%d,%s) refused (%v) although the quote is paid and not issued", qi, variant, err)
	}
	return nil
}

func (w *W) inactiveID() string {
	id := ""
	for _, k := range w.Keysets {
		if !k.Active {
			id = k.Id
		}
	}
	return id
}

func (w *W) opSwap(op, ins, variant string) error {
	var proofs cashu.Proofs
	var idx []int
	mutated := false
	respelled := false
	for _, f := range strings.Split(ins, ",") {
		n, _ := strconv.Atoi(strings.TrimRight(f, "wadu"))
		p := w.Proofs[n].P
		switch {
		case strings.HasSuffix(f, "u"):
			// the keyset id respelled in upper case: no keyset of the mint has that id (and no fee is known for it)
			p.Id = strings.ToUpper(p.Id)
			respelled = true
		case strings.HasSuffix(f, "w"):
			p.Witness = `{"signatures":["00"]}`
		case strings.HasSuffix(f, "d"):
			p.DLEQ = &cashu.DLEQProof{E: "00", S: "00"}
		case strings.HasSuffix(f, "a"):
			if p.Amount == 1 {
				p.Amount = 2
			} else {
				p.Amount = 1
			}
			mutated = true
		}
		proofs = append(proofs, p)
		idx = append(idx, n)
	}
	act := w.active()
	fee := w.FeeFor(proofs)
	inSum := bigSumProofs(proofs)
	net := new(big.Int).Sub(inSum, fee)
	var outs []world.Out
	mk := func(id string, total *big.Int) []world.Out {
		if total.Sign() <= 0 || !total.IsUint64() {
			return nil
		}
		return w.U.Outputs(id, world.Split(total.Uint64())...)
	}
	outKS := "active"
	switch variant {
	case "exact":
		outs = mk(act.Id, net)
	case "plus1":
		outs = mk(act.Id, new(big.Int).Add(net, big.NewInt(1)))
	case "nofee":
		outs = mk(act.Id, inSum)
	case "wrap":
		big32 := make([]uint64, 32)
		for i := range big32 {
			big32[i] = 1 << 59
		}
		outs = w.U.Outputs(act.Id, big32...)
		if net.Sign() > 0 && net.IsUint64() {
			outs = append(outs, w.U.Outputs(act.Id, world.Split(net.Uint64())...)...)
		}
	case "inactive":
		id := w.inactiveID()
		if id == "" {
			return nil
		}
		outs = mk(id, net)
		outKS = "inactive"
	case "unknown":
		outs = mk("00ffffffffffffff", net)
		outKS = "unknown"
	case "dupout":
		outs = mk(act.Id, net)
		if len(outs) > 0 {
			outs = append(outs, outs[0])
		}
	case "upperB": // honest outputs whose B_ is written in upper-case hex (the same points)
		outs = mk(act.Id, net)
		for i := range outs {
			outs[i].Msg.B_ = strings.ToUpper(outs[i].Msg.B_)
		}
	case "same": // the outputs of the previous swap request again (verbatim replay)
		outs = w.LastSwapOuts
		if len(outs) == 0 {
			outs = mk(act.Id, net)
		}
	default:
		return fmt.Errorf("swap variant %q", variant)
	}
	if len(outs) == 0 {
		// nothing sensible to request (net amount 0): skip — an empty output list is C06's business
		return nil
	}
	w.LastSwapOuts = outs
	w.trackOuts(outs)
	resubmitted := false
	for _, o := range outs {
		if w.Outs[w.outIdx[o.Msg.B_]].Signed {
			resubmitted = true
		}
	}
	outSum := bigSumMsgs(world.Msgs(outs))
	// classification from the model
	usedBefore, dup := false, false
	seen := map[string]bool{}
	for _, n := range idx {
		if w.Proofs[n].St != Unspent {
			usedBefore = true
		}
		if seen[w.Proofs[n].P.Secret] {
			dup = true
		}
		seen[w.Proofs[n].P.Secret] = true
	}
	sigs, err := w.api().Swap(proofs, world.Msgs(outs))
	w.note(op, err)
	if err == nil {
		if d := new(big.Int).Sub(inSum, outSum); d.Sign() > 0 && d.IsUint64() {
			w.SwapLoss += d.Uint64() // what accepted swaps gave up (input fees)
		}
		if usedBefore {
			w.viol("C01,C05", "swap-of-used-secret-accepted", "Swap(%s,%s) accepted although an input is %s in the model", ins, variant, "spent/pending")
		}
		if dup {
			w.viol("C01", "swap-duplicate-secret-in-request-accepted", "Swap(%s) accepted with the same secret twice", ins)
		}
		if mutated {
			w.viol("C04", "amount-field-mutation-accepted", "Swap(%s) accepted a proof with a changed amount field", ins)
		}
		if respelled {
			w.viol("C04,C09,C02", "respelled-keyset-id-accepted", "Swap(%s,%s) accepted an input whose keyset id is spelled in upper case (no such keyset; no input fee charged for it)", ins, variant)
		}
		if outSum.Cmp(net) > 0 {
			w.viol("C02,C09", "swap-outputs-exceed-inputs-minus-fees", "Swap(%s,%s): outputs %s > inputs %s - fee %s", ins, variant, outSum, inSum, fee)
		}
		if outKS != "active" {
			w.viol("C09", "signed-on-"+outKS+"-keyset", "Swap(%s,%s) accepted", ins, variant)
		}
		if resubmitted {
			w.viol("C15", "output-signed-twice", "Swap(%s,%s): an output that already had a signature was signed again", ins, variant)
		}
		for _, n := range idx {
			w.Proofs[n].St = Spent
			w.Proofs[n].Wit = proofs[0].Witness
		}
		// witness per input
		for k, n := range idx {
			w.Proofs[n].Wit = proofs[k].Witness
		}
		w.recordSigs(op, outs, sigs)
	} else {
		honest := !usedBefore && !dup && !mutated && !respelled && (variant == "exact" || variant == "upperB") && !resubmitted
		for _, f := range strings.Split(ins, ",") {
			if strings.HasSuffix(f, "w") || strings.HasSuffix(f, "d") {
				_ = f // witness / DLEQ decoration on a plain proof is ignored by the mint: still honest
			}
		}
		if honest {
			w.viol("C06,C05,C09", "honest-swap-refused", "Swap(%s,%s) refused: %v (inputs unspent, outputs = inputs - fee %s)", ins, variant, err, fee)
		}
	}
	return nil
}

func (w *W) opMeltQuote(op string, amount uint64, qi int, partial bool) error {
	var request, hash string
	if qi >= 0 {
		request, hash = w.Quotes[qi].Q.PaymentRequest, w.Quotes[qi].Q.PaymentHash
		if !partial {
			amount = w.Quotes[qi].Q.Amount
		}
	} else if partial {
		inv := w.LN.NewExternalInvoice(amount * 2)
		request, hash = inv.Request, inv.Hash
	} else {
		inv := w.LN.NewExternalInvoice(amount)
		request, hash = inv.Request, inv.Hash
	}
	req := nut05.PostMeltQuoteBolt11Request{Request: request, Unit: "sat"}
	if partial {
		req.Options = map[string]nut05.MppOption{"mpp": {AmountMsat: amount * 1000}}
	}
	lim := w.Cfg.Limits.MeltingSettings.MaxAmount
	mq, err := w.api().RequestMeltQuote(req)
	w.note(op, err)
	exists := false
	for _, m := range w.Melts {
		if m.Q.InvoiceRequest == request {
			exists = true
		}
	}
	if lim > 0 && amount > lim && err == nil {
		w.viol("C16", "melt-quote-over-limit-accepted", "RequestMeltQuote(%d) accepted, melt max %d", amount, lim)
	}
	if err != nil {
		// (an amount that BOLT11 cannot express in msat is refused as an invalid invoice, whatever the limits say)
		if !(lim > 0 && amount > lim) && !exists && !(partial && !w.Cfg.MPP) && !(partial && qi >= 0) && amount < 1<<50 {
			w.viol("C16", "melt-quote-within-limit-refused", "RequestMeltQuote(%d) refused: %v (melt max %d)", amount, err, lim)
		}
		return nil
	}
	if qi < 0 && !partial {
		if exp := w.LN.FeeFn(amount); mq.FeeReserve != exp || mq.Amount != amount {
			w.viol("C02", "melt-quote-amounts", "melt quote amount/reserve %d/%d, expected %d/%d", mq.Amount, mq.FeeReserve, amount, exp)
		}
	}
	w.Melts = append(w.Melts, &TMelt{Q: mq, Hash: hash, Internal: qi, Partial: partial})
	return nil
}

// judgeMeltLimit: the melting maximum is a limit in sats on what the quote makes the mint pay; an amount with sub-sat
// precision counts with its sats rounded up (what the user has to burn). acceptable: nothing else forbids the request.
func (w *W) judgeMeltLimit(op string, msat uint64, err error, acceptable bool) {
	lim := w.Cfg.Limits.MeltingSettings.MaxAmount
	if lim == 0 {
		return
	}
	sat := new(big.Int).SetUint64(msat)
	sat.Add(sat, big.NewInt(999)).Div(sat, big.NewInt(1000))
	over := sat.Cmp(new(big.Int).SetUint64(lim)) > 0
	if over && err == nil {
		w.viol("C16", "melt-quote-over-limit-accepted", "%s: a melt quote for %d msat (%s sat) was granted, melt max %d", op, msat, sat, lim)
	}
	if !over && err != nil && acceptable {
		w.viol("C16", "melt-quote-within-limit-refused", "%s: a melt quote for %d msat (%s sat) was refused, melt max %d", op, msat, sat, lim)
	}
}

// opMeltQuoteRaw requests a melt quote for an arbitrary BOLT11 string (no accept / reject demand: the statement's
// conservation inequality judges what happens afterwards).
func (w *W) opMeltQuoteRaw(op, request, hash string, internal int) error {
	mq, err := w.api().RequestMeltQuote(nut05.PostMeltQuoteBolt11Request{Request: request, Unit: "sat"})
	w.note(op, err)
	if err != nil {
		return nil
	}
	if hash == "" {
		for h, inv := range w.LN.Invoices {
			if inv.Request == request {
				hash = h
			}
		}
	}
	w.Melts = append(w.Melts, &TMelt{Q: mq, Hash: hash, Internal: internal})
	return nil
}

// applyLN updates melt.Known from the Lightning calls the mint made during one operation (C05 decision table).
func (w *W) applyLN(m *TMelt, from int, inMeltTokens bool) (payCalls int) {
	calls := w.LN.Calls[from:]
	for _, c := range calls {
		if c.Hash != m.Hash {
			continue
		}
		switch c.Method {
		case "SendPayment", "PayPartialAmount":
			payCalls++
			if c.FeeLimit > m.Q.FeeReserve {
				w.viol("C02", "fee-limit-exceeds-fee-reserve", "%s called with fee limit %d for a melt quote with fee_reserve %d (amount %d)", c.Method, c.FeeLimit, m.Q.FeeReserve, m.Q.Amount)
			}
			switch c.Answer {
			case "Succeeded":
				m.Known = "success"
				m.Preimage = w.LN.Invoices[m.Hash].Preimage
			default:
				m.Known = "none"
			}
		case "OutgoingPaymentStatus":
			switch c.Answer {
			case "Succeeded":
				m.Known = "success"
				m.Preimage = w.LN.Invoices[m.Hash].Preimage
			case "Failed":
				m.Known = "failure"
			case "NotFound":
				if inMeltTokens {
					m.Known = "failure"
				} else {
					m.Known = "dontcare" // the statement allows, but does not demand, a release here: adopt what the mint did
				}
			}
		}
	}
	return
}

// settleModel applies melt.Known to the model proofs; "dontcare" adopts the store's state.
func (w *W) settleModel(m *TMelt) {
	if m.Known == "dontcare" {
		t, err := w.ReadTables()
		if err == nil {
			switch t.MeltQ[m.Q.Id][0] {
			case "UNPAID":
				m.Known = "failure"
			default:
				m.Known = "none"
			}
		}
	}
	_, pst := meltExpect(m.Known)
	for _, n := range m.Inputs {
		w.Proofs[n].St = pst
		if pst == Spent {
			w.Proofs[n].Wit = m.Wits[n]
		}
		if pst == Pending {
			w.Proofs[n].Melt = indexOfMelt(w, m)
		}
	}
	if m.Known == "failure" {
		m.Inputs = nil
	}
}

func indexOfMelt(w *W, m *TMelt) int {
	for i, x := range w.Melts {
		if x == m {
			return i
		}
	}
	return -1
}

func (w *W) opMelt(op string, mi int, ins, pay, status string) error {
	m := w.Melts[mi]
	var proofs cashu.Proofs
	var idx []int
	for k, n := range ints(ins) {
		p := w.Proofs[n].P
		if strings.HasSuffix(strings.Split(ins, ",")[k], "w") {
			p.Witness = `{"signatures":["00"]}` // ignored for a plain secret, but it is the witness the proof is spent with
		}
		proofs = append(proofs, p)
		idx = append(idx, n)
	}
	usedBefore, dup := false, false
	seen := map[string]bool{}
	for _, n := range idx {
		if w.Proofs[n].St != Unspent {
			usedBefore = true
		}
		if seen[w.Proofs[n].P.Secret] {
			dup = true
		}
		seen[w.Proofs[n].P.Secret] = true
	}
	fee := w.FeeFor(proofs)
	need := new(big.Int).SetUint64(m.Q.Amount)
	need.Add(need, new(big.Int).SetUint64(m.Q.FeeReserve))
	need.Add(need, fee)
	enough := bigSumProofs(proofs).Cmp(need) >= 0
	quoteBusy := m.Known == "none" || m.Known == "success"
	if p := answers(pay); len(p) > 0 {
		w.LN.PayScript[m.Hash] = p
	}
	w.LN.StatusScript[m.Hash] = answers(status)
	from := len(w.LN.Calls)
	res, err := w.api().MeltTokens(bg, nut05.PostMeltBolt11Request{Quote: m.Q.Id, Inputs: proofs})
	w.note(op, err)
	delete(w.LN.PayScript, m.Hash)
	delete(w.LN.StatusScript, m.Hash)
	prevKnown := m.Known
	var payCalls int
	if !quoteBusy {
		payCalls = w.applyLN(m, from, true)
	} else {
		for _, c := range w.LN.Calls[from:] {
			if c.Hash == m.Hash && (c.Method == "SendPayment" || c.Method == "PayPartialAmount") {
				payCalls++
			}
		}
	}
	internalDone := false
	if m.Internal >= 0 && err == nil && res.State == nut05.Paid && payCalls == 0 {
		internalDone = true
	}
	accepted := payCalls > 0 || internalDone
	if accepted {
		if usedBefore {
			w.viol("C01,C05", "melt-of-used-secret-accepted", "MeltTokens(mq%d,%s): payment attempted although an input is spent/pending in the model", mi, ins)
		}
		if dup {
			w.viol("C01", "melt-duplicate-secret-in-request-accepted", "MeltTokens(mq%d,%s) with the same secret twice attempted payment", mi, ins)
		}
		if !enough {
			w.viol("C02,C09", "melt-with-insufficient-inputs", "MeltTokens(mq%d,%s): inputs %s < amount %d + reserve %d + fee %s, payment attempted", mi, ins, bigSumProofs(proofs), m.Q.Amount, m.Q.FeeReserve, fee)
		}
		if quoteBusy {
			w.viol("C05", "melt-on-"+prevKnown+"-quote-paid-again", "MeltTokens(mq%d) attempted a payment although the quote was %s", mi, prevKnown)
		}
		if !usedBefore {
			m.Inputs = idx
			m.Wits = map[int]string{}
			for k, n := range idx {
				m.Wits[n] = proofs[k].Witness
			}
		}
		if internalDone {
			m.Known = "success"
			m.Preimage = w.LN.Invoices[m.Hash].Preimage
			q := w.Quotes[m.Internal]
			if m.Q.Amount < q.Q.Amount {
				// a part of the invoice is not the invoice: the quote is not paid by it
				w.viol("C02,C03", "mint-quote-settled-by-smaller-internal-melt", "MeltTokens(mq%d): a melt quote of %d sat settled mint quote q%d of %d sat internally", mi, m.Q.Amount, m.Internal, q.Q.Amount)
			} else {
				q.Payments++
			}
			// what backs the internally settled mint quote is what the melt burned for it: the MELT quote's amount
			w.InternalSettled += m.Q.Amount
		}
		w.settleModel(m)
		// response must mirror the outcome
		exp, _ := meltExpect(m.Known)
		if err == nil && res.State.String() != exp {
			w.viol("C05", "melt-response-state/known="+m.Known+"/got="+res.State.String(), "MeltTokens(mq%d) pay=%s status=%s returned %s, outcome known to the mint is %s", mi, pay, status, res.State, m.Known)
		}
		if err != nil {
			w.viol("C05", "melt-errors-after-payment-attempt", "MeltTokens(mq%d) pay=%s status=%s returned error %v after attempting the payment", mi, pay, status, err)
		}
	} else {
		if err == nil {
			w.viol("C05", "melt-ok-without-payment", "MeltTokens(mq%d,%s) returned %s without any payment attempt", mi, ins, res.State)
		}
		honest := !usedBefore && !dup && enough && !quoteBusy && len(proofs) > 0
		if honest {
			w.viol("C06,C05,C09", "honest-melt-refused", "MeltTokens(mq%d,%s) refused: %v", mi, ins, err)
		}
	}
	return nil
}

func (w *W) opPollMelt(op string, mi int, status string) error {
	m := w.Melts[mi]
	w.LN.StatusScript[m.Hash] = answers(status)
	from := len(w.LN.Calls)
	res, err := w.api().GetMeltQuoteState(bg, m.Q.Id)
	w.note(op, err)
	delete(w.LN.StatusScript, m.Hash)
	if m.Known == "none" {
		w.applyLN(m, from, false)
		w.settleModel(m)
	} else if n := len(w.LN.Calls) - from; n > 0 && m.Known != "none" {
		// consulting the backend for a settled / untouched quote is harmless; nothing to apply
	}
	if err != nil {
		w.viol("C05", "melt-quote-poll-failed", "GetMeltQuoteState(mq%d): %v", mi, err)
		return nil
	}
	exp, _ := meltExpect(m.Known)
	if res.State.String() != exp {
		w.viol("C05", "poll-state/known="+orNone(m.Known)+"/got="+res.State.String(), "GetMeltQuoteState(mq%d) status=%s returned %s, outcome known to the mint is %q", mi, status, res.State, m.Known)
	}
	return nil
}

func (w *W) opCheck(op, ins, status string) error {
	var Ys []string
	idx := ints(ins)
	for _, n := range idx {
		Ys = append(Ys, w.Proofs[n].Y)
	}
	// script applies to every pending melt touched
	touched := map[*TMelt]bool{}
	for _, n := range idx {
		p := w.Proofs[n]
		if p.St == Pending && p.Melt >= 0 {
			touched[w.Melts[p.Melt]] = true
		}
	}
	for m := range touched {
		w.LN.StatusScript[m.Hash] = answers(status)
	}
	from := len(w.LN.Calls)
	states, err := w.api().ProofsStateCheck(Ys)
	w.note(op, err)
	for m := range touched {
		delete(w.LN.StatusScript, m.Hash)
		w.applyLN(m, from, false)
		w.settleModel(m)
	}
	if err != nil {
		w.viol("C15", "state-check-failed", "ProofsStateCheck: %v", err)
		return nil
	}
	w.compareStates("check", idx, states)
	return nil
}

func (w *W) opRestart(op string, rotate bool, fee uint) error {
	w.InfoReadWhileDisabled = false
	err := w.M.Restart(rotate, fee)
	w.note(op, err)
	if err != nil {
		w.viol("C09", "restart-failed", "%s: LoadMint failed: %v", op, err)
		return fmt.Errorf("restart failed: %v", err)
	}
	w.syncKeysets()
	return nil
}
