package mintops

import (
	"fmt"
	"math/big"
	"strings"

	"github.com/elnosh/gonuts/cashu"
)

// UnspentIdx lists tracked proofs the model holds as unspent (at most limit, lowest indices first).
func (w *W) UnspentIdx(limit int) []int {
	var r []int
	for i, p := range w.Proofs {
		if p.St == Unspent {
			r = append(r, i)
			if len(r) == limit {
				break
			}
		}
	}
	return r
}

// PickMeltInputs finds a subset of unspent tracked proofs (among the first `among`) whose sum equals
// amount + fee_reserve + fee(subset) + delta. Returns "" if none.
func (w *W) PickMeltInputs(m *TMelt, delta int64, among int) string {
	cand := w.UnspentIdx(among)
	n := len(cand)
	best := ""
	for mask := 1; mask < 1<<n; mask++ {
		var ps cashu.Proofs
		var ids []string
		for b := 0; b < n; b++ {
			if mask&(1<<b) != 0 {
				ps = append(ps, w.Proofs[cand[b]].P)
				ids = append(ids, fmt.Sprint(cand[b]))
			}
		}
		need := new(big.Int).SetUint64(m.Q.Amount)
		need.Add(need, new(big.Int).SetUint64(m.Q.FeeReserve))
		need.Add(need, w.FeeFor(ps))
		need.Add(need, big.NewInt(delta))
		if bigSumProofs(ps).Cmp(need) == 0 {
			s := strings.Join(ids, ",")
			if best == "" || len(s) < len(best) {
				best = s
			}
		}
	}
	return best
}
