// Package mintops is the mint-level world of the sequential searches (E3): an operation language over the
// real Mint API, the reference model refmint (plain maps, fed only by responses the mint actually gave and by
// Lightning-model events), transition oracles (must-accept / must-reject), invariants and the canonical state.
package mintops

import (
	"context"
	"database/sql"
	"encoding/hex"
	"fmt"
	"math/big"
	"os"
	"path/filepath"
	"sort"
	"strings"

	"github.com/decred/dcrd/dcrec/secp256k1/v4"
	"github.com/elnosh/gonuts/cashu"
	"github.com/elnosh/gonuts/cashu/nuts/nut12"
	"github.com/elnosh/gonuts/mint"
	"github.com/elnosh/gonuts/mint/storage"

	"verif/harness/dbwrap"
	"verif/harness/lnmodel"
	"verif/harness/rt"
	"verif/harness/world"
)

const (
	Unspent = 0
	Pending = 1
	Spent   = 2
)

type TProof struct {
	P    cashu.Proof
	Y    string
	St   int    // model state
	Melt int    // melt index while pending
	Wit  string // witness it was consumed with
	KS   int    // keyset creation index
}

type TQuote struct {
	Q         storage.MintQuote
	Payments  int // settled on Lightning (1) or internally by a melt (1); the truth, from the LN model / melt results
	LNCounted bool
	Successes int // successful MintTokens calls
	Issued    uint64
	LastOuts  []world.Out // outputs of the last mint attempt (for "same outputs again")
	Key       *secp256k1.PrivateKey
	Fired     bool
}

type TMelt struct {
	Q        storage.MeltQuote
	Hash     string
	Wits     map[int]string // witness each input was presented with
	Internal int            // index of own mint quote with the same invoice, -1 if external
	Inputs   []int          // tracked proof indices locked by the accepted melt
	// Known: what the mint has been told by the backend: "" (nothing attempted), "none" (in flight / ambiguous),
	// "success", "failure"
	Known    string
	Preimage string
	Partial  bool
}

type TOut struct {
	O      world.Out
	Signed bool
	Sig    cashu.BlindedSignature
}

type KS struct {
	Id     string
	Fee    uint
	Idx    int
	Keys   map[uint64]*secp256k1.PublicKey
	Active bool
}

type Config struct {
	Fee    uint
	Limits mint.MintLimits
	MPP    bool
	FeeFn  func(uint64) uint64 `json:"-"`
	// ViaHTTP binds the operations to the mint server's HTTP handler instead of the Go API (api.go)
	ViaHTTP bool
}

type W struct {
	Dir     string
	Cfg     Config
	M       *world.MintW
	LN      *lnmodel.LN
	U       *world.User
	Proofs  []*TProof
	Quotes  []*TQuote
	Melts   []*TMelt
	Outs    []*TOut
	outIdx  map[string]int
	Keysets []*KS
	V       []rt.Violation
	// per-op observation log (accept/reject + code) for anti-vacuity counters
	Obs []string
	// counters of outcomes per op kind
	Outcomes map[string]int
	// watcherWrites counts UpdateMintQuoteState calls made by non-harness goroutines
	harnessGID int64
	watcherCh  chan string
	// InternalSettled is the sum of mint-quote amounts settled internally (no Lightning inflow)
	InternalSettled uint64
	// SwapLoss is the sum over accepted swaps of inputs - outputs (the fees the client gave up)
	SwapLoss uint64
	// FeeBurned is the sum of input fees of accepted swaps/melts (value destroyed)
	dbErrArmed string
	// LastSwapOuts are the outputs of the most recent swap request (for verbatim replays)
	LastSwapOuts []world.Out
	// RestoreBatch is the fixed batch of blinded messages of the hrestore operation (byte-identical every time): the
	// B_ of the next outputs the client will produce, fixed when the operation is first used; HRestores counts its uses
	RestoreBatch       cashu.BlindedMessages
	httpN              int // makes request bodies unique in ViaHTTP mode
	HRestores          int
	hrestoreSignedThen int
	// InfoReadWhileDisabled: the info endpoint was read on this mint instance while minting was disabled
	InfoReadWhileDisabled bool
	// Unc, when set, makes Invariants skip entities touched by an interrupted operation (C07 durability pass)
	Unc *Uncertain
}

func New(dir string, cfg Config) (*W, error) {
	ln := lnmodel.New()
	if cfg.FeeFn != nil {
		ln.FeeFn = cfg.FeeFn
	}
	w := &W{Dir: dir, Cfg: cfg, LN: ln, U: &world.User{Tag: "u"}, outIdx: map[string]int{}, Outcomes: map[string]int{},
		harnessGID: dbwrap.GID(), watcherCh: make(chan string, 64)}
	m := &world.MintW{Cfg: world.Cfg{Name: "a", Dir: filepath.Join(dir, "mint-a"), FeePpk: cfg.Fee, Limits: cfg.Limits, MPP: cfg.MPP}, LN: ln}
	m.OnLoad = func(db *dbwrap.DB) {
		db.After = func(c *dbwrap.Call, err error) {
			if c.Name == "UpdateMintQuoteState" && dbwrap.GID() != w.harnessGID {
				select {
				case w.watcherCh <- c.Args[0].(string):
				default:
				}
			}
		}
	}
	if err := os.MkdirAll(m.Dir, 0o700); err != nil {
		return nil, err
	}
	mm, err := world.NewMintWith(m)
	if err != nil {
		return nil, err
	}
	w.M = mm
	w.syncKeysets()
	return w, nil
}

func (w *W) Close() {
	if w.M != nil {
		w.M.Shutdown()
	}
}

func (w *W) viol(prop, key, format string, a ...any) {
	// prop may name several properties ("C01,C05"): the violation is reported by each of their checks, keyed <ID>/<key>
	w.V = append(w.V, rt.Violation{Property: prop, Key: key, What: fmt.Sprintf(format, a...)})
}

// syncKeysets records keysets in creation (derivation index) order from the mint's own listing.
func (w *W) syncKeysets() {
	list := w.M.M.ListKeysets().Keysets
	for _, k := range list {
		found := false
		for _, e := range w.Keysets {
			if e.Id == k.Id {
				e.Active = k.Active
				found = true
			}
		}
		if !found {
			ks, _ := w.M.M.GetKeysetById(k.Id)
			w.Keysets = append(w.Keysets, &KS{Id: k.Id, Fee: k.InputFeePpk, Keys: ks.Keys, Active: k.Active})
		}
	}
	// creation order == order in which we first saw them (one new keyset per rotation); assign Idx
	for i, e := range w.Keysets {
		e.Idx = i
	}
}

func (w *W) ksByID(id string) *KS {
	for _, k := range w.Keysets {
		if k.Id == id {
			return k
		}
	}
	return nil
}

func (w *W) active() *KS {
	id := w.M.ActiveID()
	return w.ksByID(id)
}

// FeeFor is the independent fee formula ceil(sum ppk / 1000) over the inputs' own keysets (math/big).
func (w *W) FeeFor(ps cashu.Proofs) *big.Int {
	sum := new(big.Int)
	for _, p := range ps {
		if k := w.ksByID(p.Id); k != nil {
			sum.Add(sum, big.NewInt(int64(k.Fee)))
		}
	}
	sum.Add(sum, big.NewInt(999))
	return sum.Div(sum, big.NewInt(1000))
}

func bigSumProofs(ps cashu.Proofs) *big.Int {
	s := new(big.Int)
	for _, p := range ps {
		s.Add(s, new(big.Int).SetUint64(p.Amount))
	}
	return s
}

func bigSumMsgs(ms cashu.BlindedMessages) *big.Int {
	s := new(big.Int)
	for _, m := range ms {
		s.Add(s, new(big.Int).SetUint64(m.Amount))
	}
	return s
}

func (w *W) trackOuts(outs []world.Out) {
	for _, o := range outs {
		if _, ok := w.outIdx[o.Msg.B_]; !ok {
			w.outIdx[o.Msg.B_] = len(w.Outs)
			w.Outs = append(w.Outs, &TOut{O: o})
		}
	}
}

// recordSigs checks every returned signature (C09: active keyset only; C10 history part: DLEQ verifies against
// the published key; C02: amount equals the requested output amount) and turns them into tracked proofs.
func (w *W) recordSigs(op string, outs []world.Out, sigs cashu.BlindedSignatures) []int {
	act := w.active()
	var idx []int
	if len(sigs) != len(outs) {
		w.viol("C20", "sigs-count", "%s: %d signatures for %d outputs", op, len(sigs), len(outs))
		return nil
	}
	for i, s := range sigs {
		o := outs[i]
		if s.Id != act.Id {
			w.viol("C09", "signature-on-non-active-keyset", "%s: signature id %s, active keyset %s", op, s.Id, act.Id)
		}
		if s.Amount != o.Msg.Amount {
			w.viol("C02", "signature-amount-differs", "%s: output amount %d signed as %d", op, o.Msg.Amount, s.Amount)
		}
		ks := w.ksByID(s.Id)
		if ks == nil || ks.Keys[s.Amount] == nil {
			w.viol("C09", "signature-unknown-key", "%s: signature for unknown keyset/amount %s/%d", op, s.Id, s.Amount)
			continue
		}
		if s.DLEQ == nil || !nut12.VerifyBlindSignatureDLEQ(*s.DLEQ, ks.Keys[s.Amount], o.Msg.B_, s.C_) {
			w.viol("C10", "mint-signature-dleq-invalid", "%s: DLEQ of returned signature does not verify under published key (amount %d)", op, s.Amount)
		}
		t := w.Outs[w.outIdx[o.Msg.B_]]
		t.Signed, t.Sig = true, s
		ps, err := world.Unblind(cashu.BlindedSignatures{s}, []world.Out{o}, ks.Keys)
		if err != nil {
			w.viol("C10", "unblind-failed", "%s: %v", op, err)
			continue
		}
		r := hex.EncodeToString(o.R.Serialize())
		pd := ps[0]
		pd.DLEQ = &cashu.DLEQProof{E: s.DLEQ.E, S: s.DLEQ.S, R: r}
		if s.DLEQ != nil && !nut12.VerifyProofDLEQ(pd, ks.Keys[s.Amount]) {
			w.viol("C10", "proof-dleq-invalid", "%s: unblinded proof with r fails VerifyProofDLEQ (amount %d)", op, s.Amount)
		}
		idx = append(idx, len(w.Proofs))
		w.Proofs = append(w.Proofs, &TProof{P: ps[0], Y: world.Y(ps[0].Secret), KS: ks.Idx, Melt: -1})
	}
	return idx
}

// ---------- direct reads of the store (second connection, side-effect free) ----------

type Tables struct {
	Spent    map[string]string // Y -> witness
	SpentAmt map[string]uint64
	SpentKS  map[string]string
	Pending  map[string]string // Y -> melt quote id
	MintQ    map[string]string // id -> state
	MeltQ    map[string][2]string
	Sigs     map[string]cashu.BlindedSignature
	Keysets  []storage.DBKeyset
}

func (w *W) ReadTables() (*Tables, error) {
	db, err := sql.Open("sqlite3", "file:"+filepath.Join(w.M.Dir, "mint.sqlite.db")+"?mode=ro")
	if err != nil {
		return nil, err
	}
	defer db.Close()
	t := &Tables{Spent: map[string]string{}, SpentAmt: map[string]uint64{}, SpentKS: map[string]string{}, Pending: map[string]string{}, MintQ: map[string]string{}, MeltQ: map[string][2]string{}, Sigs: map[string]cashu.BlindedSignature{}}
	q := func(query string, f func(r *sql.Rows) error) error {
		rows, err := db.Query(query)
		if err != nil {
			return err
		}
		defer rows.Close()
		for rows.Next() {
			if err := f(rows); err != nil {
				return err
			}
		}
		return rows.Err()
	}
	if err := q("SELECT y, amount, keyset_id, witness FROM proofs", func(r *sql.Rows) error {
		var y, ks string
		var a uint64
		var wit sql.NullString
		if err := r.Scan(&y, &a, &ks, &wit); err != nil {
			return err
		}
		t.Spent[y], t.SpentAmt[y], t.SpentKS[y] = wit.String, a, ks
		return nil
	}); err != nil {
		return nil, err
	}
	if err := q("SELECT y, melt_quote_id FROM pending_proofs", func(r *sql.Rows) error {
		var y, m string
		if err := r.Scan(&y, &m); err != nil {
			return err
		}
		t.Pending[y] = m
		return nil
	}); err != nil {
		return nil, err
	}
	if err := q("SELECT id, state FROM mint_quotes", func(r *sql.Rows) error {
		var id, s string
		if err := r.Scan(&id, &s); err != nil {
			return err
		}
		t.MintQ[id] = s
		return nil
	}); err != nil {
		return nil, err
	}
	if err := q("SELECT id, state, preimage FROM melt_quotes", func(r *sql.Rows) error {
		var id, s string
		var pre sql.NullString
		if err := r.Scan(&id, &s, &pre); err != nil {
			return err
		}
		t.MeltQ[id] = [2]string{s, pre.String}
		return nil
	}); err != nil {
		return nil, err
	}
	if err := q("SELECT b_, c_, keyset_id, amount, e, s FROM blind_signatures", func(r *sql.Rows) error {
		var b, c, ks string
		var a uint64
		var e, s sql.NullString
		if err := r.Scan(&b, &c, &ks, &a, &e, &s); err != nil {
			return err
		}
		sig := cashu.BlindedSignature{Amount: a, C_: c, Id: ks}
		if e.Valid && s.Valid {
			sig.DLEQ = &cashu.DLEQProof{E: e.String, S: s.String}
		}
		t.Sigs[b] = sig
		return nil
	}); err != nil {
		return nil, err
	}
	if err := q("SELECT id, unit, active, seed, derivation_path_idx, input_fee_ppk FROM keysets", func(r *sql.Rows) error {
		var k storage.DBKeyset
		if err := r.Scan(&k.Id, &k.Unit, &k.Active, &k.Seed, &k.DerivationPathIdx, &k.InputFeePpk); err != nil {
			return err
		}
		t.Keysets = append(t.Keysets, k)
		return nil
	}); err != nil {
		return nil, err
	}
	sort.Slice(t.Keysets, func(i, j int) bool { return t.Keysets[i].DerivationPathIdx < t.Keysets[j].DerivationPathIdx })
	return t, nil
}

var stName = [...]string{"UNSPENT", "PENDING", "SPENT"}

// meltExpect returns the expected (quote state, input state) for a melt by what the mint has been told.
func meltExpect(known string) (string, int) {
	switch known {
	case "none":
		return "PENDING", Pending
	case "success":
		return "PAID", Spent
	case "failure":
		return "UNPAID", Unspent
	}
	return "UNPAID", Unspent
}

// Invariants compares the store with the model (C01, C03, C05, C15, C16, C02). Side-effect free.
func (w *W) Invariants() {
	w.SyncPayments()
	t, err := w.ReadTables()
	if err != nil {
		w.viol("HARNESS", "read-tables", "%v", err)
		return
	}
	// proofs
	for i, p := range w.Proofs {
		if w.Unc != nil && w.Unc.Proofs[i] {
			continue
		}
		real := Unspent
		if _, ok := t.Spent[p.Y]; ok {
			real = Spent
			if _, ok2 := t.Pending[p.Y]; ok2 {
				w.viol("C15", "proof-both-spent-and-pending", "p%d is in the spent and in the pending table", i)
			}
		} else if _, ok := t.Pending[p.Y]; ok {
			real = Pending
		}
		if real != p.St {
			prop, key := "C15", "store-state-differs-from-model"
			switch {
			case p.St == Spent && real != Spent:
				prop, key = "C01,C15", "spent-proof-not-spent-in-store"
			case p.St == Pending || real == Pending:
				prop, key = "C05,C15", "melt-input-state-not-following-outcome"
			case p.St == Unspent && real == Spent:
				prop, key = "C06,C15", "proof-spent-without-accepted-operation"
			}
			w.viol(prop, key+fmt.Sprintf("/model=%s/store=%s", stName[p.St], stName[real]), "p%d: model %s, store %s", i, stName[p.St], stName[real])
		}
	}
	// melt quotes
	for i, m := range w.Melts {
		if w.Unc != nil && w.Unc.Melts[i] {
			continue
		}
		st, ok := t.MeltQ[m.Q.Id]
		if !ok {
			w.viol("C15", "melt-quote-missing", "mq%d missing from store", i)
			continue
		}
		exp, _ := meltExpect(m.Known)
		if st[0] != exp {
			w.viol("C05", fmt.Sprintf("melt-quote-state/known=%s/store=%s", orNone(m.Known), st[0]), "mq%d: backend outcome known to mint=%q expects %s, store has %s", i, m.Known, exp, st[0])
		}
		if m.Known == "success" && !m.Partial && st[1] != m.Preimage {
			w.viol("C05", "paid-melt-preimage", "mq%d: PAID with preimage %q, backend preimage %q", i, st[1], m.Preimage)
		}
	}
	// mint quotes: ISSUED iff successes == payments >= 1; never more successes than payments
	for i, q := range w.Quotes {
		if q.Successes > q.Payments {
			w.viol("C03", "issued-more-often-than-paid", "q%d: %d successful mints for %d payments", i, q.Successes, q.Payments)
		}
		if q.Issued > q.Q.Amount*uint64(max(q.Payments, 0)) {
			w.viol("C03", "issued-over-quote-amount", "q%d: issued %d for amount %d × %d payments", i, q.Issued, q.Q.Amount, q.Payments)
		}
	}
	// signatures: store has exactly the signatures handed out (C15) and sums match (C16)
	issued := map[string]*big.Int{}
	for _, o := range w.Outs {
		if w.Unc != nil && w.Unc.Outs[o.O.Msg.B_] {
			continue
		}
		sig, ok := t.Sigs[o.O.Msg.B_]
		if o.Signed {
			if !ok {
				w.viol("C15", "signature-handed-out-not-stored", "signed output %s (amount %d) has no blind_signatures row", short(o.O.Msg.B_), o.Sig.Amount)
			} else if sig.Amount != o.Sig.Amount || sig.C_ != o.Sig.C_ || sig.Id != o.Sig.Id || sig.DLEQ == nil || o.Sig.DLEQ == nil || sig.DLEQ.E != o.Sig.DLEQ.E || sig.DLEQ.S != o.Sig.DLEQ.S {
				w.viol("C15", "stored-signature-differs", "stored signature for %s differs from the one returned", short(o.O.Msg.B_))
			}
			if issued[o.Sig.Id] == nil {
				issued[o.Sig.Id] = new(big.Int)
			}
			issued[o.Sig.Id].Add(issued[o.Sig.Id], new(big.Int).SetUint64(o.Sig.Amount))
		} else if ok {
			w.viol("C15", "signature-stored-never-returned", "output %s was never answered with a signature but has a blind_signatures row", short(o.O.Msg.B_))
		}
	}
	redeemed := map[string]*big.Int{}
	for _, p := range w.Proofs {
		if p.St == Spent {
			if redeemed[p.P.Id] == nil {
				redeemed[p.P.Id] = new(big.Int)
			}
			redeemed[p.P.Id].Add(redeemed[p.P.Id], new(big.Int).SetUint64(p.P.Amount))
		}
	}
	gotI, err1 := w.M.M.IssuedEcash()
	gotR, err2 := w.M.M.RedeemedEcash()
	if w.Unc != nil {
		// totals depend on the interrupted operation: skipped in the durability pass
	} else if err1 != nil || err2 != nil {
		w.viol("C16", "balance-query-error", "IssuedEcash/RedeemedEcash error: %v %v", err1, err2)
	} else {
		cmpSums := func(name string, got map[string]uint64, exp map[string]*big.Int) {
			for id, e := range exp {
				if new(big.Int).SetUint64(got[id]).Cmp(e) != 0 {
					w.viol("C16", name+"-differs-from-model", "%s[%s] = %d, model sum %s", name, id, got[id], e)
				}
			}
			for id, g := range got {
				if exp[id] == nil && g != 0 {
					w.viol("C16", name+"-differs-from-model", "%s[%s] = %d, model has nothing", name, id, g)
				}
			}
		}
		cmpSums("issued", gotI, issued)
		cmpSums("redeemed", gotR, redeemed)
		ti, tr := new(big.Int), new(big.Int)
		for _, v := range issued {
			ti.Add(ti, v)
		}
		for _, v := range redeemed {
			tr.Add(tr, v)
		}
		bal, err := w.M.M.TotalBalance()
		if err != nil {
			w.viol("C16", "balance-query-error", "TotalBalance: %v", err)
		} else {
			diff := new(big.Int).Sub(ti, tr)
			if diff.Sign() < 0 || new(big.Int).SetUint64(bal).Cmp(diff) != 0 {
				w.viol("C16", "total-balance-differs", "TotalBalance()=%d, issued-redeemed=%s", bal, diff)
			}
		}
		// C02 conservation: outstanding + locked + LN out (incl. whole fee limit) <= LN in + internal settlements
		// (evaluated in msat: invoices need not be whole sats)
		thousand := big.NewInt(1000)
		outstanding := new(big.Int).Sub(ti, tr) // unspent + pending-locked value signed by the mint
		// ... by the mint's own books too: a signature that sits in the store is obtainable through restore whether or not
		// the request it was made for succeeded, so it is outstanding ecash
		si, sr := new(big.Int), new(big.Int)
		for _, v := range gotI {
			si.Add(si, new(big.Int).SetUint64(v))
		}
		for _, v := range gotR {
			sr.Add(sr, new(big.Int).SetUint64(v))
		}
		if so := new(big.Int).Sub(si, sr); so.Cmp(outstanding) > 0 {
			outstanding = so
		}
		outstanding.Mul(outstanding, thousand)
		so, inflight := w.LN.SumOutMsat("a")
		lhs := new(big.Int).Add(outstanding, new(big.Int).SetUint64(so))
		// value locked in pending melts is still counted in `outstanding` and is also (amount+feeLimit) in flight;
		// count the in-flight payment only for what exceeds the locked inputs
		locked := new(big.Int)
		for _, p := range w.Proofs {
			if p.St == Pending {
				locked.Add(locked, new(big.Int).SetUint64(p.P.Amount))
			}
		}
		locked.Mul(locked, thousand)
		infl := new(big.Int).SetUint64(inflight)
		if infl.Cmp(locked) > 0 {
			lhs.Add(lhs, new(big.Int).Sub(infl, locked))
		}
		rhs := new(big.Int).SetUint64(w.LN.SumIn("a"))
		rhs.Add(rhs, new(big.Int).SetUint64(w.InternalSettled))
		rhs.Mul(rhs, thousand)
		if lhs.Cmp(rhs) > 0 {
			w.viol("C02", "conservation", "outstanding %s msat + Lightning out %d msat incl. fee limits (+ in-flight beyond locked) = %s msat exceeds Lightning in + internal settlements %s msat", outstanding, so, lhs, rhs)
		}
	}
	// keysets (C09): exactly one active, every seen keyset still listed identically
	act := 0
	for _, k := range t.Keysets {
		if k.Active {
			act++
		}
	}
	if act != 1 {
		w.viol("C09", "active-keyset-count", "%d active keysets in the store", act)
	}
}

func orNone(s string) string {
	if s == "" {
		return "untouched"
	}
	return s
}

func short(s string) string {
	if len(s) > 12 {
		return s[:12]
	}
	return s
}

// Canon renders the property-relevant state with identifiers replaced by creation indices.
func (w *W) Canon() string {
	t, err := w.ReadTables()
	if err != nil {
		return "ERR " + err.Error()
	}
	var sb strings.Builder
	if w.HRestores > 0 {
		// the handler instance has answered the fixed restore batch before (it may remember): how many of the batch
		// were signed then is what a stale answer would show
		fmt.Fprintf(&sb, "HR%d/%d;", w.HRestores, w.hrestoreSignedThen)
	}
	for _, k := range w.Keysets {
		fmt.Fprintf(&sb, "K%d:%d:%v;", k.Idx, k.Fee, k.Active)
	}
	meltIdx := map[string]int{}
	for i, m := range w.Melts {
		meltIdx[m.Q.Id] = i
	}
	for i, p := range w.Proofs {
		real := "U"
		if _, ok := t.Spent[p.Y]; ok {
			real = "S"
		} else if mq, ok := t.Pending[p.Y]; ok {
			real = fmt.Sprintf("P%d", meltIdx[mq])
		}
		// witness the proof was presented with (model) / stored with (spent table): the paths that mark a proof spent differ
		wit := ""
		if p.Wit != "" || t.Spent[p.Y] != "" {
			wit = "w"
		}
		if p.St == Pending && p.Melt >= 0 && p.Melt < len(w.Melts) && w.Melts[p.Melt].Wits[i] != "" {
			wit = "w"
		}
		fmt.Fprintf(&sb, "p%d:%d:k%d:%s:%s%s;", i, p.P.Amount, p.KS, real, stName[p.St][:1], wit)
	}
	for i, q := range w.Quotes {
		settled := false
		if inv := w.LN.Invoices[q.Q.PaymentHash]; inv != nil {
			settled = inv.Settled
		}
		lastSigned := 0
		for _, o := range q.LastOuts {
			if w.Outs[w.outIdx[o.Msg.B_]].Signed {
				lastSigned++
			}
		}
		fmt.Fprintf(&sb, "q%d:%d:%s:set=%v:pay=%d:suc=%d:key=%v:fired=%v:last=%d/%d;", i, q.Q.Amount, t.MintQ[q.Q.Id], settled, q.Payments, q.Successes, q.Key != nil, q.Fired, lastSigned, len(q.LastOuts))
	}
	for i, m := range w.Melts {
		st := t.MeltQ[m.Q.Id]
		pay := "-"
		if p := w.LN.Payments[m.Hash]; p != nil {
			pay = p.Status.String()
		}
		fmt.Fprintf(&sb, "m%d:%d+%d:%s:int=%d:known=%s:ln=%s;", i, m.Q.Amount, m.Q.FeeReserve, st[0], m.Internal, m.Known, pay)
	}
	ns := 0
	for _, o := range w.Outs {
		if o.Signed {
			ns++
		}
	}
	fmt.Fprintf(&sb, "outs=%d/%d", ns, len(w.Outs))
	if w.InfoReadWhileDisabled {
		sb.WriteString(";info-read-while-disabled")
	}
	return sb.String()
}

var bg = context.Background()
