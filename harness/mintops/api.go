package mintops

import (
	"bytes"
	"context"
	"encoding/hex"
	"encoding/json"
	"fmt"

	"github.com/decred/dcrd/dcrec/secp256k1/v4"
	"github.com/elnosh/gonuts/cashu"
	"github.com/elnosh/gonuts/cashu/nuts/nut04"
	"github.com/elnosh/gonuts/cashu/nuts/nut05"
	"github.com/elnosh/gonuts/cashu/nuts/nut07"
	"github.com/elnosh/gonuts/mint/storage"

	"verif/harness/world"
)

// api is what the operations of the op language need from the mint. Two bindings: the Go API of mint.Mint (default)
// and the HTTP handler of the mint server (Config.ViaHTTP): the same histories, oracles and probes then also exercise
// request decoding, the handlers' own logic (NUT-19 cache, error mapping) and response encoding.
type api interface {
	Swap(cashu.Proofs, cashu.BlindedMessages) (cashu.BlindedSignatures, error)
	MintTokens(nut04.PostMintBolt11Request) (cashu.BlindedSignatures, error)
	MeltTokens(context.Context, nut05.PostMeltBolt11Request) (storage.MeltQuote, error)
	RequestMintQuote(nut04.PostMintQuoteBolt11Request) (storage.MintQuote, error)
	RequestMeltQuote(nut05.PostMeltQuoteBolt11Request) (storage.MeltQuote, error)
	GetMintQuoteState(string) (storage.MintQuote, error)
	GetMeltQuoteState(context.Context, string) (storage.MeltQuote, error)
	ProofsStateCheck([]string) ([]nut07.ProofState, error)
}

func (w *W) api() api {
	if w.Cfg.ViaHTTP {
		return &httpAPI{w}
	}
	return w.M.M
}

type httpAPI struct{ w *W }

// post sends v as JSON with one extra, ignored member that makes every request body unique (two requests of the op
// language are never byte-identical, so none is answered from the NUT-19 cache; the cache has its own check, C20).
func (h *httpAPI) post(path string, v any, out any) error {
	b, _ := json.Marshal(v)
	var m map[string]any
	dec := json.NewDecoder(bytes.NewReader(b))
	dec.UseNumber()
	if err := dec.Decode(&m); err == nil {
		h.w.httpN++
		m["verif_n"] = h.w.httpN
		b, _ = json.Marshal(m)
	}
	return h.do("POST", path, string(b), out)
}

func (h *httpAPI) do(method, path, body string, out any) error {
	code, resp, pan := world.Do(h.w.M.H, method, path, body)
	if pan != nil {
		h.w.viol("C06", "handler-panic"+path, "%s %s panicked: %v", method, path, pan)
		return fmt.Errorf("handler panic: %v", pan)
	}
	if code != 200 {
		var ce cashu.Error
		if json.Unmarshal([]byte(resp), &ce) == nil && ce.Detail != "" {
			return &ce
		}
		return fmt.Errorf("status %d: %.200s", code, resp)
	}
	if err := json.Unmarshal([]byte(resp), out); err != nil {
		h.w.viol("C20", "undecodable-200-body"+path, "%s %s answered 200 with a body that does not decode: %v: %.200q", method, path, err, resp)
		return fmt.Errorf("undecodable body: %v", err)
	}
	return nil
}

func (h *httpAPI) Swap(ins cashu.Proofs, outs cashu.BlindedMessages) (cashu.BlindedSignatures, error) {
	var r struct {
		Signatures cashu.BlindedSignatures `json:"signatures"`
	}
	err := h.post("/v1/swap", map[string]any{"inputs": ins, "outputs": outs}, &r)
	return r.Signatures, err
}

func (h *httpAPI) MintTokens(req nut04.PostMintBolt11Request) (cashu.BlindedSignatures, error) {
	var r nut04.PostMintBolt11Response
	err := h.post("/v1/mint/bolt11", req, &r)
	return r.Signatures, err
}

func (h *httpAPI) hashOf(request string) string {
	for hh, inv := range h.w.LN.Invoices {
		if inv.Request == request {
			return hh
		}
	}
	// (a forged invoice carries the hash of the quote it was forged around: the op that made it passes the hash itself)
	return ""
}

func (h *httpAPI) meltQuote(r nut05.PostMeltQuoteBolt11Response, request string) storage.MeltQuote {
	if request == "" {
		request = r.Request
	}
	return storage.MeltQuote{Id: r.Quote, InvoiceRequest: request, PaymentHash: h.hashOf(request), Amount: r.Amount, FeeReserve: r.FeeReserve,
		State: r.State, Expiry: r.Expiry, Preimage: r.Preimage}
}

func (h *httpAPI) MeltTokens(_ context.Context, req nut05.PostMeltBolt11Request) (storage.MeltQuote, error) {
	var r nut05.PostMeltQuoteBolt11Response
	if err := h.post("/v1/melt/bolt11", req, &r); err != nil {
		return storage.MeltQuote{}, err
	}
	request := ""
	for _, m := range h.w.Melts {
		if m.Q.Id == req.Quote {
			request = m.Q.InvoiceRequest
		}
	}
	return h.meltQuote(r, request), nil
}

func (h *httpAPI) mintQuote(r nut04.PostMintQuoteBolt11Response) storage.MintQuote {
	q := storage.MintQuote{Id: r.Quote, Amount: r.Amount, PaymentRequest: r.Request, PaymentHash: h.hashOf(r.Request), State: r.State, Expiry: r.Expiry}
	if r.Pubkey != "" {
		if b, err := hex.DecodeString(r.Pubkey); err == nil {
			q.Pubkey, _ = secp256k1.ParsePubKey(b)
		}
	}
	return q
}

func (h *httpAPI) RequestMintQuote(req nut04.PostMintQuoteBolt11Request) (storage.MintQuote, error) {
	var r nut04.PostMintQuoteBolt11Response
	if err := h.post("/v1/mint/quote/bolt11", req, &r); err != nil {
		return storage.MintQuote{}, err
	}
	return h.mintQuote(r), nil
}

func (h *httpAPI) RequestMeltQuote(req nut05.PostMeltQuoteBolt11Request) (storage.MeltQuote, error) {
	var r nut05.PostMeltQuoteBolt11Response
	if err := h.post("/v1/melt/quote/bolt11", req, &r); err != nil {
		return storage.MeltQuote{}, err
	}
	q := h.meltQuote(r, req.Request)
	if mpp, ok := req.Options["mpp"]; ok {
		q.IsMpp, q.AmountMsat = true, mpp.AmountMsat
	}
	return q, nil
}

func (h *httpAPI) GetMintQuoteState(id string) (storage.MintQuote, error) {
	var r nut04.PostMintQuoteBolt11Response
	if err := h.do("GET", "/v1/mint/quote/bolt11/"+id, "\x00nobody", &r); err != nil {
		return storage.MintQuote{}, err
	}
	return h.mintQuote(r), nil
}

func (h *httpAPI) GetMeltQuoteState(_ context.Context, id string) (storage.MeltQuote, error) {
	var r nut05.PostMeltQuoteBolt11Response
	if err := h.do("GET", "/v1/melt/quote/bolt11/"+id, "\x00nobody", &r); err != nil {
		return storage.MeltQuote{}, err
	}
	request := ""
	for _, m := range h.w.Melts {
		if m.Q.Id == id {
			request = m.Q.InvoiceRequest
		}
	}
	return h.meltQuote(r, request), nil
}

func (h *httpAPI) ProofsStateCheck(ys []string) ([]nut07.ProofState, error) {
	var r nut07.PostCheckStateResponse
	err := h.post("/v1/checkstate", nut07.PostCheckStateRequest{Ys: ys}, &r)
	return r.States, err
}
