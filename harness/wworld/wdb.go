package wworld

import (
	"github.com/elnosh/gonuts/cashu"
	"github.com/elnosh/gonuts/crypto"
	"github.com/elnosh/gonuts/wallet/storage"
)

// WDB interposes on storage.WalletDB (hook H3): call log, crash points, observation of stored proofs.
type WDB struct {
	Inner storage.WalletDB
	// Before may panic (crash sentinel). Called with the method name.
	Before func(name string)
	// OnProofs observes every proof list written to or read from the store (C08 learns stored blinding factors).
	OnProofs func(ps cashu.Proofs)
	// Fail, if set, is asked before every method that can return an error; a non-nil answer is returned to the wallet
	// instead of performing the call (injected storage failure).
	Fail func(name string) error
	N    int
}

func (d *WDB) fail(name string) error {
	if d.Fail != nil {
		return d.Fail(name)
	}
	return nil
}

func (d *WDB) pre(name string) {
	d.N++
	if d.Before != nil {
		d.Before(name)
	}
}

func (d *WDB) seen(ps cashu.Proofs) {
	if d.OnProofs != nil && len(ps) > 0 {
		d.OnProofs(ps)
	}
}

func (d *WDB) seenDB(ps []storage.DBProof) {
	if d.OnProofs == nil {
		return
	}
	var l cashu.Proofs
	for _, p := range ps {
		l = append(l, cashu.Proof{Amount: p.Amount, Id: p.Id, Secret: p.Secret, C: p.C, DLEQ: p.DLEQ})
	}
	d.seen(l)
}

func (d *WDB) SaveMnemonicSeed(m string, s []byte) {
	d.pre("SaveMnemonicSeed")
	d.Inner.SaveMnemonicSeed(m, s)
}
func (d *WDB) GetSeed() []byte     { return d.Inner.GetSeed() }
func (d *WDB) GetMnemonic() string { return d.Inner.GetMnemonic() }
func (d *WDB) SaveProofs(p cashu.Proofs) error {
	d.pre("SaveProofs")
	if err := d.fail("SaveProofs"); err != nil {
		return err
	}
	d.seen(p)
	return d.Inner.SaveProofs(p)
}
func (d *WDB) GetProofs() cashu.Proofs {
	d.pre("GetProofs")
	r := d.Inner.GetProofs()
	d.seen(r)
	return r
}
func (d *WDB) GetProofsByKeysetId(id string) cashu.Proofs {
	d.pre("GetProofsByKeysetId")
	r := d.Inner.GetProofsByKeysetId(id)
	d.seen(r)
	return r
}
func (d *WDB) DeleteProof(s string) error {
	d.pre("DeleteProof")
	if err := d.fail("DeleteProof"); err != nil {
		return err
	}
	return d.Inner.DeleteProof(s)
}
func (d *WDB) AddPendingProofs(p cashu.Proofs) error {
	d.pre("AddPendingProofs")
	if err := d.fail("AddPendingProofs"); err != nil {
		return err
	}
	d.seen(p)
	return d.Inner.AddPendingProofs(p)
}
func (d *WDB) AddPendingProofsByQuoteId(p cashu.Proofs, q string) error {
	d.pre("AddPendingProofsByQuoteId")
	if err := d.fail("AddPendingProofsByQuoteId"); err != nil {
		return err
	}
	d.seen(p)
	return d.Inner.AddPendingProofsByQuoteId(p, q)
}
func (d *WDB) GetPendingProofs() []storage.DBProof {
	d.pre("GetPendingProofs")
	r := d.Inner.GetPendingProofs()
	d.seenDB(r)
	return r
}
func (d *WDB) GetPendingProofsByQuoteId(q string) []storage.DBProof {
	d.pre("GetPendingProofsByQuoteId")
	r := d.Inner.GetPendingProofsByQuoteId(q)
	d.seenDB(r)
	return r
}
func (d *WDB) DeletePendingProofs(ys []string) error {
	d.pre("DeletePendingProofs")
	if err := d.fail("DeletePendingProofs"); err != nil {
		return err
	}
	return d.Inner.DeletePendingProofs(ys)
}
func (d *WDB) DeletePendingProofsByQuoteId(q string) error {
	d.pre("DeletePendingProofsByQuoteId")
	if err := d.fail("DeletePendingProofsByQuoteId"); err != nil {
		return err
	}
	return d.Inner.DeletePendingProofsByQuoteId(q)
}
func (d *WDB) SaveKeyset(k *crypto.WalletKeyset) error {
	d.pre("SaveKeyset")
	if err := d.fail("SaveKeyset"); err != nil {
		return err
	}
	return d.Inner.SaveKeyset(k)
}
func (d *WDB) GetKeysets() crypto.KeysetsMap { d.pre("GetKeysets"); return d.Inner.GetKeysets() }
func (d *WDB) GetKeyset(id string) *crypto.WalletKeyset {
	d.pre("GetKeyset")
	return d.Inner.GetKeyset(id)
}
func (d *WDB) IncrementKeysetCounter(id string, n uint32) error {
	d.pre("IncrementKeysetCounter")
	if err := d.fail("IncrementKeysetCounter"); err != nil {
		return err
	}
	return d.Inner.IncrementKeysetCounter(id, n)
}
func (d *WDB) GetKeysetCounter(id string) uint32 {
	d.pre("GetKeysetCounter")
	return d.Inner.GetKeysetCounter(id)
}
func (d *WDB) UpdateKeysetMintURL(o, n string) error {
	d.pre("UpdateKeysetMintURL")
	if err := d.fail("UpdateKeysetMintURL"); err != nil {
		return err
	}
	return d.Inner.UpdateKeysetMintURL(o, n)
}
func (d *WDB) SaveMintQuote(q storage.MintQuote) error {
	d.pre("SaveMintQuote")
	if err := d.fail("SaveMintQuote"); err != nil {
		return err
	}
	return d.Inner.SaveMintQuote(q)
}
func (d *WDB) GetMintQuotes() []storage.MintQuote {
	d.pre("GetMintQuotes")
	return d.Inner.GetMintQuotes()
}
func (d *WDB) GetMintQuoteById(id string) *storage.MintQuote {
	d.pre("GetMintQuoteById")
	return d.Inner.GetMintQuoteById(id)
}
func (d *WDB) SaveMeltQuote(q storage.MeltQuote) error {
	d.pre("SaveMeltQuote")
	if err := d.fail("SaveMeltQuote"); err != nil {
		return err
	}
	return d.Inner.SaveMeltQuote(q)
}
func (d *WDB) GetMeltQuotes() []storage.MeltQuote {
	d.pre("GetMeltQuotes")
	return d.Inner.GetMeltQuotes()
}
func (d *WDB) GetMeltQuoteById(id string) *storage.MeltQuote {
	d.pre("GetMeltQuoteById")
	return d.Inner.GetMeltQuoteById(id)
}
func (d *WDB) Close() error { return d.Inner.Close() }

var _ storage.WalletDB = (*WDB)(nil)
