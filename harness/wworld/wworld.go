package wworld

import (
	"database/sql"
	"encoding/hex"
	"encoding/json"
	"fmt"
	"os"
	"path/filepath"
	"sort"
	"strconv"
	"strings"

	"github.com/decred/dcrd/dcrec/secp256k1/v4"
	"github.com/elnosh/gonuts/cashu"
	"github.com/elnosh/gonuts/cashu/nuts/nut04"
	"github.com/elnosh/gonuts/cashu/nuts/nut05"
	"github.com/elnosh/gonuts/cashu/nuts/nut10"
	"github.com/elnosh/gonuts/cashu/nuts/nut11"
	"github.com/elnosh/gonuts/cashu/nuts/nut12"
	"github.com/elnosh/gonuts/mint"
	"github.com/elnosh/gonuts/wallet"
	"github.com/elnosh/gonuts/wallet/storage"
	_ "github.com/mattn/go-sqlite3"
	"github.com/tyler-smith/go-bip39"

	"verif/harness/lnmodel"
	"verif/harness/rt"
	"verif/harness/world"
)

var Mnemonics = []string{
	"abandon abandon abandon abandon abandon abandon abandon abandon abandon abandon abandon about",
	"legal winner thank year wave sausage worth useful legal winner thank yellow",
	"letter advice cage absurd amount doctor acoustic avoid letter advice cage above",
	"zoo zoo zoo zoo zoo zoo zoo zoo zoo zoo zoo wrong",
}

type WalletW struct {
	Name     string
	Idx      int
	Dir      string
	Mnemonic string
	Default  string // mint name
	W        *wallet.Wallet
	DB       *WDB
	// HandedOut: secrets of proofs returned by Send (plain, unlocked) — they must be in pending until reconciled
	HandedOut map[string]bool
	// MeltInputs: secrets submitted as melt inputs (from the transport log)
	MeltInputs map[string]bool
	Melts      []WMelt
	Gen        int // number of times this wallet was re-created by restore
}

type WMelt struct {
	Quote  string
	Mint   string
	Hash   string
	Amount uint64
}

type Token struct {
	Proofs   cashu.Proofs
	Mint     string // mint name
	From     int
	Kind     string // plain | p2pk | htlc
	To       int    // for p2pk
	Preimage string
	Fees     bool
	Amount   uint64 // requested amount
	SigAll   bool   // P2PK lock carries the SIG_ALL flag
}

type Config struct {
	FeeA, FeeB uint
	TwoMints   bool
	Wallets    []WalletCfg
}

type WalletCfg struct {
	Default string // "a" | "b"
}

type World struct {
	Dir      string
	Cfg      Config
	LN       *lnmodel.LN
	Mints    map[string]*world.MintW
	Wallets  []*WalletW
	Tokens   []*Token
	V        []rt.Violation
	Outcomes map[string]int
	Obs      []string
	R        *Router
	// OnLoadWallet is applied to every wallet store wrapper (crash hooks, observers)
	OnLoadWallet func(w *WalletW)
	// OnTokens observes proofs returned to the wallet's caller (Send*, HTLC)
	OnTokens func(ps cashu.Proofs)
	// UntrustedSwaps: ranges [from, to) of the transport log made by a receive-with-swap-to-trusted of a token whose
	// mint the wallet did not trust at that time (outputs derived for a keyset the wallet keeps no record of)
	UntrustedSwaps [][2]int
	rotations      map[string]int
	logPos         int
	feePos         int
	giver          *world.User
}

func URL(mintName string) string { return "http://mint-" + mintName }

func New(dir string, cfg Config) (*World, error) {
	theRouter.Reset()
	w := &World{Dir: dir, Cfg: cfg, LN: lnmodel.New(), Mints: map[string]*world.MintW{}, Outcomes: map[string]int{}, R: theRouter, rotations: map[string]int{}}
	names := []string{"a"}
	if cfg.TwoMints {
		names = append(names, "b")
	}
	for _, n := range names {
		fee := cfg.FeeA
		if n == "b" {
			fee = cfg.FeeB
		}
		m, err := world.NewMint(world.Cfg{Name: n, Dir: filepath.Join(dir, "mint-"+n), FeePpk: fee, Limits: mint.MintLimits{}}, w.LN)
		if err != nil {
			return nil, err
		}
		w.Mints[n] = m
		theRouter.Handlers["mint-"+n] = m.H
	}
	for i, wc := range cfg.Wallets {
		ww := &WalletW{Name: fmt.Sprintf("W%d", i+1), Idx: i, Dir: filepath.Join(dir, fmt.Sprintf("wallet-%d", i+1)), Mnemonic: Mnemonics[i], Default: wc.Default,
			HandedOut: map[string]bool{}, MeltInputs: map[string]bool{}}
		w.Wallets = append(w.Wallets, ww)
		if err := w.SeedWallet(ww); err != nil {
			return nil, err
		}
		if err := w.LoadWallet(ww); err != nil {
			return nil, err
		}
	}
	return w, nil
}

func (w *World) SeedWallet(ww *WalletW) error {
	if err := os.MkdirAll(ww.Dir, 0o700); err != nil {
		return err
	}
	db, err := storage.InitBolt(ww.Dir)
	if err != nil {
		return err
	}
	db.SaveMnemonicSeed(ww.Mnemonic, bip39.NewSeed(ww.Mnemonic, ""))
	return db.Close()
}

func (w *World) LoadWallet(ww *WalletW) (err error) {
	defer func() {
		if r := recover(); r != nil {
			err = fmt.Errorf("LoadWallet panicked: %v", r)
		}
	}()
	w.R.Cur = ww.Name
	wl, err := wallet.LoadWallet(wallet.Config{WalletPath: ww.Dir, CurrentMintURL: URL(ww.Default)})
	if err != nil {
		return err
	}
	ww.W = wl
	wl.VerifWrapDB(func(in storage.WalletDB) storage.WalletDB {
		ww.DB = &WDB{Inner: in}
		return ww.DB
	})
	if w.OnLoadWallet != nil {
		w.OnLoadWallet(ww)
	}
	return nil
}

func (w *World) Close() {
	for _, ww := range w.Wallets {
		if ww.W != nil {
			ww.W.Shutdown()
			ww.W = nil
		}
	}
	for _, m := range w.Mints {
		m.Shutdown()
	}
}

func (w *World) viol(prop, key, format string, a ...any) {
	w.V = append(w.V, rt.Violation{Property: prop, Key: key, What: fmt.Sprintf(format, a...)})
}

func (w *World) Viol(prop, key, format string, a ...any) { w.viol(prop, key, format, a...) }

func (w *World) note(op string, err error) {
	kind := strings.SplitN(op, "|", 2)[0]
	res := "ok"
	if err != nil {
		res = "err"
	}
	w.Outcomes[kind+":"+res]++
	e := ""
	if err != nil {
		e = " (" + short(err.Error(), 80) + ")"
	}
	w.Obs = append(w.Obs, op+" -> "+res+e)
}

func short(s string, n int) string {
	if len(s) > n {
		return s[:n]
	}
	return s
}

// guard runs a wallet call under recover; a panic is a violation.
func (w *World) guard(op string, f func() error) (err error) {
	defer func() {
		if r := recover(); r != nil {
			if _, ok := r.(CrashSentinel); ok {
				panic(r)
			}
			w.viol("C17,C19", "wallet-panic/"+strings.SplitN(op, "|", 2)[0], "%s panicked: %v", op, r)
			err = fmt.Errorf("panic: %v", r)
		}
	}()
	return f()
}

// CrashSentinel is the panic value used to kill a wallet at a boundary call (C19).
type CrashSentinel struct{}

// publishedKey: the public key a mint publishes for (keyset, amount).
func (w *World) publishedKey(mint, id string, amount uint64) *secp256k1.PublicKey {
	m := w.Mints[mint]
	if m == nil {
		return nil
	}
	ks, err := m.M.GetKeysetById(id)
	if err != nil {
		return nil
	}
	return ks.Keys[amount]
}

// feeOfKeyset: input_fee_ppk of a keyset at whichever mint of the world has it.
func (w *World) feeOfKeyset(id string) uint {
	for _, m := range w.Mints {
		for _, k := range m.M.ListKeysets().Keysets {
			if k.Id == id {
				return k.InputFeePpk
			}
		}
	}
	return 0
}

func mintNameOfURL(u string) string { return strings.TrimPrefix(u, "http://mint-") }

func (w *World) findInvoice(request string) *lnmodel.Invoice {
	for _, inv := range w.LN.Invoices {
		if inv.Request == request {
			return inv
		}
	}
	return nil
}

func copyProofs(ps cashu.Proofs) cashu.Proofs {
	out := make(cashu.Proofs, len(ps))
	for i, p := range ps {
		out[i] = p
		if p.DLEQ != nil {
			d := *p.DLEQ
			out[i].DLEQ = &d
		}
	}
	return out
}

func (w *World) tokenOf(t *Token) cashu.Token {
	ps := copyProofs(t.Proofs)
	tok, err := cashu.NewTokenV4(ps, URL(t.Mint), cashu.Sat, true)
	if err != nil {
		tok, err = cashu.NewTokenV4(copyProofs(t.Proofs), URL(t.Mint), cashu.Sat, false)
		if err != nil {
			t3, _ := cashu.NewTokenV3(copyProofs(t.Proofs), URL(t.Mint), cashu.Sat, false)
			return t3
		}
	}
	return tok
}

const htlcPreimage = "aabbccddeeff00112233445566778899aabbccddeeff00112233445566778899"

// Exec runs one wallet-level operation.
//
//	mint|w|amount            RequestMint + user pays + MintTokens
//	send|w|amount|f          Send (f=1: include fees) -> token in flight
//	sendpk|w|to|amount[|A]   SendToPubkey(to's receive key; A: SIG_ALL) -> token in flight
//	htlc|w|amount            HTLCLockedProofs -> token in flight
//	recv|w|ti|s              Receive / ReceiveHTLC token ti (s=1: swap to trusted mint)
//	recvdup|w|ti|s           the same with a token that lists its first proof twice
//	melt|w|amount|S/F/P      RequestMeltQuote(external invoice) + Melt with the backend answering S / F(ailed) / P(ending)
//	lnfinal|w|mi|S/F         the backend settles / fails the pending payment of wallet w's melt mi
//	checkmelt|w|mi           CheckMeltQuoteState
//	reclaim|w  rmspent|w     ReclaimUnspentProofs / RemoveSpentProofs
//	addmint|w|m              AddMint
//	mintswap|w|amount|from|to|S/F  MintSwap with the Lightning payment succeeding / failing
//	rotate|m|fee             mint restart with keyset rotation
//	reload|w                 Shutdown + LoadWallet
//	restore|w                the wallet is lost; a new one is restored from the mnemonic into an empty directory
func (w *World) Exec(op string) error {
	f := strings.Split(op, "|")
	arg := func(i int) string {
		if i < len(f) {
			return f[i]
		}
		return ""
	}
	atoi := func(s string) int { n, _ := strconv.Atoi(s); return n }
	var ww *WalletW
	switch f[0] {
	case "rotate", "netfail":
	default:
		ww = w.Wallets[atoi(arg(1))]
		w.R.Cur = ww.Name
	}
	switch f[0] {
	case "give": // constructed content: the harness client mints proofs of these denominations and stores them in the wallet
		m := w.Mints[ww.Default]
		if w.giver == nil {
			w.giver = &world.User{Tag: "giver"}
		}
		var ps cashu.Proofs
		for _, ds := range strings.Split(arg(2), ",") {
			d := uint64(atoi(ds))
			q, err := m.MintQuote(d, "")
			if err != nil {
				return err
			}
			w.LN.Settle(q.PaymentHash)
			outs := w.giver.Outputs(m.ActiveID(), d)
			sigs, err := m.M.MintTokens(nut04.PostMintBolt11Request{Quote: q.Id, Outputs: world.Msgs(outs)})
			if err != nil {
				return err
			}
			pr, err := world.Unblind(sigs, outs, m.Keys(m.ActiveID()))
			if err != nil {
				return err
			}
			ps = append(ps, pr...)
		}
		if err := ww.DB.Inner.SaveProofs(ps); err != nil {
			return err
		}
	case "mint":
		amount := uint64(atoi(arg(2)))
		var err error
		err = w.guard(op, func() error {
			resp, err := ww.W.RequestMint(amount, URL(ww.Default))
			if err != nil {
				return err
			}
			inv := w.findInvoice(resp.Request)
			if inv == nil {
				return fmt.Errorf("harness: unknown invoice")
			}
			w.LN.Settle(inv.Hash)
			got, err := ww.W.MintTokens(resp.Quote)
			if err == nil && got != amount {
				w.viol("C17", "mint-amount", "MintTokens returned %d for a quote of %d", got, amount)
			}
			return err
		})
		w.note(op, err)
		if err != nil {
			w.viol("C17", "honest-mint-failed", "%s: %v", op, err)
		}
	case "send":
		amount := uint64(atoi(arg(2)))
		fees := arg(3) == "1"
		var ps cashu.Proofs
		err := w.guard(op, func() error {
			var e error
			ps, e = ww.W.Send(amount, URL(ww.Default), fees)
			return e
		})
		w.note(op, err)
		if err == nil {
			for _, p := range ps {
				ww.HandedOut[p.Secret] = true
			}
			w.Tokens = append(w.Tokens, &Token{Proofs: copyProofs(ps), Mint: ww.Default, From: ww.Idx, Kind: "plain", Fees: fees, Amount: amount, To: -1})
			if w.OnTokens != nil {
				w.OnTokens(ps)
			}
		}
	case "sendpk":
		to := w.Wallets[atoi(arg(2))]
		amount := uint64(atoi(arg(3)))
		var ps cashu.Proofs
		err := w.guard(op, func() error {
			var e error
			var tags *nut11.P2PKTags
			if arg(4) == "A" { // SIG_ALL: the receiver has to sign the outputs of its swap as well
				tags = &nut11.P2PKTags{Sigflag: nut11.SIGALL}
			}
			ps, e = ww.W.SendToPubkey(amount, URL(ww.Default), to.W.GetReceivePubkey(), tags, false)
			return e
		})
		w.note(op, err)
		if err == nil {
			w.Tokens = append(w.Tokens, &Token{Proofs: copyProofs(ps), Mint: ww.Default, From: ww.Idx, Kind: "p2pk", To: to.Idx, Amount: amount, SigAll: arg(4) == "A"})
			if w.OnTokens != nil {
				w.OnTokens(ps)
			}
		}
	case "htlc":
		amount := uint64(atoi(arg(2)))
		var ps cashu.Proofs
		err := w.guard(op, func() error {
			var e error
			ps, e = ww.W.HTLCLockedProofs(amount, URL(ww.Default), htlcPreimage, nil, false)
			return e
		})
		w.note(op, err)
		if err == nil {
			w.Tokens = append(w.Tokens, &Token{Proofs: copyProofs(ps), Mint: ww.Default, From: ww.Idx, Kind: "htlc", Preimage: htlcPreimage, Amount: amount, To: -1})
			if w.OnTokens != nil {
				w.OnTokens(ps)
			}
		}
	case "recv", "recvdup":
		ti := atoi(arg(2))
		if ti >= len(w.Tokens) {
			return nil
		}
		t := w.Tokens[ti]
		tok := w.tokenOf(t)
		if arg(0) == "recvdup" && len(t.Proofs) > 0 {
			// the same token with its first proof listed once more at the end (a sloppy or hostile sender): the mint will
			// refuse the duplicate inputs, the token stays in flight; what the wallet puts on the wire is still observed
			dup := *t
			dup.Proofs = append(copyProofs(t.Proofs), copyProofs(t.Proofs[:1])...)
			tok = w.tokenOf(&dup)
		}
		before := ww.W.GetBalance()
		var got uint64
		trusted := false
		for _, u := range ww.W.TrustedMints() {
			if u == URL(t.Mint) {
				trusted = true
			}
		}
		logFrom := len(w.R.Log)
		defer func() {
			if arg(3) == "1" && !trusted {
				w.UntrustedSwaps = append(w.UntrustedSwaps, [2]int{logFrom, len(w.R.Log)})
			}
		}()
		err := w.guard(op, func() error {
			var e error
			if t.Kind == "htlc" {
				got, e = ww.W.ReceiveHTLC(tok, t.Preimage)
			} else {
				got, e = ww.W.Receive(tok, arg(3) == "1")
			}
			return e
		})
		w.note(op, err)
		if err != nil && strings.Contains(err.Error(), "invalid DLEQ") {
			// the receiving wallet says the token's DLEQ proofs are invalid: are they, under the keys the mint publishes
			// for each proof's own keyset?
			// judged on the proofs as the sending wallet handed them out (building the token must not change them)
			allValid := true
			for _, p := range t.Proofs {
				if p.DLEQ == nil {
					continue
				}
				K := w.publishedKey(t.Mint, p.Id, p.Amount)
				if K == nil || !nut12.VerifyProofDLEQ(p, K) {
					allValid = false
				}
			}
			if allValid {
				w.viol("C10,C18", "valid-dleq-refused-by-receiving-wallet", "%s failed with %q although every DLEQ proof of the token verifies under the published key of its keyset", op, err)
			}
		}
		if err == nil {
			w.Tokens = append(w.Tokens[:ti], w.Tokens[ti+1:]...)
			after := ww.W.GetBalance()
			// a plain token made by Send(amount, includeFees) and redeemed at its own mint nets the recipient exactly the amount
			if t.Kind == "plain" && t.Fees && trusted && t.Mint == ww.Default && got != t.Amount {
				w.viol("C18", "recipient-of-fee-including-token-nets-other-than-requested", "%s: the token was made by Send(%d, includeFees) but its recipient got %d", op, t.Amount, got)
			}
			if after-before != got {
				w.viol("C17", "receive-amount-differs-from-balance-change", "%s returned %d, balance rose by %d", op, got, after-before)
			}
		}
	case "melt":
		amount := uint64(atoi(arg(2)))
		inv := w.LN.NewExternalInvoice(amount)
		switch arg(3) {
		case "F":
			w.LN.PayScript[inv.Hash] = []lnmodel.Answer{lnmodel.Failed}
			w.LN.StatusScript[inv.Hash] = []lnmodel.Answer{lnmodel.Failed}
		case "P":
			w.LN.PayScript[inv.Hash] = []lnmodel.Answer{lnmodel.Pending}
		}
		err := w.guard(op, func() error {
			q, err := ww.W.RequestMeltQuote(inv.Request, URL(ww.Default))
			if err != nil {
				return err
			}
			ww.Melts = append(ww.Melts, WMelt{Quote: q.Quote, Mint: ww.Default, Hash: inv.Hash, Amount: amount})
			_, err = ww.W.Melt(q.Quote)
			return err
		})
		w.note(op, err)
	case "remelt": // Melt called again on an existing quote (e.g. a user retrying while the payment is in flight)
		mi := atoi(arg(2))
		if mi < len(ww.Melts) {
			err := w.guard(op, func() error { _, e := ww.W.Melt(ww.Melts[mi].Quote); return e })
			w.note(op, err)
		}
	case "lnfinal":
		mi := atoi(arg(2))
		if mi < len(ww.Melts) {
			if p := w.LN.Payments[ww.Melts[mi].Hash]; p != nil && p.Status == lnmodel.Pending {
				if arg(3) == "S" {
					p.Status = lnmodel.Succeeded
				} else {
					p.Status = lnmodel.Failed
				}
			}
		}
	case "checkmelt":
		mi := atoi(arg(2))
		if mi < len(ww.Melts) {
			var st *nut05.PostMeltQuoteBolt11Response
			err := w.guard(op, func() error { var e error; st, e = ww.W.CheckMeltQuoteState(ww.Melts[mi].Quote); return e })
			w.note(op, err)
			if err == nil && st != nil {
				// reconciled: once the wallet has been told the final outcome, nothing of that melt is pending any more
				left := ww.DB.Inner.GetPendingProofsByQuoteId(ww.Melts[mi].Quote)
				switch st.State.String() {
				case "PAID":
					if len(left) > 0 {
						w.viol("C17", "check-melt-paid-left-inputs-pending", "%s was told PAID but %d input(s) of that melt are still counted as pending (they are spent at the mint)", op, len(left))
					}
				case "UNPAID":
					if len(left) > 0 {
						w.viol("C17", "check-melt-unpaid-left-inputs-pending", "%s was told UNPAID but %d input(s) of that melt are still pending instead of spendable again", op, len(left))
					}
				}
			}
		}
	case "reclaim":
		before := ww.W.GetBalance()
		var got uint64
		err := w.guard(op, func() error { var e error; got, e = ww.W.ReclaimUnspentProofs(); return e })
		w.note(op, err)
		if err == nil {
			if after := ww.W.GetBalance(); after-before != got {
				w.viol("C17", "reclaim-amount-differs-from-balance-change", "%s returned %d, balance rose by %d", op, got, after-before)
			}
			// reconciled: what is still pending and not locked in a melt is no longer unspent at the mint (a proof whose
			// whole value the input fee would eat cannot be reclaimed and may stay)
			var left uint64
			var n uint
			var ppk uint
			for _, p := range ww.DB.Inner.GetPendingProofs() {
				if p.MeltQuoteId == "" && w.mintStateOfSecret(p.Secret, p.Id) == "UNSPENT" {
					left += p.Amount
					n++
					ppk += w.feeOfKeyset(p.Id)
				}
			}
			if n > 0 && left > uint64((ppk+999)/1000) {
				w.viol("C17", "reclaim-left-unspent-proofs-pending", "%s succeeded (returned %d) but %d pending proof(s) worth %d that nobody redeemed are still pending", op, got, n, left)
			}
		}
	case "rmspent":
		err := w.guard(op, func() error { return ww.W.RemoveSpentProofs() })
		w.note(op, err)
		if err == nil {
			// every pending proof that is SPENT at its mint must be gone now
			for _, p := range ww.DB.Inner.GetPendingProofs() {
				if st := w.mintStateOfSecret(p.Secret, p.Id); st == "SPENT" {
					w.viol("C17", "remove-spent-left-spent-proof-pending", "%s: a pending proof of %d is SPENT at the mint and still counted as pending", op, p.Amount)
				}
			}
		}
	case "addmint":
		err := w.guard(op, func() error { _, e := ww.W.AddMint(URL(arg(2))); return e })
		w.note(op, err)
	case "mintswap":
		amount := uint64(atoi(arg(2)))
		if arg(5) == "F" {
			w.LN.DefaultPay = lnmodel.Failed
		}
		if arg(5) == "P" { // the payment between the two mints stays in flight
			w.LN.DefaultPay = lnmodel.Pending
		}
		err := w.guard(op, func() error { _, e := ww.W.MintSwap(amount, URL(arg(3)), URL(arg(4))); return e })
		w.LN.DefaultPay = lnmodel.Succeeded
		w.note(op, err)
	case "rotate":
		m := w.Mints[arg(1)]
		if err := m.Restart(true, uint(atoi(arg(2)))); err != nil {
			return err
		}
		w.R.Handlers["mint-"+arg(1)] = m.H
		w.rotations[arg(1)]++
	case "reload":
		ww.W.Shutdown()
		if err := w.LoadWallet(ww); err != nil {
			w.viol("C17", "wallet-does-not-load", "%s: %v", op, err)
			return fmt.Errorf("reload: %v", err)
		}
	case "netfail": // the next request to this path is lost on the wire (a transport error for the wallet)
		w.R.FailNext[arg(1)]++
	case "restorews":
		// the user types the backup words with a doubled blank and a trailing blank (bip39 accepts that spelling); from
		// now on this spelling IS the wallet's mnemonic as far as the harness' derivations are concerned
		ww.Mnemonic = strings.Replace(strings.TrimSpace(ww.Mnemonic), " ", "  ", 1) + " "
		if err := w.RestoreWallet(ww); err != nil {
			w.viol("C19", "restore-failed", "%s: %v", op, err)
			return nil
		}
	case "restore":
		if err := w.RestoreWallet(ww); err != nil {
			w.viol("C19", "restore-failed", "%s: %v", op, err)
			return fmt.Errorf("restore: %v", err)
		}
	default:
		return fmt.Errorf("unknown op %q", op)
	}
	w.absorbLog()
	return nil
}

// absorbLog learns from the transport log which secrets each wallet submitted as melt inputs.
func (w *World) absorbLog() {
	for ; w.logPos < len(w.R.Log); w.logPos++ {
		ex := w.R.Log[w.logPos]
		if ex.Method != "POST" || ex.Path != "/v1/melt/bolt11" {
			continue
		}
		var req struct {
			Inputs []struct {
				Secret string `json:"secret"`
			} `json:"inputs"`
		}
		if json.Unmarshal([]byte(ex.ReqBody), &req) != nil {
			continue
		}
		for _, ww := range w.Wallets {
			if ww.Name == ex.Wallet {
				for _, in := range req.Inputs {
					ww.MeltInputs[in.Secret] = true
				}
			}
		}
	}
}

// RestoreWallet replaces the wallet by one restored from its mnemonic into an empty directory.
func (w *World) RestoreWallet(ww *WalletW) (err error) {
	defer func() {
		if r := recover(); r != nil {
			err = fmt.Errorf("Restore panicked: %v", r)
		}
	}()
	if ww.W != nil {
		ww.W.Shutdown()
		ww.W = nil
	}
	ww.Gen++
	ww.Dir = filepath.Join(w.Dir, fmt.Sprintf("wallet-%d-r%d", ww.Idx+1, ww.Gen))
	var urls []string
	for _, n := range w.mintNames() {
		urls = append(urls, URL(n))
	}
	w.R.Cur = ww.Name
	if _, err := wallet.Restore(ww.Dir, ww.Mnemonic, urls); err != nil {
		return err
	}
	// proofs the lost wallet had handed out are not this instance's pending proofs
	ww.HandedOut = map[string]bool{}
	ww.MeltInputs = map[string]bool{}
	return w.LoadWallet(ww)
}

func (w *World) mintNames() []string {
	var n []string
	for k := range w.Mints {
		n = append(n, k)
	}
	sort.Strings(n)
	return n
}

// ---- mint-side truth, read directly from SQLite (side-effect free) ----

type MintTruth struct {
	Spent    map[string]bool // by Y
	Pending  map[string]bool
	Keysets  []string // ids by derivation index
	Issued   uint64
	Redeemed uint64
	Signed   map[string]uint64 // B_ -> amount
}

func (w *World) Truth(name string) (*MintTruth, error) {
	m := w.Mints[name]
	db, err := sql.Open("sqlite3", "file:"+filepath.Join(m.Dir, "mint.sqlite.db")+"?mode=ro")
	if err != nil {
		return nil, err
	}
	defer db.Close()
	t := &MintTruth{Spent: map[string]bool{}, Pending: map[string]bool{}, Signed: map[string]uint64{}}
	rows, err := db.Query("SELECT y, amount FROM proofs")
	if err != nil {
		return nil, err
	}
	for rows.Next() {
		var y string
		var a uint64
		rows.Scan(&y, &a)
		t.Spent[y] = true
		t.Redeemed += a
	}
	rows.Close()
	rows, err = db.Query("SELECT y FROM pending_proofs")
	if err != nil {
		return nil, err
	}
	for rows.Next() {
		var y string
		rows.Scan(&y)
		t.Pending[y] = true
	}
	rows.Close()
	rows, err = db.Query("SELECT b_, amount FROM blind_signatures")
	if err != nil {
		return nil, err
	}
	for rows.Next() {
		var b string
		var a uint64
		rows.Scan(&b, &a)
		t.Signed[b] = a
		t.Issued += a
	}
	rows.Close()
	rows, err = db.Query("SELECT id FROM keysets ORDER BY derivation_path_idx")
	if err != nil {
		return nil, err
	}
	for rows.Next() {
		var id string
		rows.Scan(&id)
		t.Keysets = append(t.Keysets, id)
	}
	rows.Close()
	return t, nil
}

func (w *World) mintOfKeyset(id string) string {
	for _, n := range w.mintNames() {
		for _, k := range w.Mints[n].M.ListKeysets().Keysets {
			if k.Id == id {
				return n
			}
		}
	}
	return ""
}

func (w *World) mintStateOfSecret(secret, keysetID string) string {
	n := w.mintOfKeyset(keysetID)
	if n == "" {
		return "?"
	}
	t, err := w.Truth(n)
	if err != nil {
		return "?"
	}
	y := world.Y(secret)
	if t.Spent[y] {
		return "SPENT"
	}
	if t.Pending[y] {
		return "PENDING"
	}
	return "UNSPENT"
}

// Invariants of C17: truthful balances, nothing counted twice, no value lost.
// auditFees judges every swap / melt the mints have accepted since the last call: what a wallet gives up beyond the
// outputs (and the melted amount + Lightning fee) must be exactly the mint's input fee ceil(sum ppk / 1000) — anything
// more is value that ends up in no wallet (C17 "no value is lost ... holdings plus melted amounts plus mint fees add up").
func (w *World) auditFees() {
	w.R.mu.Lock()
	log := append([]Exchange{}, w.R.Log[w.feePos:]...)
	w.feePos = len(w.R.Log)
	w.R.mu.Unlock()
	for _, ex := range log {
		if ex.Method != "POST" || ex.Status != 200 || (ex.Path != "/v1/swap" && ex.Path != "/v1/melt/bolt11") {
			continue
		}
		name := strings.TrimPrefix(ex.Host, "mint-")
		m := w.Mints[name]
		if m == nil {
			continue
		}
		feeOf := map[string]uint{}
		for _, k := range m.M.ListKeysets().Keysets {
			feeOf[k.Id] = k.InputFeePpk
		}
		var req struct {
			Inputs  cashu.Proofs          `json:"inputs"`
			Outputs cashu.BlindedMessages `json:"outputs"`
		}
		if json.Unmarshal([]byte(ex.ReqBody), &req) != nil {
			continue
		}
		var in, ppk uint64
		for _, p := range req.Inputs {
			in += p.Amount
			ppk += uint64(feeOf[p.Id])
		}
		fee := (ppk + 999) / 1000
		if ex.Path == "/v1/swap" {
			var out uint64
			for _, o := range req.Outputs {
				out += o.Amount
			}
			w.Outcomes["audited-swap"]++
			if in > out+fee {
				w.viol("C17", "swap-gives-up-more-than-the-fee", "%s swapped %d inputs worth %d at mint %s for outputs worth %d: the mint's fee for these inputs is %d, %d sat are lost", ex.Wallet, len(req.Inputs), in, name, out, fee, in-out-fee)
			}
			continue
		}
		var resp struct {
			Amount     uint64                  `json:"amount"`
			FeeReserve uint64                  `json:"fee_reserve"`
			State      string                  `json:"state"`
			Change     cashu.BlindedSignatures `json:"change"`
		}
		if json.Unmarshal([]byte(ex.RespBody), &resp) != nil || resp.State != "PAID" {
			continue
		}
		var change uint64
		for _, c := range resp.Change {
			change += c.Amount
		}
		w.Outcomes["audited-melt"]++
		// the Lightning model charges the whole fee reserve; internal settlements have reserve 0
		if in > resp.Amount+resp.FeeReserve+fee+change {
			w.viol("C17", "melt-gives-up-more-than-amount-and-fees", "%s melted %d inputs worth %d at mint %s for an invoice of %d + Lightning fee %d + input fee %d and got change %d: %d sat are lost", ex.Wallet, len(req.Inputs), in, name, resp.Amount, resp.FeeReserve, fee, change, in-resp.Amount-resp.FeeReserve-fee-change)
		}
	}
}

// CheckStoredDLEQ (C10): a proof a wallet holds with a DLEQ proof attached must be one a third party can verify: e, s AND the
// blinding factor r present, valid under the key the mint publishes for the proof's keyset and amount. Proofs without any
// DLEQ (restored wallets) are fine.
func (w *World) CheckStoredDLEQ() {
	for _, ww := range w.Wallets {
		if ww.W == nil {
			continue
		}
		for _, p := range ww.DB.Inner.GetProofs() {
			if p.DLEQ == nil {
				continue
			}
			if p.DLEQ.R == "" {
				w.viol("C10", "stored-proof-dleq-without-r", "%s holds a spendable proof of %d whose DLEQ proof has e and s but no blinding factor r: no third party can verify it", ww.Name, p.Amount)
				continue
			}
			ok := false
			for _, n := range w.mintNames() {
				if K := w.publishedKey(n, p.Id, p.Amount); K != nil && nut12.VerifyProofDLEQ(p, K) {
					ok = true
				}
			}
			if !ok {
				w.viol("C10", "stored-proof-dleq-invalid", "%s holds a spendable proof of %d whose DLEQ proof does not verify under the published key of its keyset", ww.Name, p.Amount)
			}
		}
	}
}

func (w *World) Invariants() {
	w.auditFees()
	truth := map[string]*MintTruth{}
	ksMint := map[string]string{}
	for _, n := range w.mintNames() {
		t, err := w.Truth(n)
		if err != nil {
			w.viol("HARNESS", "truth", "%v", err)
			return
		}
		truth[n] = t
		for _, k := range t.Keysets {
			ksMint[k] = n
		}
	}
	state := func(p cashu.Proof) (string, string) {
		n := ksMint[p.Id]
		if n == "" {
			return "", "?"
		}
		y := world.Y(p.Secret)
		if truth[n].Spent[y] {
			return n, "SPENT"
		}
		if truth[n].Pending[y] {
			return n, "PENDING"
		}
		return n, "UNSPENT"
	}
	// K: distinct not-spent secrets known to some wallet (spendable / pending) or token, per mint
	known := map[string]map[string]uint64{}
	for _, n := range w.mintNames() {
		known[n] = map[string]uint64{}
	}
	holder := map[string]string{} // secret -> who holds it as spendable
	for _, ww := range w.Wallets {
		if ww.W == nil {
			continue
		}
		var sum uint64
		spend := ww.DB.Inner.GetProofs()
		for _, p := range spend {
			sum += p.Amount
			n, st := state(p)
			if st != "UNSPENT" {
				w.viol("C17", "spendable-proof-not-unspent-at-mint/"+st, "%s counts a proof of %d as spendable that the mint reports %s", ww.Name, p.Amount, st)
			}
			if h, dup := holder[p.Secret]; dup {
				w.viol("C17", "secret-spendable-twice", "the same secret is spendable in %s and %s", h, ww.Name)
			}
			holder[p.Secret] = ww.Name
			if n != "" && st != "SPENT" {
				known[n][p.Secret] = p.Amount
			}
		}
		if b := ww.W.GetBalance(); b != sum {
			w.viol("C17", "balance-differs-from-stored-proofs", "%s: GetBalance()=%d, stored spendable proofs sum to %d", ww.Name, b, sum)
		}
		var byMint uint64
		for _, v := range ww.W.GetBalanceByMints() {
			byMint += v
		}
		if byMint != sum {
			w.viol("C17", "balance-by-mints-differs", "%s: sum of GetBalanceByMints()=%d, GetBalance()=%d", ww.Name, byMint, sum)
		}
		var psum uint64
		pend := ww.DB.Inner.GetPendingProofs()
		for _, p := range pend {
			psum += p.Amount
			if _, isSpendable := holder[p.Secret]; isSpendable && holder[p.Secret] == ww.Name {
				w.viol("C17", "proof-both-spendable-and-pending", "%s holds a proof of %d as spendable and as pending", ww.Name, p.Amount)
			}
			if !ww.HandedOut[p.Secret] && !ww.MeltInputs[p.Secret] {
				w.viol("C17", "pending-proof-never-handed-out", "%s counts a proof of %d as pending that it neither sent nor submitted to a melt", ww.Name, p.Amount)
			}
			n, st := state(cashu.Proof{Secret: p.Secret, Id: p.Id})
			if n != "" && st != "SPENT" {
				known[n][p.Secret] = p.Amount
			}
		}
		if pb := ww.W.PendingBalance(); pb != psum {
			w.viol("C17", "pending-balance-differs", "%s: PendingBalance()=%d, stored pending proofs sum to %d", ww.Name, pb, psum)
		}
		// every plain-sent proof that nobody redeemed yet must still be pending in the sender (unless reclaimed => spent)
		pset := map[string]bool{}
		for _, p := range pend {
			pset[p.Secret] = true
		}
		for _, t := range w.Tokens {
			if t.From == ww.Idx && t.Kind == "plain" && ww.Gen == 0 {
				for _, p := range t.Proofs {
					if _, st := state(p); st == "UNSPENT" && !pset[p.Secret] {
						w.viol("C17", "sent-proof-not-pending", "%s sent a proof of %d that is still unspent but does not count it as pending", ww.Name, p.Amount)
					}
				}
			}
		}
	}
	for _, t := range w.Tokens {
		for _, p := range t.Proofs {
			if h, ok := holder[p.Secret]; ok {
				w.viol("C17", "sent-proof-still-spendable", "a proof of %d handed out in a token is still spendable in %s", p.Amount, h)
			}
			if n, st := state(p); n != "" && st != "SPENT" {
				known[n][p.Secret] = p.Amount
			}
		}
	}
	// no value lost: everything unspent at the mint is known to a wallet or in a token
	for _, n := range w.mintNames() {
		var k uint64
		for _, a := range known[n] {
			k += a
		}
		out := truth[n].Issued - truth[n].Redeemed
		bal, err := w.Mints[n].M.TotalBalance()
		if err == nil && bal != out {
			w.viol("C16", "total-balance", "mint %s TotalBalance()=%d, tables say %d", n, bal, out)
		}
		if k < out {
			w.viol("C17", "value-lost", "mint %s has %d of unspent ecash outstanding but wallets (spendable + pending) and tokens in flight hold only %d: %d sat are in no wallet", n, out, k, out-k)
		} else if k > out {
			w.viol("C17", "holdings-exceed-outstanding", "wallets and tokens hold %d not-spent at mint %s which has only %d outstanding", k, n, out)
		}
	}
}

// Canon renders the wallet-level state with identifiers dropped.
func (w *World) Canon() string {
	var sb strings.Builder
	ksIdx := map[string]string{}
	for _, n := range w.mintNames() {
		t, err := w.Truth(n)
		if err != nil {
			return "ERR"
		}
		for i, k := range t.Keysets {
			ksIdx[k] = fmt.Sprintf("%s%d", n, i)
		}
		// the number of signatures a mint has stored is part of the state: two histories that leave the wallets alike
		// may differ in which deterministic outputs are already signed (and would be refused if submitted again)
		fmt.Fprintf(&sb, "M%s:ks=%d:out=%d:sigs=%d;", n, len(t.Keysets), t.Issued-t.Redeemed, len(t.Signed))
	}
	for _, p := range []string{"/v1/swap", "/v1/melt/bolt11", "/v1/mint/bolt11"} {
		if n := w.R.FailNext[p]; n > 0 {
			fmt.Fprintf(&sb, "NETFAIL%s=%d;", p, n)
		}
	}
	ms := func(ps []string) string { sort.Strings(ps); return strings.Join(ps, ",") }
	for _, ww := range w.Wallets {
		if ww.W == nil {
			sb.WriteString(ww.Name + ":closed;")
			continue
		}
		var sp, pe []string
		for _, p := range ww.DB.Inner.GetProofs() {
			d := ""
			if p.DLEQ != nil {
				d = "d"
			}
			sp = append(sp, fmt.Sprintf("%s:%d%s", ksIdx[p.Id], p.Amount, d))
		}
		for _, p := range ww.DB.Inner.GetPendingProofs() {
			q := ""
			if p.MeltQuoteId != "" {
				q = "q"
			}
			pe = append(pe, fmt.Sprintf("%s:%d%s:%s", ksIdx[p.Id], p.Amount, q, w.mintStateOfSecret(p.Secret, p.Id)[:1]))
		}
		var cs []string
		for _, mk := range ww.DB.Inner.GetKeysets() {
			for _, k := range mk {
				cs = append(cs, fmt.Sprintf("%s=%d%v", ksIdx[k.Id], k.Counter, k.Active))
			}
		}
		var mq []string
		for _, m := range ww.Melts {
			st := "-"
			if p := w.LN.Payments[m.Hash]; p != nil {
				st = p.Status.String()
			}
			wq := ""
			if q := ww.DB.Inner.GetMeltQuoteById(m.Quote); q != nil {
				wq = q.State.String()
			}
			mq = append(mq, st+"/"+wq)
		}
		fmt.Fprintf(&sb, "%s(g%d)[%s|%s|%s|%s|mints=%d];", ww.Name, ww.Gen, ms(sp), ms(pe), ms(cs), strings.Join(mq, ","), len(ww.W.TrustedMints()))
	}
	for _, t := range w.Tokens {
		var ps []string
		for _, p := range t.Proofs {
			ps = append(ps, fmt.Sprintf("%s:%d:%s", ksIdx[p.Id], p.Amount, w.mintStateOfSecret(p.Secret, p.Id)[:1]))
		}
		kind := t.Kind
		if t.SigAll {
			kind += "+SIG_ALL" // redeeming it takes other paths of the wallet
		}
		fmt.Fprintf(&sb, "T(%d>%d,%s)[%s];", t.From, t.To, kind, ms(ps))
	}
	return sb.String()
}

// IsNut10 reports the NUT-10 kind of a secret ("" if plain).
func IsNut10(secret string) string {
	s, err := nut10.DeserializeSecret(secret)
	if err != nil {
		return ""
	}
	return s.Kind.String()
}

func hexOf(b []byte) string { return hex.EncodeToString(b) }

// TokenOf serialises token ti the way the recv op does (for harnesses that call the wallet API directly).
func (w *World) TokenOf(ti int) cashu.Token { return w.tokenOf(w.Tokens[ti]) }

// RegisterSent records proofs a direct Send call returned, exactly as the send op does.
func (w *World) RegisterSent(ww *WalletW, ps cashu.Proofs, amount uint64, fees bool, kind string, to int) {
	if kind == "plain" {
		for _, p := range ps {
			ww.HandedOut[p.Secret] = true
		}
	}
	w.Tokens = append(w.Tokens, &Token{Proofs: copyProofs(ps), Mint: ww.Default, From: ww.Idx, Kind: kind, Fees: fees, Amount: amount, To: to})
}

// RemoveToken forgets a token that a direct Receive call redeemed.
func (w *World) RemoveToken(t *Token) {
	for i, x := range w.Tokens {
		if x == t {
			w.Tokens = append(w.Tokens[:i], w.Tokens[i+1:]...)
			return
		}
	}
}
