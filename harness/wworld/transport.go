// Package wworld is the wallet-level world: real wallets (bbolt on tmpfs) talking to real mints through an
// in-process http.RoundTripper that records every request and response.
package wworld

import (
	"bytes"
	"fmt"
	"io"
	"net/http"
	"net/http/httptest"
	"sync"
)

type Exchange struct {
	Wallet   string // wallet on whose behalf the harness was running when the request was made
	Method   string
	Host     string
	Path     string
	RawQuery string
	ReqBody  string
	Status   int
	RespBody string
}

// Router is installed as http.DefaultTransport (the wallet client uses http.Get / http.Post).
type Router struct {
	mu       sync.Mutex
	Handlers map[string]http.Handler
	Log      []Exchange
	Cur      string
	// Before is called before the request reaches the mint, After when the mint has answered but before the wallet
	// sees the response. Either may panic (crash sentinel) — crash points of the wallet (C19).
	Before func(ex *Exchange)
	After  func(ex *Exchange)
	// Monitor inspects every request (C08).
	Monitor func(ex *Exchange)
	// FailNext[path] > 0: the next request to that path gets a transport-level error (it never reaches the mint; the
	// request is still logged and monitored) and the count is decremented — a dropped connection
	FailNext map[string]int
}

var theRouter = &Router{Handlers: map[string]http.Handler{}}

func init() { http.DefaultTransport = theRouter }

func (r *Router) Reset() {
	r.mu.Lock()
	r.Handlers = map[string]http.Handler{}
	r.Log = nil
	r.Cur = ""
	r.Before, r.After, r.Monitor = nil, nil, nil
	r.FailNext = map[string]int{}
	r.mu.Unlock()
}

func (r *Router) RoundTrip(req *http.Request) (*http.Response, error) {
	r.mu.Lock()
	h := r.Handlers[req.URL.Host]
	cur := r.Cur
	r.mu.Unlock()
	if h == nil {
		return nil, fmt.Errorf("dial tcp: lookup %s: no such host", req.URL.Host)
	}
	var body []byte
	if req.Body != nil {
		body, _ = io.ReadAll(req.Body)
		req.Body.Close()
	}
	ex := &Exchange{Wallet: cur, Method: req.Method, Host: req.URL.Host, Path: req.URL.Path, RawQuery: req.URL.RawQuery, ReqBody: string(body)}
	if r.Monitor != nil {
		r.Monitor(ex)
	}
	if r.Before != nil {
		r.Before(ex)
	}
	r.mu.Lock()
	drop := r.FailNext[req.URL.Path] > 0
	if drop {
		r.FailNext[req.URL.Path]--
		ex.Status = -1
		ex.RespBody = "transport error injected"
		r.Log = append(r.Log, *ex)
	}
	r.mu.Unlock()
	if drop {
		return nil, fmt.Errorf("read tcp: connection reset by peer (injected)")
	}
	inner := httptest.NewRequest(req.Method, req.URL.String(), bytes.NewReader(body))
	for k, v := range req.Header {
		inner.Header[k] = v
	}
	rec := httptest.NewRecorder()
	func() {
		defer func() {
			if p := recover(); p != nil {
				// net/http would drop the connection: the client sees an error
				rec.Code = 0
				ex.RespBody = fmt.Sprintf("handler panic: %v", p)
			}
		}()
		h.ServeHTTP(rec, inner)
	}()
	ex.Status = rec.Code
	if ex.RespBody == "" {
		ex.RespBody = rec.Body.String()
	}
	r.mu.Lock()
	r.Log = append(r.Log, *ex)
	r.mu.Unlock()
	if rec.Code == 0 {
		return nil, fmt.Errorf("EOF (connection closed by the server)")
	}
	if r.After != nil {
		r.After(ex)
	}
	return rec.Result(), nil
}
