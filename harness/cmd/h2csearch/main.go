package main

import (
	"crypto/sha256"
	"encoding/binary"
	"fmt"

	"github.com/decred/dcrd/dcrec/secp256k1/v4"
)

func main() {
	dom := []byte("Secp256k1_HashToCurve_Cashu_")
	found := 0
	for i := 0; i < 40000000 && found < 12; i++ {
		msg := []byte(fmt.Sprintf("verif-h2c-%d", i))
		h := sha256.Sum256(append(append([]byte{}, dom...), msg...))
		for c := uint32(0); c < 1<<16; c++ {
			var cb [4]byte
			binary.LittleEndian.PutUint32(cb[:], c)
			hh := sha256.Sum256(append(append([]byte{}, h[:]...), cb[:]...))
			if _, err := secp256k1.ParsePubKey(append([]byte{0x02}, hh[:]...)); err == nil {
				if c >= 17 {
					fmt.Printf("%s %d\n", msg, c)
					found++
				}
				break
			}
		}
	}
}
