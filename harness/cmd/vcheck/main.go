package main

import (
	"encoding/json"
	"fmt"
	"os"
	"time"

	"verif/harness/props"
	"verif/harness/rt"
)

func main() {
	if len(os.Args) >= 3 && os.Args[1] == "--worker" {
		p, ok := props.Registry[os.Args[2]]
		if !ok || p.Worker == nil {
			fmt.Fprintln(os.Stderr, "no worker for", os.Args[2])
			os.Exit(3)
		}
		rt.WorkerLoop(func(job json.RawMessage) (any, error) { return p.Worker(job) })
		return
	}
	if len(os.Args) >= 3 && os.Args[1] == "--racepass" {
		// free-running pass of the E1 scenario bodies; meaningful in a binary built with -race (reports go to stderr)
		rt.ScratchRoot()
		n := props.RacePass(os.Args[2], 25)
		rt.Cleanup()
		fmt.Printf("racepass %s: %d free-running executions\n", os.Args[2], n)
		return
	}
	if len(os.Args) < 3 {
		fmt.Println("usage: vcheck <ID> <quick|thorough> | vcheck <ID> --replay <file>")
		os.Exit(2)
	}
	id := os.Args[1]
	p, ok := props.Registry[id]
	if !ok {
		fmt.Println("unknown property", id)
		os.Exit(2)
	}
	if os.Args[2] == "--replay" {
		if len(os.Args) < 4 || p.Replay == nil {
			fmt.Println("replay not available for", id)
			os.Exit(2)
		}
		rt.ScratchRoot()
		code := p.Replay(os.Args[3])
		rt.Cleanup()
		os.Exit(code)
	}
	tier := os.Args[2]
	if t := os.Getenv("VERIF_TIER"); t != "" && tier != "quick" && tier != "thorough" {
		tier = t
	}
	if tier != "quick" && tier != "thorough" {
		fmt.Println("tier must be quick or thorough")
		os.Exit(2)
	}
	ctx := rt.NewCtx(id, tier, p.Level)
	budget := p.QuickBudget
	if tier == "thorough" {
		budget = p.ThoroughBudget
	}
	if budget > 0 {
		ctx.Deadline = time.Now().Add(budget)
	}
	ctx.Pool = rt.NewPool(id)
	rt.ScratchRoot()
	p.Run(ctx)
	code := ctx.Finish()
	rt.Cleanup()
	os.Exit(code)
}
