// Package dbwrap interposes on storage.MintDB (hook H1): call log, schedule points,
// crash / error injection.
package dbwrap

import (
	"bytes"
	"encoding/json"
	"runtime"
	"strconv"
	"sync"

	"github.com/elnosh/gonuts/cashu"
	"github.com/elnosh/gonuts/cashu/nuts/nut04"
	"github.com/elnosh/gonuts/cashu/nuts/nut05"
	"github.com/elnosh/gonuts/mint/storage"
)

// GID returns the current goroutine id (harness-side only; used to tell harness threads from the
// mint's own background goroutines).
func GID() int64 {
	var buf [64]byte
	n := runtime.Stack(buf[:], false)
	b := buf[:n]
	b = bytes.TrimPrefix(b, []byte("goroutine "))
	i := bytes.IndexByte(b, ' ')
	id, _ := strconv.ParseInt(string(b[:i]), 10, 64)
	return id
}

type Call struct {
	Name string
	Args []any
	GID  int64
}

type DB struct {
	Inner storage.MintDB
	// Before is called at the entry of every method. A non-nil error is returned to the caller instead of
	// executing the call (error injection). It may panic (crash sentinel) or block (scheduler).
	Before func(c *Call) error
	// After is called when the inner call returned.
	After   func(c *Call, err error)
	mu      sync.Mutex
	N       int64           // number of calls that reached the store
	ByG     map[int64]int64 // the same per calling goroutine
	Log     []string
	KeepLog bool
	KeepRes bool
	Res     map[int64][]string // per goroutine: name|json(result)|error of every call it made (KeepRes)
}

func Wrap(inner storage.MintDB) *DB { return &DB{Inner: inner} }

func (d *DB) pre(name string, args ...any) (*Call, error) {
	c := &Call{Name: name, Args: args}
	if d.Before != nil {
		if err := d.Before(c); err != nil {
			return c, err
		}
	}
	g := GID()
	d.mu.Lock()
	d.N++
	if d.ByG == nil {
		d.ByG = map[int64]int64{}
	}
	d.ByG[g]++
	if d.KeepLog {
		d.Log = append(d.Log, name)
	}
	d.mu.Unlock()
	return c, nil
}

func (d *DB) post(c *Call, err error) { d.postR(c, nil, err) }

// postR also records, when KeepRes is set, what the calling goroutine got back from the store (E1's state key: a
// thread's local state is a function of the results it has observed).
func (d *DB) postR(c *Call, r any, err error) {
	if d.KeepRes {
		e := ""
		if err != nil {
			e = err.Error()
		}
		b, _ := json.Marshal(r)
		g := GID()
		d.mu.Lock()
		if d.Res == nil {
			d.Res = map[int64][]string{}
		}
		d.Res[g] = append(d.Res[g], c.Name+"|"+string(b)+"|"+e)
		d.mu.Unlock()
	}
	if d.After != nil {
		d.After(c, err)
	}
}

// ResultsOf returns the recorded results of goroutine g.
func (d *DB) ResultsOf(g int64) []string {
	d.mu.Lock()
	defer d.mu.Unlock()
	return append([]string(nil), d.Res[g]...)
}

func (d *DB) Calls() int64 { d.mu.Lock(); defer d.mu.Unlock(); return d.N }

// CallsByMe counts the store calls made by the calling goroutine.
func (d *DB) CallsByMe() int64 {
	g := GID()
	d.mu.Lock()
	defer d.mu.Unlock()
	return d.ByG[g]
}

func (d *DB) SaveSeed(a []byte) error {
	c, err := d.pre("SaveSeed")
	if err != nil {
		return err
	}
	err = d.Inner.SaveSeed(a)
	d.post(c, err)
	return err
}
func (d *DB) GetSeed() ([]byte, error) {
	c, err := d.pre("GetSeed")
	if err != nil {
		return nil, err
	}
	r, err := d.Inner.GetSeed()
	d.postR(c, r, err)
	return r, err
}
func (d *DB) SaveKeyset(a storage.DBKeyset) error {
	c, err := d.pre("SaveKeyset", a)
	if err != nil {
		return err
	}
	err = d.Inner.SaveKeyset(a)
	d.post(c, err)
	return err
}
func (d *DB) GetKeysets() ([]storage.DBKeyset, error) {
	c, err := d.pre("GetKeysets")
	if err != nil {
		return nil, err
	}
	r, err := d.Inner.GetKeysets()
	d.postR(c, r, err)
	return r, err
}
func (d *DB) UpdateKeysetActive(id string, active bool) error {
	c, err := d.pre("UpdateKeysetActive", id, active)
	if err != nil {
		return err
	}
	err = d.Inner.UpdateKeysetActive(id, active)
	d.post(c, err)
	return err
}
func (d *DB) SaveProofs(a cashu.Proofs) error {
	c, err := d.pre("SaveProofs", a)
	if err != nil {
		return err
	}
	err = d.Inner.SaveProofs(a)
	d.post(c, err)
	return err
}
func (d *DB) GetProofsUsed(Ys []string) ([]storage.DBProof, error) {
	c, err := d.pre("GetProofsUsed", Ys)
	if err != nil {
		return nil, err
	}
	r, err := d.Inner.GetProofsUsed(Ys)
	d.postR(c, r, err)
	return r, err
}
func (d *DB) AddPendingProofs(a cashu.Proofs, q string) error {
	c, err := d.pre("AddPendingProofs", a, q)
	if err != nil {
		return err
	}
	err = d.Inner.AddPendingProofs(a, q)
	d.post(c, err)
	return err
}
func (d *DB) GetPendingProofs(Ys []string) ([]storage.DBProof, error) {
	c, err := d.pre("GetPendingProofs", Ys)
	if err != nil {
		return nil, err
	}
	r, err := d.Inner.GetPendingProofs(Ys)
	d.postR(c, r, err)
	return r, err
}
func (d *DB) GetPendingProofsByQuote(q string) ([]storage.DBProof, error) {
	c, err := d.pre("GetPendingProofsByQuote", q)
	if err != nil {
		return nil, err
	}
	r, err := d.Inner.GetPendingProofsByQuote(q)
	d.postR(c, r, err)
	return r, err
}
func (d *DB) RemovePendingProofs(Ys []string) error {
	c, err := d.pre("RemovePendingProofs", Ys)
	if err != nil {
		return err
	}
	err = d.Inner.RemovePendingProofs(Ys)
	d.post(c, err)
	return err
}
func (d *DB) SaveMintQuote(a storage.MintQuote) error {
	c, err := d.pre("SaveMintQuote", a)
	if err != nil {
		return err
	}
	err = d.Inner.SaveMintQuote(a)
	d.post(c, err)
	return err
}
func (d *DB) GetMintQuote(a string) (storage.MintQuote, error) {
	c, err := d.pre("GetMintQuote", a)
	if err != nil {
		return storage.MintQuote{}, err
	}
	r, err := d.Inner.GetMintQuote(a)
	d.postR(c, r, err)
	return r, err
}
func (d *DB) GetMintQuoteByPaymentHash(a string) (storage.MintQuote, error) {
	c, err := d.pre("GetMintQuoteByPaymentHash", a)
	if err != nil {
		return storage.MintQuote{}, err
	}
	r, err := d.Inner.GetMintQuoteByPaymentHash(a)
	d.postR(c, r, err)
	return r, err
}
func (d *DB) UpdateMintQuoteState(q string, s nut04.State) error {
	c, err := d.pre("UpdateMintQuoteState", q, s)
	if err != nil {
		return err
	}
	err = d.Inner.UpdateMintQuoteState(q, s)
	d.post(c, err)
	return err
}
func (d *DB) SaveMeltQuote(a storage.MeltQuote) error {
	c, err := d.pre("SaveMeltQuote", a)
	if err != nil {
		return err
	}
	err = d.Inner.SaveMeltQuote(a)
	d.post(c, err)
	return err
}
func (d *DB) GetMeltQuote(a string) (storage.MeltQuote, error) {
	c, err := d.pre("GetMeltQuote", a)
	if err != nil {
		return storage.MeltQuote{}, err
	}
	r, err := d.Inner.GetMeltQuote(a)
	d.postR(c, r, err)
	return r, err
}
func (d *DB) GetMeltQuoteByPaymentRequest(a string) (*storage.MeltQuote, error) {
	c, err := d.pre("GetMeltQuoteByPaymentRequest", a)
	if err != nil {
		return nil, err
	}
	r, err := d.Inner.GetMeltQuoteByPaymentRequest(a)
	d.postR(c, r, err)
	return r, err
}
func (d *DB) UpdateMeltQuote(q, pre string, s nut05.State) error {
	c, err := d.pre("UpdateMeltQuote", q, pre, s)
	if err != nil {
		return err
	}
	err = d.Inner.UpdateMeltQuote(q, pre, s)
	d.post(c, err)
	return err
}
func (d *DB) SaveBlindSignatures(B_s []string, sigs cashu.BlindedSignatures) error {
	c, err := d.pre("SaveBlindSignatures", B_s, sigs)
	if err != nil {
		return err
	}
	err = d.Inner.SaveBlindSignatures(B_s, sigs)
	d.post(c, err)
	return err
}
func (d *DB) GetBlindSignature(a string) (cashu.BlindedSignature, error) {
	c, err := d.pre("GetBlindSignature", a)
	if err != nil {
		return cashu.BlindedSignature{}, err
	}
	r, err := d.Inner.GetBlindSignature(a)
	d.postR(c, r, err)
	return r, err
}
func (d *DB) GetBlindSignatures(a []string) (cashu.BlindedSignatures, error) {
	c, err := d.pre("GetBlindSignatures", a)
	if err != nil {
		return nil, err
	}
	r, err := d.Inner.GetBlindSignatures(a)
	d.postR(c, r, err)
	return r, err
}
func (d *DB) GetIssuedEcash() (map[string]uint64, error) {
	c, err := d.pre("GetIssuedEcash")
	if err != nil {
		return nil, err
	}
	r, err := d.Inner.GetIssuedEcash()
	d.postR(c, r, err)
	return r, err
}
func (d *DB) GetRedeemedEcash() (map[string]uint64, error) {
	c, err := d.pre("GetRedeemedEcash")
	if err != nil {
		return nil, err
	}
	r, err := d.Inner.GetRedeemedEcash()
	d.postR(c, r, err)
	return r, err
}
func (d *DB) Close() error { return d.Inner.Close() }

var _ storage.MintDB = (*DB)(nil)
