#!/bin/bash
# quick tier of every check in /verif against /repo (evidence to /verif/evidence); one line per check in $1
cd "$(dirname "$0")/.."
LOG=${1:-/dev/shm/finalquick.log}; shift
: > "$LOG"
for i in ${@:-01 02 03 04 05 06 07 08 09 10 11 12 13 14 15 16 17 18 19 20}; do
  s=$(date +%s); out=$(./check C$i quick 2>&1); c=$?; e=$(date +%s)
  echo "C$i exit=$c $((e-s))s $(echo "$out" | tail -1 | cut -c1-110)" >> "$LOG"
  if [ $c -ne 0 ]; then echo "$out" | grep -A2 "^VIOLATION\|HARNESS-ERROR" | cut -c1-500 | head -30 >> "$LOG"; fi
done
echo DONE >> "$LOG"
