#!/bin/bash
# runs the thorough tier of every check in /verif against /repo (evidence goes to /verif/evidence), cheapest first;
# one line per check in $1 (default /dev/shm/finalrun.log)
cd "$(dirname "$0")/.."
LOG=${1:-/dev/shm/finalrun.log}; shift
: > "$LOG"
for i in ${@:-11 14 04 12 13 09 20 03 06 16 02 05 07 10 01 15 17 19 18 08}; do
  s=$(date +%s); out=$(./check C$i thorough 2>&1); c=$?; e=$(date +%s)
  echo "C$i exit=$c $((e-s))s $(echo "$out" | tail -1 | cut -c1-110)" >> "$LOG"
  if [ $c -ne 0 ]; then echo "$out" | grep -A2 "^VIOLATION\|HARNESS-ERROR" | cut -c1-500 | head -30 >> "$LOG"; fi
done
echo DONE >> "$LOG"
