#!/usr/bin/env python3
"""Generates /verif/MANIFEST.json from tools/checks.json (one entry per claimed property) and validates it."""
import json, os, sys
root = os.path.dirname(os.path.dirname(os.path.abspath(__file__)))
checks_meta = json.load(open(os.path.join(root, "tools", "checks.json")))
props = [json.loads(l) for l in open(os.path.join(root, "properties.jsonl")) if l.strip()]
hooks_commits = checks_meta.get("hook_commits", [])
checks, na = [], []
for p in props:
    m = checks_meta["checks"].get(p["id"])
    if not m or m.get("not_applicable"):
        na.append({"property_id": p["id"], "reason": (m or {}).get("not_applicable", "check not built yet (work in progress; see DESIGN.md §4)")})
        continue
    checks.append({
        "property_id": p["id"],
        "quick_cmd": f"./check {p['id']} quick",
        "thorough_cmd": f"./check {p['id']} thorough",
        "evidence_file": f"/verif/evidence/{p['id']}.json",
        "replay_cmd_template": f"./check {p['id']} --replay {{path}}",
        "engine": m["engine"],
        "level_claimed": {"category": m["level"], "text": m["text"], "design_ref": m.get("design_ref", "DESIGN.md §4 " + p["id"])},
        "level_note": m["note"],
        "technique": m["technique"],
    })
man = {
    "version": 1,
    "setup_cmd": "./setup.sh",
    "hooks": {
        "guard": "verif",
        "enable": "go build -tags verif (the harness module replaces github.com/elnosh/gonuts by /repo and is always built with -tags verif)",
        "baseline_off_cmd": json.load(open("/root/.vp/BASELINE.json"))["cmd"],
        "source_commits": hooks_commits,
        "add_only": True,
    },
    "engines": checks_meta.get("engines", []),
    "checks": checks,
    "not_applicable": na,
    "notes": checks_meta.get("notes", ""),
}
json.dump(man, open(os.path.join(root, "MANIFEST.json"), "w"), indent=1)
try:
    import jsonschema
    jsonschema.validate(man, json.load(open("/root/.vp/MANIFEST.schema.json")))
    print("MANIFEST.json valid:", len(checks), "checks,", len(na), "not_applicable")
except ImportError:
    print("written (jsonschema not importable with this python; use python3-vt)")
