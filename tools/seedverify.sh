#!/bin/bash
# tools/seedverify.sh <PROP> <A|B> : verify a sub-agent's seeded change in a scratch worktree and file it under seeded/
# (applies, repo tests pass with it, demo fails with it and passes without), then remove the worktree.
set -uo pipefail
cd "$(dirname "$0")/.."
. ./env.sh
P=$1; V=$2; BASE=${3:-/tmp/seed}; SRC=$BASE/$P/out
# second-round changes are filed as C / D
OUTV=$V; if [ "$BASE" != "/tmp/seed" ]; then if [ "$V" = "A" ]; then OUTV=C; else OUTV=D; fi; fi
# third batch: E / F
if [ "$BASE" = "/tmp/seed3" ]; then if [ "$V" = "A" ]; then OUTV=E; else OUTV=F; fi; fi
if [ "$BASE" = "/tmp/seed4" ]; then if [ "$V" = "A" ]; then OUTV=G; else OUTV=H; fi; fi
if [ "$BASE" = "/tmp/seed5" ]; then if [ "$V" = "A" ]; then OUTV=I; else OUTV=J; fi; fi
if [ "$BASE" = "/tmp/seed6" ]; then if [ "$V" = "A" ]; then OUTV=K; else OUTV=L; fi; fi
if [ "$BASE" = "/tmp/seed7" ]; then if [ "$V" = "A" ]; then OUTV=M; else OUTV=N; fi; fi
if [ "$BASE" = "/tmp/seed8" ]; then if [ "$V" = "A" ]; then OUTV=O; else OUTV=P; fi; fi
WT=/tmp/sv-$P-$V
rm -rf $WT; git -C /repo worktree add -q $WT HEAD || exit 2
trap 'git -C /repo worktree remove --force '$WT' >/dev/null 2>&1' EXIT
demo=$SRC/${V}_demo_test.go
pkgdir=$(head -5 $demo | grep -o '[a-z/_0-9]*/' | head -1); 
# find the package directory from the 'package' clause + hint in the first comment line
hint=$(head -3 $demo | tr ' ' '\n' | grep -E '^(\./)?(mint|wallet|cashu|crypto)[a-z0-9/_]*/?$' | head -1)
[ -z "$hint" ] && hint=$(head -3 $demo | grep -oE '(mint|wallet|cashu|crypto)(/[a-z0-9_]+)*' | head -1)
dest=$WT/${hint%/}
echo "demo package dir: $dest"
run=$(grep -oE "\-run '?[A-Za-z0-9_|^$]+'?" $demo | head -1 | sed "s/-run //; s/'//g")
[ -z "$run" ] && run=TestDemo${V}
cp $demo $dest/${V}_demo_test.go
(cd $WT && go test -vet=off -count=1 -run "$run" ./${hint%/}/ > /tmp/sv-$P-$V-clean.log 2>&1); clean=$?
git -C $WT apply $SRC/$V.patch.diff || { echo "PATCH DOES NOT APPLY"; exit 1; }
(cd $WT && go build ./... ) || { echo "DOES NOT BUILD"; exit 1; }
(cd $WT && go test -vet=off -count=1 -run "$run" ./${hint%/}/ > /tmp/sv-$P-$V-mut.log 2>&1); mut=$?
rm $dest/${V}_demo_test.go
(cd $WT && go test -vet=off -count=1 ./... > /tmp/sv-$P-$V-suite.log 2>&1); suite=$?
echo "demo on clean tree: exit $clean (want 0); demo with change: exit $mut (want !=0); repo suite with change: exit $suite (want 0)"
if [ $clean -eq 0 ] && [ $mut -ne 0 ] && [ $suite -eq 0 ]; then
  d=seeded/$P-$OUTV; mkdir -p $d
  cp $SRC/$V.patch.diff $d/patch.diff; cp $demo $d/demo_test.go
  python3 - "$P" "$OUTV" "$d" "$run" "${hint%/}" "$SRC" <<'PY'
import json,sys,re
P,V,d,run,pkg,src=sys.argv[1:]
readme=open(f'{src}/README.md').read()
json.dump({"property":P,"variant":V,"origin":"independent sub-agent given only the property text and a scratch worktree",
 "demo":{"file":"demo_test.go","place_in":pkg,"run":f"go test -vet=off -count=1 -run '{run}' ./{pkg}/"},
 "verified":{"patch_applies_to_HEAD":True,"repo_suite_passes_with_change":True,"demo_fails_with_change":True,"demo_passes_without_change":True,
   "how":"tools/seedverify.sh in a scratch git worktree of /repo (removed afterwards)"},
 "needs_to_manifest":"see README.md excerpt","readme":readme[:6000]}, open(d+'/meta.json','w'), indent=1)
PY
  echo "FILED $d"
else
  echo "NOT KEPT"; tail -5 /tmp/sv-$P-$V-clean.log /tmp/sv-$P-$V-mut.log /tmp/sv-$P-$V-suite.log
fi
