#!/bin/bash
# runs every quick check N times and reports any non-zero exit / VIOLATION (flakiness hunt on the unchanged tree)
cd "$(dirname "$0")/.."
N=${1:-3}
for r in $(seq 1 $N); do for i in 01 02 03 04 05 06 07 08 09 10 11 12 13 14 15 16 17 18 19 20; do
  out=$(VERIF_EVIDENCE_DIR=/tmp/stress-ev ./check C$i quick 2>&1); c=$?
  if [ $c -ne 0 ] || echo "$out" | grep -q "^VIOLATION\|HARNESS-ERROR"; then echo "ROUND $r C$i exit=$c"; echo "$out" | grep -A2 "^VIOLATION\|HARNESS-ERROR" | cut -c1-400; fi
done; echo "round $r done"; done
