#!/bin/bash
# runs every thorough check once (evidence redirected), prints one line per check
cd "$(dirname "$0")/.."
mkdir -p /tmp/thorough-ev
for i in ${@:-01 02 03 04 05 06 07 09 10 11 12 13 14 15 16 17 19 20 18 08}; do
  s=$(date +%s); out=$(VERIF_EVIDENCE_DIR=/tmp/thorough-ev ./check C$i thorough 2>&1); c=$?; e=$(date +%s)
  echo "C$i exit=$c $((e-s))s $(echo "$out" | tail -1 | cut -c1-110)"
  if [ $c -ne 0 ]; then echo "$out" | grep -A2 "^VIOLATION\|HARNESS-ERROR" | cut -c1-500 | head -30; fi
done
