#!/usr/bin/env python3
"""One-off converter: mutations made as full-file overlay copies -> patch.diff against /repo (so they survive repo fixes)."""
import json, os, subprocess, sys, tempfile
root = os.path.dirname(os.path.dirname(os.path.abspath(__file__)))
mdir = os.path.join(root, "mutations")
for name in sorted(os.listdir(mdir)):
    d = os.path.join(mdir, name)
    ov = os.path.join(d, "overlay.json")
    if not os.path.exists(ov) or os.path.exists(os.path.join(d, "patch.diff")):
        continue
    rep = json.load(open(ov))["Replace"]
    patch = ""
    ok = True
    for target, src in rep.items():
        rel = os.path.relpath(target, "/repo")
        mutated = open(src).read()
        # find the revision of the file that the copy was made from (smallest diff)
        revs = subprocess.check_output(["git", "-C", "/repo", "log", "--format=%H", "--", rel]).decode().split()
        best = None
        for r in revs:
            base = subprocess.check_output(["git", "-C", "/repo", "show", f"{r}:{rel}"]).decode()
            with tempfile.NamedTemporaryFile("w", suffix=".go", delete=False) as a, tempfile.NamedTemporaryFile("w", suffix=".go", delete=False) as b:
                a.write(base); b.write(mutated)
            p = subprocess.run(["diff", "-u", "--label", "a/" + rel, "--label", "b/" + rel, a.name, b.name], capture_output=True, text=True).stdout
            os.unlink(a.name); os.unlink(b.name)
            n = sum(1 for l in p.splitlines() if l[:1] in "+-" and not l.startswith(("+++", "---")))
            if best is None or n < best[0]:
                best = (n, r, p)
        patch += best[2]
        print(f"{name}: {rel} based on {best[1][:7]} ({best[0]} changed lines)")
    pf = os.path.join(d, "patch.diff")
    open(pf, "w").write(patch)
    chk = subprocess.run(["git", "-C", "/repo", "apply", "--check", pf], capture_output=True, text=True)
    if chk.returncode != 0:
        chk = subprocess.run(["git", "-C", "/repo", "apply", "--check", "-3", pf], capture_output=True, text=True)
        print("   does not apply cleanly to HEAD:", chk.stderr.strip()[:200])
        ok = False
    if ok:
        for target, src in rep.items():
            os.unlink(src)
        os.unlink(ov)
