#!/bin/bash
# Regenerates harness/go.mod from /repo/go.mod, copies go.sum, builds vcheck (warms the build cache).
set -euo pipefail
cd "$(dirname "$0")"
. ./env.sh
REPO=${VERIF_REPO:-/repo}
{
  echo "module verif/harness"
  echo
  sed -n '/^go /,$p' "$REPO/go.mod"
  echo
  echo "require github.com/elnosh/gonuts v0.0.0"
  echo "replace github.com/elnosh/gonuts => $REPO"
} > harness/go.mod
cp "$REPO/go.sum" harness/go.sum
mkdir -p bin evidence replays
(cd harness && go build -tags verif -o ../bin/vcheck ./cmd/vcheck)
echo "setup ok"
